# -*- coding: utf-8 -*-
"""
Runs the obligation groups of one property: symbolic exploration + discharge
(pool A, shim installed in the workers), native replay / cross-check (pool B,
no rebinding at all), known-finding matching, VIOLATION lines, evidence.
"""
import os
import sys
import json
import time
import fnmatch
import traceback
import importlib
import multiprocessing as mp

VERIF = os.path.dirname(os.path.dirname(os.path.abspath(__file__)))
EXIT_OK, EXIT_VIOLATION, EXIT_UNDECIDED, EXIT_CRASH = 0, 1, 2, 3

_shim_info = None


def _load_contracts(prop):
    from . import api
    mods = [f[:-3] for f in sorted(os.listdir(os.path.join(VERIF, 'contracts')))
            if f.startswith(prop + '_') and f.endswith('.py')]
    if not mods and not os.path.exists(os.path.join(VERIF, 'contracts', f'extra_{prop}.py')):
        raise SystemExit(f'no contract module for {prop}')
    mods += [m for m in os.environ.get('VERIF_EXTRA_CONTRACTS', '').split(',') if m]     # work-in-progress files (never set by a registered command)
    for m in mods:
        importlib.import_module('contracts.' + m)
    return {k: g for k, g in api.GROUPS.items() if g.property_id == prop}


# --------------------------------------------------------------------------- symbolic worker

def _model_tables(world, model):
    import z3
    from .sx.sym import model_value
    tables = {}
    for name, args, res in world.uf_apps:
        t = tables.setdefault(name, {'entries': [], 'else': 0.0})
        a = [model_value(model, x) for x in args]
        v = model_value(model, res)
        if not any(e[0] == a for e in t['entries']):
            t['entries'].append([a, v])
    return tables


def _model_values(world, model):
    from .sx.sym import model_value
    return {k: model_value(model, v) for k, v in world.leaves.items()}


SECOND_SX_PER_CONFIG = int(os.environ.get('VERIF_SECOND_SX', '3'))      # thorough tier: 12 (run_property)
SECOND_SX_MS = int(os.environ.get('VERIF_SECOND_SX_MS', '1500'))


def _well_conditioned(values, tables):
    """Can a model be replayed faithfully with IEEE floats?  No if its magnitudes span more than six decades or two distinct
    numbers differ by less than 1e-5 relative (a branch or table lookup then goes the other way under rounding): such a
    model lies outside A-real and a native run on it says nothing about the symbolic semantics."""
    nums = [float(x) for x in values.values()] + [float(x) for t in tables.values() for e in t['entries'] for x in (list(e[0]) + [e[1]])]
    nz = sorted({x for x in nums if x != 0})
    if not nz:
        return True
    mags = [abs(x) for x in nz]
    if max(mags) > 1e6 * min(mags):       # (the span of _conditioned_model's range; was 1e9 - a model with values of 1 and 5e-8 replayed
        return False                       #  differently from its symbolic path on a loaded machine, C04/PH_correction)
    return all((b - a) > 1e-5 * max(abs(a), abs(b)) for a, b in zip(nz, nz[1:]))


def _conditioned_model(c, w):
    """One extra one-shot query for a model of the path condition whose leaves and model-function values are 0 or within
    [1e-3, 1e3] (None if there is none within 3 s)."""
    import z3
    try:
        s = z3.Solver()
        s.set('timeout', 3000)
        s.add(c.solver.assertions())
        lo, hi = z3.Q(1, 1000), z3.RealVal(1000)
        for t in list(c.vars.values()) + [r for _, _, r in w.uf_apps]:
            s.add(z3.Or(t == 0, z3.And(t >= lo, t <= hi), z3.And(t <= -lo, t >= -hi)))
        if s.check() == z3.sat:
            return s.model()
    except z3.Z3Exception:
        pass
    return None


def sym_task(task):
    """Explore one (group, cfg) symbolically.  Returns a result dict."""
    global _shim_info
    gname, cfg, tier, opts = task
    t0 = time.time()
    out = {'group': gname, 'cfg': cfg, 'paths': 0, 'vcs': 0, 'clauses': {}, 'failures': [],
           'cross': [], 'canaries': {}, 'error': None, 'undecided': [], 'solver_s': 0.0,
           'stats': {}, 'samples': None, 'exceptions': {}, 'unknown_budget': 8}
    try:
        import z3
        from . import api
        from .sx import sym, shim
        if _shim_info is None:
            import thermosteam  # noqa
            _shim_info = shim.install()
            from .sx import l0
            _shim_info = _shim_info + l0.install_if_requested(opts.get('l0', False))
            sym_task.l0 = opts.get('l0', False)
        elif getattr(sym_task, 'l0', False) != opts.get('l0', False):
            raise RuntimeError('worker was set up for another kernel level')
        g = api.GROUPS[gname]
        max_paths = g.max_paths or (4096 if tier == 'quick' else 65536)
        cross_cap = opts.get('cross_cap', 24 if tier == 'quick' else 200)
        prove_timeout = opts.get('prove_timeout_ms', 20000 if tier == 'quick' else 120000)
        stats = out['stats']

        def run(c):
            w = api.SymWorld(cfg, c)
            c.world = w
            try:
                g.fn(w, cfg)
            except api.CheckAbort:
                pass
            return w

        def on_path(c, w, exc):
            out['paths'] += 1
            w = c.world
            if exc is not None:
                if isinstance(exc, TypeError) and 'SymReal' in str(exc):
                    raise sym.EngineUnsupported(f'{type(exc).__name__}: {exc}') from exc
                tb = traceback.extract_tb(exc.__traceback__)
                where = next((f'{os.path.basename(f.filename)}:{f.lineno}' for f in reversed(tb)
                              if '/thermosteam/' in f.filename), '?')
                ename = f'no-unexpected-exception'
                out['exceptions'][f'{type(exc).__name__}@{where}'] = str(exc)[:200]
                w.obligations.append((ename, False, {'exception': f'{type(exc).__name__}: {exc}'[:300], 'where': where}))
            obs = w.obligations
            if not obs and not w.canaries:
                return
            names = [o[0] for o in obs]
            conds = [api.SymWorld._b(o[1]) for o in obs]
            out['vcs'] += len(conds)
            for n in names:
                out['clauses'].setdefault(n, 'unsat')
            # cheap refutation first: a clause that the path's own model (kept by the explorer for the cross-check)
            # falsifies needs no proof attempt - on nonlinear clauses that are FALSE the solver otherwise spends the whole
            # budget per clause and path (a seeded change made one configuration run > 25 min and end undecided).
            # The model is only used if it satisfies every assertion of the path solver; the counterexample is replayed
            # natively like any other.
            quick_ce = {}
            pm = c._model if conds else None      # only a model the explorer already holds: no extra solver call, no side effect on the path solver
            if pm is not None:
                try:
                    if z3.is_true(pm.eval(z3.And(*c.solver.assertions()), model_completion=True)):
                        for i, cond in enumerate(conds):
                            if z3.is_false(pm.eval(cond, model_completion=True)): quick_ce[i] = pm
                except z3.Z3Exception:
                    quick_ce = {}
            rest = [cond for i, cond in enumerate(conds) if i not in quick_ce]
            verdict, model = c.prove(z3.And(*rest), prove_timeout if out['unknown_budget'] > 0 else 2000) if rest else ('unsat', None)
            if verdict == 'unsat' and rest and SECOND_SX_PER_CONFIG > stats.get('second_asked', 0):
                # second back end on a sample: the first discharged path VCs of every configuration go to cvc5 as well
                from .vcg import second as _second
                if os.path.exists(_second.CVC5):
                    stats['second_asked'] = stats.get('second_asked', 0) + 1
                    ans, dt = _second.cvc5_check(list(c.solver.assertions()) + [z3.Not(z3.And(*rest))], SECOND_SX_MS)
                    key = 'second_' + {'unsat': 'confirmed', 'sat': 'disagreed'}.get(ans, 'no_answer')
                    stats[key] = stats.get(key, 0) + 1
                    stats['second_s'] = stats.get('second_s', 0.0) + dt
                    if ans == 'sat':
                        verdict = 'unknown'; out['undecided'].append('z3 unsat / cvc5 sat on the path VC')
            if verdict != 'unsat' or quick_ce:
                for i, ((n, _, info), cond) in enumerate(zip(obs, conds)):
                    if i in quick_ce: v, m = 'sat', quick_ce[i]
                    elif verdict == 'unsat': continue
                    elif out['unknown_budget'] <= 0: v, m = 'unknown', None
                    else:
                        v, m = c.prove(cond, prove_timeout)
                        if v == 'unknown': out['unknown_budget'] -= 1
                    if v == 'sat':
                        out['clauses'][n] = 'sat'
                        if sum(1 for f in out['failures'] if f['clause'] == n) < 3:
                            out['failures'].append({
                                'clause': n, 'info': info, 'values': _model_values(w, m),
                                'tables': _model_tables(w, m), 'decisions': len(c.trace),
                                'model': str(m)[:2000]})
                    elif v == 'unknown':
                        if out['clauses'][n] == 'unsat':
                            out['clauses'][n] = 'unknown'
                        out['undecided'].append(n)
            for n, cond in w.canaries:
                if out['canaries'].get(n) == 'refuted':
                    continue
                # cheap first: the model the explorer already holds refutes the (deliberately wrong) clause in most cases
                if pm is None and c._model is not None: pm = c._model
                try:
                    if pm is not None and z3.is_true(pm.eval(z3.And(*c.solver.assertions()), model_completion=True)) \
                            and z3.is_false(pm.eval(api.SymWorld._b(cond), model_completion=True)):
                        out['canaries'][n] = 'refuted'; continue
                except z3.Z3Exception:
                    pass
                v, m = c.prove(api.SymWorld._b(cond), prove_timeout)
                out['canaries'][n] = 'refuted' if v == 'sat' else out['canaries'].get(n, 'not-refuted')
            if len(out['cross']) < cross_cap:
                m = c.path_model()
                if m is not None:
                    cj = {'values': _model_values(w, m), 'tables': _model_tables(w, m),
                          'expect': [n for n in names if out['clauses'].get(n) == 'unsat']}
                    # a model that floats cannot replay faithfully (huge dynamic range, near-ties) is replaced by a
                    # well-conditioned one of the same path if the solver finds one; otherwise it is still run but a
                    # clause failing on it is counted as "skipped (rounding)", never as a violation
                    if not _well_conditioned(cj['values'], cj['tables']):
                        m2 = _conditioned_model(c, w)
                        if m2 is not None:
                            cj2 = dict(cj, values=_model_values(w, m2), tables=_model_tables(w, m2))
                            if _well_conditioned(cj2['values'], cj2['tables']):
                                cj = cj2
                                stats['cross_models_reconditioned'] = stats.get('cross_models_reconditioned', 0) + 1
                        if not _well_conditioned(cj['values'], cj['tables']):
                            cj['ill'] = True
                            stats['cross_models_ill_conditioned'] = stats.get('cross_models_ill_conditioned', 0) + 1
                    # a path model with values near/over the float range (clamped by model_value) is outside A-real:
                    # it cannot be replayed faithfully with floats, so it is not used as a native cross-check
                    big = [abs(x) for x in cj['values'].values()] + [abs(x) for t in cj['tables'].values()
                                                                      for e in t['entries'] for x in (e[0] + [e[1]])]
                    if all(x < 1e150 for x in big):
                        out['cross'].append(cj)
                    else:
                        stats['cross_skipped_float_range'] = stats.get('cross_skipped_float_range', 0) + 1
            if out['samples'] is None and w.samples:
                out['samples'] = {k: str(v)[:300] for k, v in w.samples.items()}
            out['solver_s'] += c.solver_time

        sym.explore(run, max_paths=max_paths, stats=stats, on_path=on_path)
        if out['paths'] == 0:
            out['error'] = 'vacuous: zero feasible paths'
    except Exception as e:  # engine problems are never verdicts
        kind = type(e).__name__
        out['error'] = f'{kind}: {e}\n' + traceback.format_exc()[-1500:]
        out['error_kind'] = kind
    out['wall_s'] = time.time() - t0
    out['shim'] = _shim_info if task[3].get('want_shim') else None
    return out


# --------------------------------------------------------------------------- native worker

def native_task(task):
    """Run one group natively on concrete leaf values; returns failed clause names."""
    gname, cfg, values, tables, expect = task
    from . import api
    g = api.GROUPS[gname]
    sampled = isinstance(values, dict) and '__sample__' in values
    w = api.SampleWorld(cfg, values['__sample__']) if sampled else api.ConcreteWorld(cfg, values, tables)
    res = {'failed': [], 'exception': None, 'skipped': False, 'details': {}}
    try:
        try:
            g.fn(w, cfg)
        except api.CheckAbort:
            pass
    except Exception as e:
        tb = traceback.extract_tb(e.__traceback__)
        where = next((f'{os.path.basename(f.filename)}:{f.lineno}' for f in reversed(tb)
                      if '/thermosteam/' in f.filename), '?')
        res['exception'] = f'{type(e).__name__}: {e}'[:300] + f' @ {where}'
        w.obligations.append(('no-unexpected-exception', False, {'exception': res['exception']}))
    if w.violated_assumptions:
        res['skipped'] = True
        return res
    for n, cond, info in w.obligations:
        try:
            ok = bool(cond)
        except Exception as e:  # pragma: no cover
            ok = False
            info = dict(info, eval_error=str(e))
        if not ok:
            res['failed'].append(n)
            res['details'][n] = {k: str(v)[:300] for k, v in info.items()}
    res['observed'] = {k: str(v)[:300] for k, v in w.samples.items()}
    res['n_clauses'] = len(w.obligations)
    # canaries (deliberately wrong clauses) evaluated natively: one that HOLDS means the run was vacuous for that clause
    held = []
    for n, cond in w.canaries:
        try:
            if bool(cond): held.append(n)
        except Exception:
            pass
    res['canaries'] = len(w.canaries); res['canaries_held'] = held; res['canary_names'] = [n for n, _ in w.canaries]
    if sampled: res['leaves'] = dict(w.leaves)
    return res


# --------------------------------------------------------------------------- known findings

def load_known():
    p = os.path.join(VERIF, 'known_findings.json')
    if not os.path.exists(p):
        return []
    return json.load(open(p))['findings']


def match_known(known, prop, gname, cfgname, clause):
    for k in known:
        if k.get('status') != 'finding' or k['property'] != prop:
            continue
        m = k['match']
        if (fnmatch.fnmatchcase(gname, m.get('group', '*')) and fnmatch.fnmatchcase(cfgname, m.get('config', '*'))
                and fnmatch.fnmatchcase(clause, m.get('clause', '*'))):
            return k
    return None


def load_baseline():
    p = os.path.join(VERIF, 'baseline_obligations.json')
    if not os.path.exists(p):
        return {}
    return json.load(open(p))


# --------------------------------------------------------------------------- main driver

def run_property(prop, tier='quick', jobs=None, seed=0, only=None, write_baseline=False, extra=None):
    t0 = time.time()
    global SECOND_SX_PER_CONFIG
    if tier == 'thorough' and 'VERIF_SECOND_SX' not in os.environ: SECOND_SX_PER_CONFIG = 12
    jobs = jobs or min(16, os.cpu_count() or 4)
    evdir = os.environ.get('VERIF_EVIDENCE_DIR') or os.path.join(VERIF, 'evidence')
    if (only or os.environ.get('VERIF_ONLY_CONFIG')) and not os.environ.get('VERIF_EVIDENCE_DIR'):
        evdir = os.path.join(VERIF, '.scratch', 'evidence_partial')     # a filtered run never overwrites the evidence of the full check
    os.makedirs(evdir, exist_ok=True)
    groups = _load_contracts(prop)
    if only:
        groups = {k: g for k, g in groups.items() if any(fnmatch.fnmatchcase(k, o) for o in only)}
    import thermosteam  # noqa  (imported before forking so that workers share it)
    known = load_known()
    baseline = load_baseline()
    tasks = []
    for gname, g in groups.items():
        if g.mode != 'S':
            continue
        cfgs = list(g.configs(tier))
        if not cfgs:
            print(f'ENGINE-ERROR: group {gname} has no configurations'); return EXIT_CRASH
        if os.environ.get('VERIF_ONLY_CONFIG'):       # debugging aid (never used by a registered command)
            cfgs = [c for c in cfgs if fnmatch.fnmatchcase(c['name'], os.environ['VERIF_ONLY_CONFIG'])]
        for n, cfg in enumerate(cfgs):
            tasks.append((gname, cfg, tier, {'want_shim': n == 0, 'l0': bool(g.l0 or os.environ.get('VERIF_L0') == 'contract')}))
    ctxm = mp.get_context('fork')
    results = []
    # thorough tier: wall-clock budget per phase (VERIF_THOROUGH_BUDGET_S, 0 = none). What the budget leaves unexplored is
    # counted in the evidence ('thorough_budget') and printed; the verdict covers what was explored. The quick tier has no budget.
    budget_s = float(os.environ.get('VERIF_THOROUGH_BUDGET_S', '1200')) if tier == 'thorough' else 0.0
    budget_info = {'budget_s_per_phase': budget_s, 'symbolic_configs_not_explored': 0, 'native_jobs_not_run': 0}
    t_sym = time.time()
    for level in (False, True):     # real kernels / contract level of the kernels: separate worker pools
        sub = [t for t in tasks if t[3]['l0'] == level]
        if sub:
            if budget_s:       # thorough tier under a wall-clock budget: the explored subset is spread over the whole enumeration
                import random as _random
                _random.Random(1234567 + int(seed or 0)).shuffle(sub)
            with ctxm.Pool(min(jobs, len(sub))) as pool:
                it = pool.imap_unordered(sym_task, sub, chunksize=1)
                done = 0
                while True:
                    try:
                        if budget_s and time.time() > t_sym + budget_s: raise mp.TimeoutError()
                        r = it.next(timeout=max(1.0, t_sym + budget_s - time.time())) if budget_s else next(it)
                    except StopIteration:
                        break
                    except mp.TimeoutError:
                        budget_info['symbolic_configs_not_explored'] += len(sub) - done
                        pool.terminate(); break
                    results.append(r); done += 1
    # second chance for configurations that ended undecided (solver timeouts are wall-clock: on a loaded machine a query that
    # normally takes seconds may run out of its budget): re-run them, a few at a time, with four times the budget
    retry = [i for i, r in enumerate(results) if not r['error'] and (r['undecided'] or any(v != 'refuted' for v in r['canaries'].values()))]
    if retry and len(retry) <= 40:
        key = {(t[0], t[1]['name']): t for t in tasks}
        again = []
        for i in retry:
            t = key[(results[i]['group'], results[i]['cfg']['name'])]
            base_ms = 20000 if tier == 'quick' else 120000
            again.append((t[0], t[1], t[2], dict(t[3], prove_timeout_ms=4 * base_ms, want_shim=False)))
        for level in (False, True):
            sub = [(i, t) for i, t in zip(retry, again) if t[3]['l0'] == level]
            if sub:
                with ctxm.Pool(min(4, len(sub))) as pool:
                    for (i, _), r in zip(sub, pool.map(sym_task, [t for _, t in sub], chunksize=1)):
                        if not r['error']:
                            r['shim'] = results[i].get('shim'); r['retried'] = True
                            results[i] = r
    results.sort(key=lambda r: (r['group'], r['cfg']['name']))

    shim_info = next((r['shim'] for r in results if r.get('shim')), [])
    crashes = [r for r in results if r['error']]
    # ---- native phase: replay counterexamples and cross-check path models
    # ---- mode B (bounded run-time contracts on the real code, natively): one native job per configuration
    b_results = []
    for gname, g in groups.items():
        if g.mode != 'B':
            continue
        cfgs = list(g.configs(tier))
        if not cfgs:
            print(f'ENGINE-ERROR: group {gname} has no configurations'); return EXIT_CRASH
        for cfg in cfgs:
            b_results.append({'group': gname, 'cfg': cfg, 'mode': 'B'})
    native_jobs = []
    for bi, b in enumerate(b_results):
        native_jobs.append(('bounded', bi, 0, (b['group'], b['cfg'], b['cfg'].get('values', {}), b['cfg'].get('tables', {}), [])))
    for ri, r in enumerate(results):
        for fi, f in enumerate(r['failures']):
            native_jobs.append(('replay', ri, fi, (r['group'], r['cfg'], f['values'], f['tables'], [f['clause']])))
        for ci, cjob in enumerate(r['cross']):
            native_jobs.append(('cross', ri, ci, (r['group'], r['cfg'], cjob['values'], cjob['tables'], cjob['expect'])))
    # fall-back for configurations the symbolic engine could not execute on this tree (unsupported operation, path cap,
    # wall-clock budget): native runs on sampled leaf values; only clauses discharged on the baseline tree can become
    # violations this way (with the sampled input as replay), everything else leaves the engine error standing
    n_samples = int(os.environ.get('VERIF_FALLBACK_SAMPLES', '24'))
    for ri, r in enumerate(results):
        if r['error'] and len(native_jobs) < 20000:
            for k in range(n_samples):
                native_jobs.append(('sample', ri, k, (r['group'], r['cfg'], {'__sample__': k}, {}, [])))
    native_out = []
    if native_jobs:
        if budget_s:      # replays of counter-models always first; the rest in a seeded shuffle
            import random as _random
            rest_jobs = [j for j in native_jobs if j[0] != 'replay']
            _random.Random(7654321 + int(seed or 0)).shuffle(rest_jobs)
            native_jobs = [j for j in native_jobs if j[0] == 'replay'] + rest_jobs
        t_native = time.time()
        with ctxm.Pool(min(jobs, len(native_jobs))) as pool:
            it = pool.imap(native_task, [j[3] for j in native_jobs], chunksize=1 if budget_s else 4)     # only chunksize 1 gives an iterator with next(timeout)
            while True:
                try:
                    if budget_s and time.time() > t_native + budget_s: raise mp.TimeoutError()
                    res_ = it.next(timeout=max(1.0, t_native + budget_s - time.time())) if budget_s else next(it)
                except StopIteration:
                    break
                except mp.TimeoutError:
                    budget_info['native_jobs_not_run'] = len(native_jobs) - len(native_out)
                    pool.terminate(); break
                native_out.append(res_)
        if len(native_out) < len(native_jobs):
            native_jobs = native_jobs[:len(native_out)]
    if budget_info['symbolic_configs_not_explored'] or budget_info['native_jobs_not_run']:
        print(f"BUDGET {prop} [thorough]: {budget_info['symbolic_configs_not_explored']} symbolic configurations and "
              f"{budget_info['native_jobs_not_run']} native runs not explored within {budget_s:.0f} s per phase (VERIF_THOROUGH_BUDGET_S); the verdict covers what was explored")

    violations = []      # dicts
    known_hits = {}
    undecided = []
    cross_checked = 0
    cross_skipped = 0
    bounded_evals = 0
    bounded_clauses = 0
    b_canaries = 0
    b_canary_seen, b_canary_refuted = set(), set()
    native_exceptions = 0
    native_exception_samples = []
    for (kind, ri, idx, job), res in zip(native_jobs, native_out):
        if kind == 'bounded':
            b = b_results[ri]
            b['res'] = res
            if res['skipped']:
                continue
            bounded_evals += 1
            bounded_clauses += res.get('n_clauses', 0)
            b_canaries += res.get('canaries', 0)
            for n in res.get('canary_names', []):
                key = f"{b['group']}/{n}"
                b_canary_seen.add(key)
                if n not in res.get('canaries_held', []): b_canary_refuted.add(key)
            for n in res['failed']:
                violations.append({'group': b['group'], 'cfg': b['cfg'], 'clause': n, 'how': 'bounded-runtime-contract',
                                   'values': job[2], 'tables': job[3], 'native': res, 'replayed': True,
                                   'info': res['details'].get(n, {})})
            continue
        r = results[ri]
        gname, cfgname = r['group'], r['cfg']['name']
        if kind == 'sample':
            if res['skipped']:
                continue
            for n in res['failed']:
                ob = f'{gname}/{cfgname}/{n}'
                if baseline.get(ob) == 'unsat' and not any(v['group'] == gname and v['cfg'] is r['cfg'] and v['clause'] == n for v in violations):
                    violations.append({'group': gname, 'cfg': r['cfg'], 'clause': n, 'how': 'native-sample-after-engine-error',
                                       'values': res.get('leaves', {}), 'tables': {}, 'native': res, 'replayed': True,
                                       'info': dict(res['details'].get(n, {}), engine_error=str(r['error']).splitlines()[0][:200])})
            continue
        if kind == 'replay':
            f = r['failures'][idx]
            f['native'] = res
            f['replayed'] = (f['clause'] in res['failed']) and not res['skipped']
        else:
            if res['skipped']:
                cross_skipped += 1
                continue
            if r['cross'][idx].get('ill'):
                # ill-conditioned model (outside A-real): rounding decides branches and lookups differently from the reals
                if any(n in job[4] for n in res['failed']): cross_skipped += 1
                else: cross_checked += 1
                continue
            cross_checked += 1
            if res.get('exception') and 'no-unexpected-exception' not in r['clauses']:
                native_exceptions += 1      # the native run of a path model raised where no symbolic path did (reported in the evidence)
                if len(native_exception_samples) < 5: native_exception_samples.append(f"{gname}/{cfgname}: {res['exception']}"[:260])
            for n in res['failed']:
                if n in job[4]:   # proved symbolically, fails natively
                    violations.append({'group': gname, 'cfg': r['cfg'], 'clause': n, 'how': 'native-crosscheck',
                                       'values': job[2], 'tables': job[3], 'native': res, 'replayed': True,
                                       'info': res['details'].get(n, {})})

    for r in results:
        gname, cfgname = r['group'], r['cfg']['name']
        seen = set()
        for f in r['failures']:
            key = (gname, cfgname, f['clause'])
            if key in seen and not f.get('replayed'):
                continue
            seen.add(key)
            violations.append({'group': gname, 'cfg': r['cfg'], 'clause': f['clause'], 'how': 'smt-counterexample',
                               'values': f['values'], 'tables': f['tables'], 'native': f.get('native'),
                               'replayed': f.get('replayed', False), 'info': f['info'], 'model': f.get('model')})
        for n in set(r['undecided']):
            if r['clauses'].get(n) == 'unknown':
                undecided.append(f'{gname}/{cfgname}/{n}')

    # ---- classify violations
    final_viol = []
    for v in violations:
        ob = f"{v['group']}/{v['cfg']['name']}/{v['clause']}"
        k = match_known(known, prop, v['group'], v['cfg']['name'], v['clause'])
        if k is not None:
            known_hits.setdefault(k['id'], {'k': k, 'obligations': set()})['obligations'].add(ob)
            continue
        if v['replayed']:
            final_viol.append((ob, v, ''))
        elif baseline.get(ob) == 'unsat' or baseline.get(f"{v['group']}/*/{v['clause']}") == 'unsat':
            final_viol.append((ob, v, 'no-failing-input-found'))
        else:
            undecided.append(ob + ' (refuted by the solver, not reproduced natively, not in baseline)')

    # dedupe violations by obligation, prefer replayed
    byob = {}
    for ob, v, suffix in final_viol:
        if ob not in byob or (suffix == '' and byob[ob][2] != ''):
            byob[ob] = (ob, v, suffix)
    final_viol = list(byob.values())

    # ---- canaries / vacuity
    canary_total = canary_refuted = 0
    canary_fail = []
    for r in results:
        for n, s in r['canaries'].items():
            canary_total += 1
            if s == 'refuted': canary_refuted += 1
            else: canary_fail.append(f"{r['group']}/{r['cfg']['name']}/{n}")

    # ---- extra (non-S) engines plug in here
    extra_res = extra(prop, tier, jobs, seed) if extra else None

    # ---- report
    status = EXIT_OK
    replay_dir = os.path.join(VERIF, 'replays', prop)
    for hid, h in sorted(known_hits.items()):
        print(f"KNOWN-FINDING: property={prop} {h['k']['what']} [{hid}; {len(h['obligations'])} obligation(s), e.g. {sorted(h['obligations'])[0]}]")
    if final_viol:
        os.makedirs(replay_dir, exist_ok=True)
        status = EXIT_VIOLATION
        for ob, v, suffix in sorted(final_viol, key=lambda x: x[0]):
            path = os.path.join(replay_dir, ob.replace('/', '__').replace(' ', '_')[:180] + '.json')
            g = groups[v['group']]
            json.dump({'property': prop, 'obligation': ob, 'group': v['group'], 'cfg': v['cfg'], 'clause': v['clause'],
                       'functions': g.functions, 'found_by': v['how'], 'values': v['values'], 'tables': v['tables'],
                       'native_result': v.get('native'), 'reproduced_natively': v['replayed'], 'info': v['info'],
                       'solver_model': v.get('model'),
                       'replay_cmd': f'./check {prop} --replay {os.path.relpath(path, VERIF)}'},
                      open(path, 'w'), indent=1, default=str)
            print(f"VIOLATION property={prop} replay={path}" + (f' {suffix}' if suffix else ''))
            print(f"  obligation {ob} on {', '.join(g.functions[:3])}: {v['how']}; {json.dumps(v['info'], default=str)[:300]}")
    if extra_res is not None:
        es = extra_res.get('status', 0)
        if es == EXIT_VIOLATION or status == EXIT_VIOLATION: status = EXIT_VIOLATION
        else: status = max(status, es)
    if crashes:
        for r in crashes:
            print(f"ENGINE-ERROR {r['group']}/{r['cfg']['name']}: {r['error']}")
        if status == EXIT_OK: status = EXIT_CRASH
    if canary_fail:
        print('ENGINE-ERROR canaries not refuted (vacuity guard): ' + ', '.join(canary_fail[:10]))
        if status == EXIT_OK: status = EXIT_CRASH
    if undecided and status == EXIT_OK:
        status = EXIT_UNDECIDED
    for u in undecided[:20]:
        print(f'UNDECIDED {u}')

    # ---- evidence
    ob_status = {}
    for r in results:
        for n, s in r['clauses'].items():
            ob = f"{r['group']}/{r['cfg']['name']}/{n}"
            ob_status[ob] = s
    known_obs = set()
    for h in known_hits.values(): known_obs |= h['obligations']
    claimed = {ob: s for ob, s in ob_status.items() if ob not in known_obs}
    n_ob = len(claimed)
    n_dis = sum(1 for s in claimed.values() if s == 'unsat')
    if write_baseline:
        base = load_baseline()
        base = {k: v for k, v in base.items() if not k.startswith(prop + '/')}
        base.update({ob: s for ob, s in ob_status.items() if s == 'unsat'})
        if extra_res is not None:
            base.update(extra_res.get('baseline', {}))
        json.dump(base, open(os.path.join(VERIF, 'baseline_obligations.json'), 'w'), indent=0, sort_keys=True)
    from . import api
    samples = []
    for r in results[:400]:
        if len(samples) >= 6: break
        if r['samples'] or r['clauses']:
            samples.append({'obligation_group': r['group'], 'config': r['cfg'], 'paths': r['paths'],
                            'clauses': dict(list(r['clauses'].items())[:8]), 'observed': r['samples']})
    functions = []
    for g in groups.values():
        for f in g.functions:
            e = {'name': f, 'mode': ('bounded (not counted as proved)' if g.mode == 'B' else g.mode) + ('/loop-free' if g.loop_free else ''), 'group': g.name}
            functions.append(e)
    assumptions = sorted({a for g in groups.values() for a in g.assumptions} | {'A-real', 'A-cpython'})
    cov = {
        'obligations': n_ob, 'discharged': n_dis,
        'obligations_S': n_ob,
        'vcs_discharged': sum(r['vcs'] for r in results),
        'configs': len(results), 'paths': sum(r['paths'] for r in results),
        'paths_cross_checked': cross_checked, 'cross_checks_skipped_rounding': cross_skipped,
        'second_back_end_sample': {'solver': 'cvc5 1.0.3 on the SMT-LIB text of pc AND NOT(clauses) for the first %d z3-discharged path VC(s) of every configuration, %d ms each' % (SECOND_SX_PER_CONFIG, SECOND_SX_MS),
                                   'confirmed_unsat': sum(r['stats'].get('second_confirmed', 0) for r in results),
                                   'no_answer_in_budget': sum(r['stats'].get('second_no_answer', 0) for r in results),
                                   'disagreed': sum(r['stats'].get('second_disagreed', 0) for r in results),
                                   'solver_time_s': round(sum(r['stats'].get('second_s', 0) for r in results), 2)},
        'thorough_budget': budget_info,
        'cross_models_reconditioned': sum(r['stats'].get('cross_models_reconditioned', 0) for r in results),
        'cross_models_ill_conditioned': sum(r['stats'].get('cross_models_ill_conditioned', 0) for r in results),
        'canaries': canary_total, 'canaries_refuted': canary_refuted,
        'known_finding_obligations': len(known_obs),
        'bounded': [{'group': gname, 'functions': g.functions, 'inputs': sum(1 for b in b_results if b['group'] == gname and 'res' in b),
                     'rule': g.notes} for gname, g in groups.items() if g.mode == 'B'],
        'bounded_evaluations': bounded_evals, 'bounded_clause_evaluations': bounded_clauses,
        # mode B: a canary (deliberately wrong clause) counts as refuted when it is false in at least one configuration of its group
        'bounded_canaries': len(b_canary_seen), 'bounded_canaries_refuted': len(b_canary_refuted),
        'bounded_canaries_never_refuted': sorted(b_canary_seen - b_canary_refuted)[:20],
        'cross_checks_native_exception_without_symbolic_one': native_exceptions, 'native_exception_samples': native_exception_samples,
        'known_findings_reproduced': sorted(known_hits),
        'undecided': len(undecided),
        'functions_under_contract': functions,
        'solver': {'z3': _z3_version()}, 'solver_time_s': round(sum(r['solver_s'] for r in results), 2),
        'checker_cmd': f'./check {prop} --tier {tier}',
        'trusted_base': (['SX engine (engine/sx): SymReal/SymBool semantics, path explorer', 'z3 ' + _z3_version()]
                         + [f'assumed: {a}' for a in assumptions] + [f'rebound: {s}' for s in (shim_info or [])[:60]]),
        'samples': samples,
        'exhaustive': False,
        'explanation': ('obligations = (group, structural configuration, ensures-clause) triples; each is discharged on every '
                        'feasible path of the real function(s) for all real-valued leaves satisfying the requires (mode S: '
                        'structure bounded by the configuration, values unbounded).'),
    }
    if extra_res is not None:
        for k, v in extra_res.get('coverage', {}).items():
            if k in ('obligations', 'discharged'):
                cov[k] += v
            elif k in cov and isinstance(cov[k], list):
                cov[k] = cov[k] + v
            else:
                cov[k] = v
    ev = {'property_id': prop, 'tier': tier, 'seed': seed, 'level': extra_res.get('level', 'proof') if extra_res else 'proof',
          'coverage': cov, 'assumptions': assumptions, 'wall_s': round(time.time() - t0, 2),
          'violations': len(final_viol) + (extra_res.get('violations', 0) if extra_res else 0)}
    lvl = _level_override(prop)
    if lvl: ev['level'] = lvl
    json.dump(ev, open(os.path.join(evdir, f'{prop}.json'), 'w'), indent=1, default=str)
    print(f"{prop} [{tier}] groups={len(groups)} configs={len(results)} bounded={bounded_evals} paths={cov['paths']} obligations={cov['obligations']} discharged={cov['discharged']} "
          f"vcs={cov['vcs_discharged']} cross-checked={cross_checked} canaries={canary_refuted}/{canary_total} "
          f"known={len(known_hits)} violations={ev['violations']} undecided={len(undecided)} wall={ev['wall_s']}s exit={status}")
    return status


def _level_override(prop):
    p = os.path.join(VERIF, 'MANIFEST.json')
    try:
        for c in json.load(open(p))['checks']:
            if c['property_id'] == prop:
                return c['level_claimed']['category']
    except Exception:
        pass
    return None


def _z3_version():
    try:
        import z3
        return z3.get_version_string()
    except Exception:  # pragma: no cover
        return '?'


def replay_file(prop, path):
    """Re-run a replay file natively (no rebinding); exit 1 if the clause still fails."""
    d = json.load(open(path))
    if d.get('mode') == 'U' and hasattr(importlib.import_module('contracts.extra_' + prop), 'replay_native_file'):
        m = importlib.import_module('contracts.extra_' + prop)
        res = m.replay_native_file(d)
        print(json.dumps(res, indent=1, default=str))
        if res is None:
            print('the replay file carries no failing input (the obligation failed without a counterexample: no-failing-input-found)'); return EXIT_OK
        if res['broken'] and not res['wf_pre']:
            print(f"VIOLATION property={prop} replay={path}")
            return EXIT_VIOLATION
        print('not reproduced'); return EXIT_OK
    if d.get('mode') == 'U':
        m = importlib.import_module('contracts.extra_' + prop)
        import thermosteam  # noqa
        ob = d['obligation'].split('/')
        name = ob[2]
        desc = next(dsc for nm, dsc in m.kernel_table() if nm == name.split('.')[-1] and (('logical' in dsc) == name.startswith('SLV.')))
        failed = m.replay_native(name, list(desc), d['inputs'])
        print(json.dumps({'failed': failed}, indent=1))
        if failed:
            print(f"VIOLATION property={prop} replay={path}")
            return EXIT_VIOLATION
        print('not reproduced'); return EXIT_OK
    _load_contracts(prop)
    res = native_task((d['group'], d['cfg'], d['values'], d['tables'], [d['clause']]))
    print(json.dumps(res, indent=1, default=str))
    if d['clause'] in res['failed']:
        print(f"VIOLATION property={prop} replay={path}")
        return EXIT_VIOLATION
    print('not reproduced')
    return EXIT_OK
