# -*- coding: utf-8 -*-
"""
Namespace rebinding that lets the real thermosteam code carry symbolic leaves.

Nothing in /repo is edited: `install()` assigns into the namespaces of the
already imported thermosteam modules (this process only).  What is rebound is
returned as a list of strings and ends up verbatim in the evidence files
(`trusted_base`).
"""
import sys
import math
import builtins
import types
import numpy

from .sym import SymReal, SymBool, ctx, EngineUnsupported, lift, is_sym

_float = builtins.float


class _SXFloatMeta(type):
    def __instancecheck__(cls, inst):
        return isinstance(inst, (_float, SymReal))

    def __call__(cls, x=0.0):
        if isinstance(x, SymReal):
            return x
        if isinstance(x, SymBool):
            return x._r()
        return _float(x)

    def __repr__(cls):
        return "<class 'float'> (SX: identity on symbolic reals)"


class sxfloat(metaclass=_SXFloatMeta):
    """Stands in for the builtin `float` inside thermosteam modules."""
    fromhex = _float.fromhex


_FLOAT_DTYPES = (None, _float, sxfloat, numpy.float64, 'float', 'float64', 'd')


def _is_float_dtype(dtype):
    try:
        if dtype in _FLOAT_DTYPES:
            return True
    except TypeError:
        pass
    try:
        return numpy.dtype(dtype) == numpy.float64
    except TypeError:
        return False


def _has_sym(x, depth=0):
    if is_sym(x):
        return True
    if isinstance(x, numpy.ndarray):
        return x.dtype == object and any(_has_sym(i, depth + 1) for i in x.flat)
    if isinstance(x, (list, tuple)) and depth < 4:
        return any(_has_sym(i, depth + 1) for i in x)
    return False


def _obj_full(shape, value):
    a = numpy.empty(shape, dtype=object)
    a.fill(value)
    return a


def _elementwise(f):
    def g(x, *args, **kw):
        if is_sym(x):
            return f(x)
        if isinstance(x, numpy.ndarray) and x.dtype == object:
            out = numpy.empty(x.shape, dtype=object)
            flat = out.reshape(-1)
            for n, i in enumerate(x.flat):
                flat[n] = f(i)
            return out
        if isinstance(x, (list, tuple)) and _has_sym(x):
            return g(numpy.array(x, dtype=object))
        return getattr(numpy, f.__name__)(x, *args, **kw)
    g.__name__ = f.__name__
    return g


def exp(x):
    if isinstance(x, SymReal): return x.exp()
    if isinstance(x, SymBool): return x._r().exp()
    return math.exp(x)


def log(x):
    if isinstance(x, SymReal): return x.log()
    return math.log(x)


def sqrt(x):
    if isinstance(x, SymReal): return x.sqrt()
    return math.sqrt(x)


def _abs(x):
    return abs(x)


_abs.__name__ = 'abs'


def isnan(x):
    if is_sym(x): return False
    if isinstance(x, numpy.ndarray) and x.dtype == object:
        return numpy.array([(False if is_sym(i) else bool(numpy.isnan(i))) for i in x.flat]).reshape(x.shape)
    return numpy.isnan(x)


def isfinite(x):
    if is_sym(x): return True
    if isinstance(x, numpy.ndarray) and x.dtype == object:
        return numpy.array([(True if is_sym(i) else bool(numpy.isfinite(i))) for i in x.flat]).reshape(x.shape)
    return numpy.isfinite(x)


class NPShim(types.ModuleType):
    """Forwards to numpy; float arrays become object arrays (A-real)."""

    def __init__(self):
        super().__init__('numpy')
        self.__dict__['_np'] = numpy

    def __getattr__(self, name):
        return getattr(numpy, name)

    @staticmethod
    def zeros(shape, dtype=None, **kw):
        if _is_float_dtype(dtype):
            return _obj_full(shape, 0.0)
        return numpy.zeros(shape, dtype=dtype, **kw)

    @staticmethod
    def ones(shape, dtype=None, **kw):
        if _is_float_dtype(dtype):
            return _obj_full(shape, 1.0)
        return numpy.ones(shape, dtype=dtype, **kw)

    @staticmethod
    def empty(shape, dtype=None, **kw):
        if _is_float_dtype(dtype):
            return _obj_full(shape, 0.0)
        return numpy.empty(shape, dtype=dtype, **kw)

    @staticmethod
    def zeros_like(a, dtype=None, **kw):
        if dtype is None and isinstance(a, numpy.ndarray) and a.dtype.kind not in 'fO':
            return numpy.zeros_like(a)
        if _is_float_dtype(dtype) or dtype is None:
            return _obj_full(numpy.shape(a), 0.0)
        return numpy.zeros_like(a, dtype=dtype, **kw)

    @staticmethod
    def ones_like(a, dtype=None, **kw):
        if dtype is None and isinstance(a, numpy.ndarray) and a.dtype.kind not in 'fO':
            return numpy.ones_like(a)
        if _is_float_dtype(dtype) or dtype is None:
            return _obj_full(numpy.shape(a), 1.0)
        return numpy.ones_like(a, dtype=dtype, **kw)

    @staticmethod
    def array(obj, dtype=None, **kw):
        if dtype is not None and _is_float_dtype(dtype):
            dtype = None
            force = True
        else:
            force = False
        if dtype is None:
            if _has_sym(obj) or force:
                if isinstance(obj, numpy.ndarray):
                    return obj.astype(object)
                a = numpy.array(obj, dtype=object, **kw)
                return a
            a = numpy.array(obj, **kw)
            if a.dtype.kind == 'f':
                return a.astype(object)
            return a
        return numpy.array(obj, dtype=dtype, **kw)

    @staticmethod
    def asarray(obj, dtype=None, **kw):
        if isinstance(obj, numpy.ndarray) and obj.dtype == object and (dtype is None or _is_float_dtype(dtype)):
            return obj
        return NPShim.array(obj, dtype, **kw)

    exp = staticmethod(_elementwise(exp))
    log = staticmethod(_elementwise(log))
    sqrt = staticmethod(_elementwise(sqrt))
    abs = staticmethod(_elementwise(_abs))
    isnan = staticmethod(isnan)
    isfinite = staticmethod(isfinite)


np_shim = NPShim()

_MATH = {id(math.exp): exp, id(math.log): log, id(math.sqrt): sqrt,
         id(numpy.exp): np_shim.exp, id(numpy.log): np_shim.log,
         id(numpy.sqrt): np_shim.sqrt, id(numpy.abs): np_shim.abs}

_installed = None


def install(prefix='thermosteam'):
    """Rebind float / np / math functions / njit functions in every loaded thermosteam module."""
    global _installed
    if _installed is not None:
        return _installed
    rebound = []
    for name, mod in sorted(sys.modules.items()):
        if mod is None or not (name == prefix or name.startswith(prefix + '.')):
            continue
        d = mod.__dict__
        changed = []
        for k, v in list(d.items()):
            if v is numpy:
                d[k] = np_shim; changed.append(f'{k}->np_shim')
            elif id(v) in _MATH and callable(v) and not isinstance(v, type):
                d[k] = _MATH[id(v)]; changed.append(f'{k}->sx.{_MATH[id(v)].__name__}')
            elif hasattr(v, 'py_func') and callable(getattr(v, 'py_func', None)):
                d[k] = v.py_func; changed.append(f'{k}->py_func')
        d['float'] = sxfloat
        changed.append('float->sxfloat')
        rebound.append(f'{name}: ' + ', '.join(changed))
    sp = sys.modules.get(prefix + '.base.sparse')
    if sp is not None:
        sp.SparseVector.dtype = sxfloat
        rebound.append('thermosteam.base.sparse.SparseVector.dtype -> sxfloat')
    _installed = rebound
    return rebound
