# -*- coding: utf-8 -*-
"""
L0 = contract level of the SparseVector kernels (DESIGN 2.2 "Layering").

When VERIF_L0=contract (set per group via `l0=True`), the arithmetic kernels of
thermosteam.base.sparse.SparseVector are rebound to *executable forms of their
contracts* (dense image of the result = operator applied to the dense images of
the operands, NumPy length-1 broadcasting, ValueError on shape mismatch, results
keep rep_ok) and every `dct` becomes a LazyDct that realises

        stored(k)  <=>  candidate value at k  !=  0

lazily: arithmetic never forks on "did this entry cancel to zero"; presence is
decided (one branch decision) only when code actually observes it (`in`,
iteration, len, bool, del, [] without default).  The substitution is sound when
the C09 kernel obligations (real kernel == this contract) are discharged; the
native cross-check of every path runs the *real* kernels on floats.
"""
import os
import sys

from .sym import SymReal, SymBool, ctx, is_sym, EngineUnsupported

_ZERO = (0, 0.0, False)


def _is_zero_default(d):
    return (d.__class__ in (int, float, bool)) and d == 0


class LazyDct(dict):
    """dict whose stored candidates may be symbolically zero; abstractly {k: v | v != 0}."""
    __slots__ = ('_known',)

    def __init__(self, src=None, known=True):
        dict.__init__(self)
        self._known = set()
        if src is not None:
            if isinstance(src, LazyDct):
                for k in dict.keys(src):
                    dict.__setitem__(self, k, dict.__getitem__(src, k))
                self._known = set(src._known)
            else:
                for k, v in src.items():
                    dict.__setitem__(self, k, v)
                if known:
                    self._known = set(dict.keys(self))

    # -- engine-side access (never forks)
    def peek(self, k):
        return dict.get(self, k, 0.)

    def put(self, k, v):
        """Store a candidate (may be zero); presence stays undecided."""
        if v.__class__ in (int, float) and v == 0:
            self.drop(k)
            return
        dict.__setitem__(self, k, v)
        self._known.discard(k)

    def drop(self, k):
        if dict.__contains__(self, k):
            dict.__delitem__(self, k)
        self._known.discard(k)

    def candidates(self):
        return list(dict.keys(self))

    # -- presence
    def _present(self, k):
        if not dict.__contains__(self, k):
            return False
        if k in self._known:
            return True
        v = dict.__getitem__(self, k)
        if isinstance(v, SymReal):
            nz = bool(v)          # branch decision (memoised per path by the context)
        else:
            nz = bool(v)
        if nz:
            self._known.add(k)
            return True
        dict.__delitem__(self, k)
        return False

    # -- observed (code-side) interface
    def __contains__(self, k):
        try:
            return self._present(k)
        except TypeError:
            return False

    def __getitem__(self, k):
        if self._present(k):
            return dict.__getitem__(self, k)
        raise KeyError(k)

    def get(self, k, default=None):
        if not dict.__contains__(self, k):
            return default
        if _is_zero_default(default) or k in self._known:
            return dict.__getitem__(self, k)
        return dict.__getitem__(self, k) if self._present(k) else default

    def __setitem__(self, k, v):
        # a real store makes the key present whatever the value (rep_ok is the caller's obligation)
        dict.__setitem__(self, k, v)
        self._known.add(k)

    def __delitem__(self, k):
        if self._present(k):
            dict.__delitem__(self, k)
            self._known.discard(k)
        else:
            raise KeyError(k)

    def pop(self, k, *default):
        if self._present(k):
            v = dict.__getitem__(self, k)
            dict.__delitem__(self, k)
            self._known.discard(k)
            return v
        if default:
            return default[0]
        raise KeyError(k)

    def __iter__(self):
        for k in list(dict.keys(self)):
            if self._present(k):
                yield k

    def keys(self):
        return list(self.__iter__())

    def values(self):
        return [dict.__getitem__(self, k) for k in self.__iter__()]

    def items(self):
        return [(k, dict.__getitem__(self, k)) for k in self.__iter__()]

    def __len__(self):
        return sum(1 for _ in self.__iter__())

    def __bool__(self):
        for _ in self.__iter__():
            return True
        return False

    def clear(self):
        dict.clear(self)
        self._known.clear()

    def copy(self):
        return LazyDct(self)

    def update(self, other=(), **kw):
        if isinstance(other, LazyDct):
            for k in dict.keys(other):
                v = dict.__getitem__(other, k)
                if k in other._known:
                    self[k] = v
                else:
                    # candidate of unknown presence: if it is zero the old entry (if any) must survive
                    if dict.__contains__(self, k):
                        if other._present(k):
                            self[k] = v
                    else:
                        self.put(k, v)
        elif hasattr(other, 'items'):
            for k, v in other.items(): self[k] = v
        else:
            for k, v in other: self[k] = v
        for k, v in kw.items(): self[k] = v

    def __eq__(self, other):
        if not isinstance(other, dict):
            return NotImplemented
        ks = set(self.__iter__())
        ko = set(other.__iter__()) if isinstance(other, LazyDct) else set(other.keys())
        if ks != ko:
            return False
        for k in ks:
            if not bool(dict.__getitem__(self, k) == (dict.__getitem__(other, k))):
                return False
        return True

    def __ne__(self, other):
        r = self.__eq__(other)
        return r if r is NotImplemented else not r

    __hash__ = None

    def setdefault(self, *a):
        raise EngineUnsupported('LazyDct.setdefault')

    def popitem(self):
        raise EngineUnsupported('LazyDct.popitem')

    def __reduce__(self):
        return (dict, (dict(self.items()),))

    def __repr__(self):
        return 'LazyDct(' + ', '.join(f'{k}: {dict.__getitem__(self, k)!r}' + ('' if k in self._known else '?')
                                      for k in dict.keys(self)) + ')'


# --------------------------------------------------------------------------- contract-level kernels

def _lazy(sv):
    d = sv.dct
    if d.__class__ is not LazyDct:
        if d.__class__ is dict:
            d = LazyDct(d)
            _slot_set(sv, d)
        else:
            return None       # DictionaryView etc.: not abstracted
    return d


def _getter(sv):
    """k -> dense value of sv at k (0. when absent), never forking."""
    d = _lazy(sv)
    if d is None:
        real = sv.dct
        return (lambda k: real.get(k, 0.)), list(real.keys()), None
    return d.peek, d.candidates(), d


def _broadcast(self, other_size, other_is_sparse=True):
    size = self.size
    if size == other_size:
        return size, 0
    if size == 1 and other_size:
        return other_size, 1           # self is broadcast
    if other_is_sparse and other_size == 1:
        return size, 2                 # other is broadcast
    raise ValueError('shape mismatch between arrays')


def _apply(op, a, b):
    if op == 'add': return a + b
    if op == 'sub': return a - b
    if op == 'mul': return a * b
    if op == 'truediv': return a / b
    raise AssertionError(op)


def _keys_for(op, n, mode, ka, kb):
    """Positions whose result can be non-zero."""
    if mode == 1:
        ka = range(n) if ka else ()
    if mode == 2:
        kb = range(n) if kb else ()
    if op in ('add', 'sub'):
        return sorted(set(ka) | set(kb))
    if op == 'mul':
        return sorted(set(ka) & set(kb))
    return sorted(set(ka))   # truediv: numerator positions


def _result(op, n, mode, ga, ka, gb, kb):
    new = LazyDct()
    fa = (lambda k: ga(0)) if mode == 1 else ga
    fb = (lambda k: gb(0)) if mode == 2 else gb
    for k in _keys_for(op, n, mode, ka, kb):
        a = fa(k)
        b = fb(k)
        if op == 'truediv':
            if not is_sym(a) and a == 0:
                continue
            nz = bool(b)            # decided first: a/b needs b != 0 whatever a is
            if not nz:
                if bool(a): raise ZeroDivisionError('division by zero')
                continue            # 0/0 position: the entry is absent in the sparse operand, nothing is divided
        new.put(k, _apply(op, a, b))
    return new


def _mk_sparse(op, inplace):
    def kernel(self, other):
        n, mode = _broadcast(self, other.size)
        ga, ka, da = _getter(self)
        gb, kb, db = _getter(other)
        new = _result(op, n, mode, ga, ka, gb, kb)
        if inplace:
            return _store(self, new, n)
        return SparseVector.from_dict(new, n)
    kernel.__name__ = f"_{'i' if inplace else ''}{op}_sparse"
    return kernel


def _mk_array(op, inplace):
    def kernel(self, other):
        other_size = len(other)
        n, mode = _broadcast(self, other_size, other_is_sparse=False)
        ga, ka, da = _getter(self)
        vals = [sxfloat(other[i]) for i in range(other_size)]
        gb = lambda k: vals[k]
        kb = [i for i, v in enumerate(vals) if is_sym(v) or v != 0]
        new = _result(op, n, mode, ga, ka, gb, kb)
        if inplace:
            return _store(self, new, n)
        return SparseVector.from_dict(new, n)
    kernel.__name__ = f"_{'i' if inplace else ''}{op}_array"
    return kernel


def _mk_scalar(op, inplace):
    def kernel(self, other):
        n = self.size
        ga, ka, da = _getter(self)
        other = sxfloat(other)
        gb = lambda k: other
        kb = range(n) if (is_sym(other) or other != 0) else ()
        new = _result(op, n, 0, ga, ka, gb, kb)
        if inplace:
            return _store(self, new, n)
        return SparseVector.from_dict(new, n)
    kernel.__name__ = f"_{'i' if inplace else ''}{op}_scalar"
    return kernel


def _store(self, new, n):
    d = _lazy(self)
    if d is None:
        raise EngineUnsupported('in-place kernel on a dictionary view at contract level')
    d.clear()
    for k in new.candidates():
        d.put(k, new.peek(k))
    d._known |= new._known
    self.size = n
    return self


def _neg(self):
    g, ks, d = _getter(self)
    new = LazyDct()
    for k in ks:
        new.put(k, -g(k))
    if d is not None:
        new._known = set(d._known)
    return SparseVector.from_dict(new, self.size)


def _copy(self):
    d = _lazy(self)
    if d is None:
        return SparseVector.from_dict(self.dct.copy(), self.size)
    return SparseVector.from_dict(LazyDct(d), self.size)


def _copy_like(self, other):
    d = _lazy(self)
    if d is None:
        raise EngineUnsupported('copy_like on a dictionary view at contract level')
    if self.dct is other.dct: return
    go, ko, do = _getter(other)
    d.clear()
    for k in ko:
        d.put(k, go(k))
    if do is not None:
        d._known |= do._known
    else:
        d._known |= set(ko)


def _mix_from(self, others):
    d = _lazy(self)
    if d is None:
        raise EngineUnsupported('mix_from on a dictionary view at contract level')
    getters = [_getter(o) if o.dct is not d else (LazyDct(d).peek, d.candidates(), None) for o in others]
    keys = sorted({k for _, ks, _ in getters for k in ks})
    new = {}
    for k in keys:
        x = 0.
        for g, _, _ in getters:
            x = x + g(k)
        new[k] = x
    d.clear()
    for k, x in new.items():
        d.put(k, x)


def _sum(self, axis=None, keepdims=False):
    if axis: raise ValueError('axis is out of bounds for 1-d sparse array')
    g, ks, d = _getter(self)
    arr = 0.
    for k in ks: arr = arr + g(k)
    if keepdims:
        new = LazyDct(); new.put(0, arr)
        arr = SparseVector.from_dict(new, 1)
    return arr


def _to_array(self, dtype=None):
    from .shim import np_shim
    arr = np_shim.zeros(self.size, dtype=dtype or self.dtype)
    g, ks, d = _getter(self)
    for k in ks: arr[k] = g(k)
    return arr


def _tolist(self):
    g, ks, d = _getter(self)
    return [g(i) for i in range(self.size)]


def _iter(self):
    g, ks, d = _getter(self)
    for i in range(self.size):
        yield g(i)


def _sum_of(self, index):
    g, ks, d = _getter(self)
    if hasattr(index, '__iter__'):
        x = 0.
        for i in index: x = x + g(i)
        return x
    return g(index)


def _has_negatives(self):
    g, ks, d = _getter(self)
    for k in ks:
        if g(k) < 0.: return True
    return False


def _sum_sparse_vectors(svs):
    if svs: dtype = svs[0].dtype
    else: return {}
    if dtype is bool:
        return _real['sum_sparse_vectors'](svs)
    getters = [_getter(o) for o in svs]
    keys = sorted({k for _, ks, _ in getters for k in ks})
    new = LazyDct()
    for k in keys:
        x = 0.
        for g, _, _ in getters: x = x + g(k)
        new.put(k, x)
    return new


SparseVector = None
sxfloat = None
_slot_set = None
_real = {}
_installed = None


def install():
    """Rebind the SparseVector kernels to their contract level (this process only)."""
    global SparseVector, sxfloat, _slot_set, _installed
    if _installed is not None:
        return _installed
    from . import shim
    sxfloat = shim.sxfloat
    sp = sys.modules['thermosteam.base.sparse']
    SparseVector = sp.SparseVector
    slot = SparseVector.__dict__['dct']
    _slot_set = slot.__set__

    def _get(self):
        return slot.__get__(self)

    def _set(self, v):
        if v.__class__ is dict:
            v = LazyDct(v)
        slot.__set__(self, v)
    SparseVector.dct = property(_get, _set)
    names = []
    for op in ('add', 'sub', 'mul', 'truediv'):
        for kind, mk in (('sparse', _mk_sparse), ('array', _mk_array), ('scalar', _mk_scalar)):
            for inplace in (False, True):
                k = mk(op, inplace)
                setattr(SparseVector, k.__name__, k)
                names.append('SparseVector.' + k.__name__)
    for nm, f in (('__neg__', _neg), ('copy', _copy), ('copy_like', _copy_like), ('mix_from', _mix_from),
                  ('sum', _sum), ('to_array', _to_array), ('astype', _to_array), ('tolist', _tolist), ('to_list', _tolist),
                  ('__iter__', _iter), ('sum_of', _sum_of), ('has_negatives', _has_negatives)):
        setattr(SparseVector, nm, f)
        names.append('SparseVector.' + nm)
    _real['sum_sparse_vectors'] = sp.sum_sparse_vectors
    sp.sum_sparse_vectors = _sum_sparse_vectors
    names.append('sum_sparse_vectors')

    # SparseVector.__init__ keeps filling the plain dict it just assigned: give it the contract level too
    real_init = SparseVector.__init__

    def _init(self, obj=None, size=None):
        if obj is not None and not isinstance(obj, (dict, SparseVector)) and hasattr(obj, '__iter__'):
            self.read_only = False
            d = LazyDct()
            n = 0
            for i, j in enumerate(obj):
                n = i + 1
                d.put(i, sxfloat(j))
            self.dct = d
            self.size = (len(obj) if hasattr(obj, '__len__') else n) if size is None else size
        else:
            real_init(self, obj, size)
    SparseVector.__init__ = _init
    names.append('SparseVector.__init__ (iterable branch)')
    _installed = ['L0 contract level: ' + ', '.join(names) + '; SparseVector.dct -> LazyDct']
    return _installed


def install_if_requested(flag=False):
    if flag or os.environ.get('VERIF_L0') == 'contract':
        return install()
    return []
