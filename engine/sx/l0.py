# -*- coding: utf-8 -*-
"""Contract level of the sparse kernels (L0).  Filled in later; see DESIGN 2.2 'Layering'."""
import os

def install_if_requested():
    return []
