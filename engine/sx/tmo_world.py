# -*- coding: utf-8 -*-
"""
World-building helpers: real thermosteam objects with planted leaves.
Everything here works in both modes (SymWorld / ConcreteWorld).
"""
import thermosteam as tmo

_chem = {}
_thermo = {}


def chemical(ID):
    c = _chem.get(ID)
    if c is None:
        c = _chem[ID] = tmo.Chemical(ID)
    return c


def thermo(IDs):
    """Cached real property package with the given chemicals in the given order."""
    IDs = tuple(IDs)
    t = _thermo.get(IDs)
    if t is None:
        cs = tmo.Chemicals([chemical(i) for i in IDs])
        cs.compile()
        t = _thermo[IDs] = tmo.Thermo(cs)
    return t


def preload(list_of_IDs):
    for IDs in list_of_IDs:
        thermo(IDs)


def reset_caches():
    """Module/class-level caches of thermosteam leak between explored paths; reset them."""
    import sys
    for t in _thermo.values():
        t.chemicals._index_cache.clear()
    ix = sys.modules['thermosteam.indexer']
    for c in ix.MaterialIndexer._index_caches.values():
        c.clear()
    tmo.Stream._flow_cache.clear()
    for modname, clsnames in (('thermosteam.equilibrium.bubble_point', ('BubblePoint', 'BubblePointBeta')),
                              ('thermosteam.equilibrium.dew_point', ('DewPoint',))):
        m = sys.modules.get(modname)
        if m is None: continue
        for cn in clsnames:
            cls = getattr(m, cn, None)
            if cls is not None and hasattr(cls, '_cached'):
                cls._cached.clear()


def rows_of(s):
    """[(phase, SparseVector)] of a stream (single or multi-phase)."""
    imol = s._imol
    data = imol.data
    if hasattr(data, 'rows'):
        return list(zip(imol._phases, data.rows))
    return [(imol._phase._phase, data)]


def plant_flows(w, s, name, lo=0., present=None, strict=False):
    """
    Fill every entry of the stream's molar data with a leaf `name.phase.ID >= lo`.
    present: None -> presence of each entry is decided by the explorer (value != 0 forks);
             dict {(phase, ID): 'pos'|'zero'|'maybe'} overrides per entry; default 'maybe'.
    Returns {(phase, ID): leaf}.
    """
    IDs = s.chemicals.IDs
    leaves = {}
    for phase, sv in rows_of(s):
        dct = sv.dct
        for i, ID in enumerate(IDs):
            kind = 'maybe' if present is None else present.get((phase, ID), present.get('default', 'maybe'))
            if kind == 'zero':
                leaves[phase, ID] = 0.
                continue
            v = w.real(f'{name}.{phase}.{ID}', lo=lo, lo_strict=(kind == 'pos' or strict))
            leaves[phase, ID] = v
            if kind == 'pos':
                dct[i] = v
            elif v:
                dct[i] = v
    return leaves


def make_stream(w, name, IDs, phases, **kw):
    """Real Stream (phases = 'l') or MultiStream (phases = ('g','l')) with planted flows."""
    th = thermo(IDs)
    if isinstance(phases, str):
        s = tmo.Stream(None, thermo=th, phase=phases)
    else:
        s = tmo.MultiStream(None, phases=tuple(phases), thermo=th)
    leaves = plant_flows(w, s, name, **kw)
    return s, leaves


def total_by_CAS(s):
    """{CAS: total molar flow over phases} read from the raw sparse dicts."""
    CASs = s.chemicals.CASs
    out = {c: 0. for c in CASs}
    for phase, sv in rows_of(s):
        for i, v in sv.dct.items():
            out[CASs[i]] = out[CASs[i]] + v
    return out


def row_by_CAS(s, phase):
    CASs = s.chemicals.CASs
    out = {c: 0. for c in CASs}
    for p, sv in rows_of(s):
        if p == phase:
            for i, v in sv.dct.items():
                out[CASs[i]] = out[CASs[i]] + v
    return out


def leaves_total_by_CAS(s, leaves):
    """Totals implied by planted leaves (pre-state view that cannot be changed by the code)."""
    ch = s.chemicals
    out = {c: 0. for c in ch.CASs}
    for (phase, ID), v in leaves.items():
        cas = ch[ID].CAS
        out[cas] = out[cas] + v
    return out


def snapshot(s):
    """Observable material state of a stream: {(phase, CAS): value} for stored entries, phases tuple."""
    CASs = s.chemicals.CASs
    d = {}
    for phase, sv in rows_of(s):
        for i, v in sv.dct.items():
            d[phase, CASs[i]] = v
    return {'flows': d, 'phases': tuple(p for p, _ in rows_of(s)), 'class': type(s).__name__}


def same_snapshot(w, a, b):
    if a['phases'] != b['phases'] or a['class'] != b['class']:
        return w.And(False)
    keys = set(a['flows']) | set(b['flows'])
    return w.And(*[w.eq(a['flows'].get(k, 0.), b['flows'].get(k, 0.)) for k in sorted(keys)])


def rep_ok(w, s):
    """Stored entries are non-zero and inside the size (representation invariant of the sparse rows)."""
    cs = []
    for phase, sv in rows_of(s):
        for i, v in sv.dct.items():
            cs.append(w.ne(v, 0.))
            cs.append(0 <= i < sv.size)
    return w.And(*cs)


# --------------------------------------------------------------------------- A-models: uninterpreted pure-component models

def stub_thermo(w, IDs, include_excess_energies=False, root_stub=True):
    """
    Property package on the real compiled chemicals whose *pure-component* models
    (H, S, Cn, V, mu, kappa, H_excess, S_excess per chemical and phase; sigma, epsilon, Hvap per chemical)
    are uninterpreted deterministic functions of (T, P) (A-models).  The mixing rules
    (IdealTPMixtureModel, IdealTMixtureModel, IdealEntropyModel, ...) are the real classes.
    With root_stub the temperature solvers of the mixture are replaced by their A-root
    contract: they return T* with  property(T*) == target  (a fresh leaf).
    """
    import sys
    from thermosteam.mixture import ideal_mixture_model as imm
    mixmod = sys.modules['thermosteam.mixture.mixture']
    th = thermo(IDs)
    chems = th.chemicals
    IDs = chems.IDs

    def tp_models(var, positive=False):
        out = []
        for ID in IDs:
            def m(phase, T, P=None, _ID=ID):
                return w.fn(f'{var}.{_ID}.{phase}', positive=positive)(T, P if P is not None else 0.)
            out.append(m)
        return out

    def t_models(var, positive=False):
        out = []
        for ID in IDs:
            def m(phase, T, P=None, _ID=ID):
                return w.fn(f'{var}.{_ID}.{phase}', positive=positive)(T)
            out.append(m)
        return out

    def single_t_models(var, positive=False):
        out = []
        for ID in IDs:
            def m(T, P=None, _ID=ID):
                return w.fn(f'{var}.{_ID}', positive=positive)(T)
            out.append(m)
        return out

    class _StubHvap:
        var = 'Hvap'
        def __init__(self): self.chemicals = chems.tuple
        def __call__(self, mol, T, P=None):
            from thermosteam.base import SparseVector
            if mol.__class__ is not SparseVector: mol = SparseVector(mol)
            return sum([j * w.fn(f'Hvap.{IDs[i]}', positive=True)(T) for i, j in mol.dct.items()
                        if not chems.tuple[i].locked_state])

    base = mixmod.IdealMixture

    class StubMixture(base):
        __slots__ = ('roots',)

        def _root(self, kind, value_at, target, T_guess):
            if not root_stub:
                raise RuntimeError('root stub disabled')
            n = len(self.roots)
            # A-root-stay: the start value is returned when it already satisfies the equation
            if bool(w.eq(value_at(T_guess), target)) if not w.symbolic else bool(_as_symbool(w, w.eq(value_at(T_guess), target))):
                self.roots.append(('stay', T_guess))
                return T_guess
            T = w.real(f'root{n}.{kind}', lo=0., lo_strict=True)
            w.assume(w.eq(value_at(T), target))
            self.roots.append((kind, T))
            return T

        def solve_T_at_HP(self, phase, mol, H, T_guess, P):
            return self._root('T_at_HP', lambda T: self.H(phase, mol, T, P), H, T_guess)

        def xsolve_T_at_HP(self, phase_mol, H, T_guess, P):
            phase_mol = tuple(phase_mol)
            return self._root('xT_at_HP', lambda T: self.xH(phase_mol, T, P), H, T_guess)

        def solve_T_at_SP(self, phase, mol, S, T_guess, P):
            return self._root('T_at_SP', lambda T: self.S(phase, mol, T, P), S, T_guess)

        def xsolve_T_at_SP(self, phase_mol, S, T_guess, P):
            phase_mol = tuple(phase_mol)
            return self._root('xT_at_SP', lambda T: self.xS(phase_mol, T, P), S, T_guess)

    mix = StubMixture(
        Cn=imm.IdealTMixtureModel(t_models('Cn', positive=True), 'Cn'),
        H=imm.IdealTPMixtureModel(tp_models('H'), 'H'),
        S=imm.IdealEntropyModel(tp_models('S'), 'S'),
        H_excess=imm.IdealTPMixtureModel(tp_models('H_excess'), 'H_excess'),
        S_excess=imm.IdealTPMixtureModel(tp_models('S_excess'), 'S_excess'),
        mu=imm.IdealTPMixtureModel(tp_models('mu', positive=True), 'mu'),
        V=imm.IdealTPMixtureModel(tp_models('V', positive=True), 'V'),
        kappa=imm.IdealTPMixtureModel(tp_models('kappa', positive=True), 'kappa'),
        Hvap=_StubHvap(),
        sigma=imm.SinglePhaseIdealTMixtureModel(single_t_models('sigma', positive=True), 'sigma'),
        epsilon=imm.SinglePhaseIdealTMixtureModel(single_t_models('epsilon', positive=True), 'epsilon'),
        MWs=chems.MW, include_excess_energies=include_excess_energies)
    mix.roots = []
    return tmo.Thermo(chems, mixture=mix)


def _as_symbool(w, cond):
    from .sym import SymBool
    return cond if isinstance(cond, SymBool) else SymBool(cond)


def stream_on(w, name, th, phases, T=None, P=None, **kw):
    """Real Stream/MultiStream on the given (possibly stubbed) package with planted flows, T and P leaves."""
    if isinstance(phases, str):
        s = tmo.Stream(None, thermo=th, phase=phases)
    else:
        s = tmo.MultiStream(None, phases=tuple(phases), thermo=th)
    leaves = plant_flows(w, s, name, **kw)
    s.T = w.real(f'{name}.T', lo=0., lo_strict=True) if T is None else T
    s.P = w.real(f'{name}.P', lo=0., lo_strict=True) if P is None else P
    return s, leaves
