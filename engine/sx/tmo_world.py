# -*- coding: utf-8 -*-
"""
World-building helpers: real thermosteam objects with planted leaves.
Everything here works in both modes (SymWorld / ConcreteWorld).
"""
import thermosteam as tmo

_chem = {}
_thermo = {}


def chemical(ID):
    c = _chem.get(ID)
    if c is None:
        c = _chem[ID] = tmo.Chemical(ID)
    return c


def thermo(IDs):
    """Cached real property package with the given chemicals in the given order."""
    IDs = tuple(IDs)
    t = _thermo.get(IDs)
    if t is None:
        cs = tmo.Chemicals([chemical(i) for i in IDs])
        cs.compile()
        t = _thermo[IDs] = tmo.Thermo(cs)
    return t


def preload(list_of_IDs):
    for IDs in list_of_IDs:
        thermo(IDs)


def reset_caches():
    """Module/class-level caches of thermosteam leak between explored paths; reset them."""
    import sys
    for t in _thermo.values():
        t.chemicals._index_cache.clear()
    ix = sys.modules['thermosteam.indexer']
    for c in ix.MaterialIndexer._index_caches.values():
        c.clear()
    tmo.Stream._flow_cache.clear()
    for modname, clsnames in (('thermosteam.equilibrium.bubble_point', ('BubblePoint', 'BubblePointBeta')),
                              ('thermosteam.equilibrium.dew_point', ('DewPoint',))):
        m = sys.modules.get(modname)
        if m is None: continue
        for cn in clsnames:
            cls = getattr(m, cn, None)
            if cls is not None and hasattr(cls, '_cached'):
                cls._cached.clear()


def rows_of(s):
    """[(phase, SparseVector)] of a stream (single or multi-phase)."""
    imol = s._imol
    data = imol.data
    if hasattr(data, 'rows'):
        return list(zip(imol._phases, data.rows))
    return [(imol._phase._phase, data)]


def plant_flows(w, s, name, lo=0., present=None, strict=False):
    """
    Fill every entry of the stream's molar data with a leaf `name.phase.ID >= lo`.
    present: None -> presence of each entry is decided by the explorer (value != 0 forks);
             dict {(phase, ID): 'pos'|'zero'|'maybe'} overrides per entry; default 'maybe'.
    Returns {(phase, ID): leaf}.
    """
    IDs = s.chemicals.IDs
    leaves = {}
    for phase, sv in rows_of(s):
        dct = sv.dct
        for i, ID in enumerate(IDs):
            kind = 'maybe' if present is None else present.get((phase, ID), present.get('default', 'maybe'))
            if kind == 'zero':
                leaves[phase, ID] = 0.
                continue
            v = w.real(f'{name}.{phase}.{ID}', lo=lo, lo_strict=(kind == 'pos' or strict))
            leaves[phase, ID] = v
            if kind == 'pos':
                dct[i] = v
            elif v:
                dct[i] = v
    return leaves


def make_stream(w, name, IDs, phases, **kw):
    """Real Stream (phases = 'l') or MultiStream (phases = ('g','l')) with planted flows."""
    th = thermo(IDs)
    if isinstance(phases, str):
        s = tmo.Stream(None, thermo=th, phase=phases)
    else:
        s = tmo.MultiStream(None, phases=tuple(phases), thermo=th)
    leaves = plant_flows(w, s, name, **kw)
    return s, leaves


def total_by_CAS(s):
    """{CAS: total molar flow over phases} read from the raw sparse dicts."""
    CASs = s.chemicals.CASs
    out = {c: 0. for c in CASs}
    for phase, sv in rows_of(s):
        for i, v in sv.dct.items():
            out[CASs[i]] = out[CASs[i]] + v
    return out


def row_by_CAS(s, phase):
    CASs = s.chemicals.CASs
    out = {c: 0. for c in CASs}
    for p, sv in rows_of(s):
        if p == phase:
            for i, v in sv.dct.items():
                out[CASs[i]] = out[CASs[i]] + v
    return out


def leaves_total_by_CAS(s, leaves):
    """Totals implied by planted leaves (pre-state view that cannot be changed by the code)."""
    ch = s.chemicals
    out = {c: 0. for c in ch.CASs}
    for (phase, ID), v in leaves.items():
        cas = ch[ID].CAS
        out[cas] = out[cas] + v
    return out


def snapshot(s):
    """Observable material state of a stream: {(phase, CAS): value} for stored entries, phases tuple."""
    CASs = s.chemicals.CASs
    d = {}
    for phase, sv in rows_of(s):
        for i, v in sv.dct.items():
            d[phase, CASs[i]] = v
    return {'flows': d, 'phases': tuple(p for p, _ in rows_of(s)), 'class': type(s).__name__}


def same_snapshot(w, a, b):
    if a['phases'] != b['phases'] or a['class'] != b['class']:
        return w.And(False)
    keys = set(a['flows']) | set(b['flows'])
    return w.And(*[w.eq(a['flows'].get(k, 0.), b['flows'].get(k, 0.)) for k in sorted(keys)])


def rep_ok(w, s):
    """Stored entries are non-zero and inside the size (representation invariant of the sparse rows)."""
    cs = []
    for phase, sv in rows_of(s):
        for i, v in sv.dct.items():
            cs.append(w.ne(v, 0.))
            cs.append(0 <= i < sv.size)
    return w.And(*cs)
