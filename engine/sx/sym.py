# -*- coding: utf-8 -*-
"""
SX core: symbolic scalars and the path explorer.

SymReal / SymBool wrap z3 terms and are planted as *leaves* inside real
thermosteam objects (dict values, list items, object-array elements,
attributes).  The functions under contract are the ones imported from /repo and
are executed by CPython; every branch on a symbolic condition goes through
Ctx.decide, which asks z3 which outcomes are feasible under the current path
condition and explores all of them by deterministic re-execution.

Assumptions encoded here (reported in every evidence file):
  A-real     floats are mathematical reals (z3 Real); `if x:` is `x != 0`
  A-div      x / 0 raises ZeroDivisionError (Python float semantics)
"""
import os
import math
import time
from fractions import Fraction
import z3

__all__ = ['SymReal', 'SymBool', 'Ctx', 'ctx', 'EngineUnsupported',
           'EngineNondeterminism', 'PathCap', 'lift', 'is_sym', 'explore',
           'Infeasible']

if hasattr(__import__('sys'), 'set_int_max_str_digits'):
    # solver models of nonlinear VCs can carry rationals with thousands of digits (z3 hands them over as strings)
    __import__('sys').set_int_max_str_digits(0)

BRANCH_TIMEOUT_MS = int(os.environ.get('VERIF_BRANCH_TIMEOUT_MS', '2000'))


class EngineUnsupported(Exception):
    """The engine has no faithful semantics for what the code did."""


class EngineNondeterminism(Exception):
    """Re-execution met a different branch condition than recorded."""


class PathCap(Exception):
    """Path budget exhausted (undecided, never a violation)."""


class Infeasible(Exception):
    """Raised inside a path whose path condition became unsatisfiable by an assume()."""


_CTX = None


def ctx():
    if _CTX is None:
        raise RuntimeError('no active SX context')
    return _CTX


def is_sym(x):
    return isinstance(x, (SymReal, SymBool))


_numcache = {}


def _num(x):
    """Exact z3 numeral for a Python/NumPy number (decimal reading of floats)."""
    if isinstance(x, bool):
        return z3.RealVal(1 if x else 0)
    if isinstance(x, int):
        return z3.RealVal(x)
    if isinstance(x, Fraction):
        return z3.Q(x.numerator, x.denominator)
    try:
        import numpy as _np
        if isinstance(x, _np.bool_):
            return z3.RealVal(1 if x else 0)
        if isinstance(x, _np.integer):
            return z3.RealVal(int(x))
        if isinstance(x, _np.floating):
            x = float(x)
    except ImportError:  # pragma: no cover
        pass
    if isinstance(x, float):
        if x != x or x in (math.inf, -math.inf):
            raise EngineUnsupported(f'non-finite float {x!r} meets a symbolic value (outside A-real)')
        r = _numcache.get(x)
        if r is None:
            f = Fraction(repr(x))
            r = _numcache[x] = z3.Q(f.numerator, f.denominator)
        return r
    raise EngineUnsupported(f'cannot lift {type(x).__name__} to a real term')


def lift(x):
    """z3 Real term for x (SymReal, SymBool or number)."""
    if isinstance(x, SymReal):
        return x.t
    if isinstance(x, SymBool):
        return z3.If(x.t, z3.RealVal(1), z3.RealVal(0))
    return _num(x)


def _const_value(t):
    """Fraction if the term is a numeral, else None."""
    if z3.is_rational_value(t):
        return Fraction(t.numerator_as_long(), t.denominator_as_long())
    if z3.is_int_value(t):
        return Fraction(t.as_long())
    return None


def _mk(t):
    return SymReal(t)


class SymReal:
    __slots__ = ('t',)
    # NOTE: deliberately no __array__, __array_ufunc__, __array_priority__; __float__ exists only as
    # identity for explicit method calls (see below), float(x) still fails.

    def __init__(self, t):
        self.t = t

    # -- arithmetic ---------------------------------------------------------
    def _bin(self, other, op, swap=False):
        try:
            o = lift(other)
        except EngineUnsupported:
            return NotImplemented
        a, b = (o, self.t) if swap else (self.t, o)
        ca, cb = _const_value(a), _const_value(b)
        if op == '+':
            if ca == 0: return _mk(b)
            if cb == 0: return _mk(a)
            return _mk(a + b)
        if op == '-':
            if cb == 0: return _mk(a)
            if a.eq(b): return _mk(z3.RealVal(0))
            return _mk(a - b)
        if op == '*':
            if ca == 0 or cb == 0: return _mk(z3.RealVal(0))
            if ca == 1: return _mk(b)
            if cb == 1: return _mk(a)
            return _mk(a * b)
        if op == '/':
            if cb is not None:
                if cb == 0:
                    raise ZeroDivisionError('float division by zero')
                if cb == 1: return _mk(a)
                return _mk(a / b)
            nz = ctx().decide(b != 0, kind='div')
            if not nz:
                raise ZeroDivisionError('float division by zero')
            if ca == 0: return _mk(z3.RealVal(0))
            return _mk(a / b)
        raise AssertionError(op)

    def __add__(self, o): return self._bin(o, '+')
    def __radd__(self, o): return self._bin(o, '+', True)
    def __sub__(self, o): return self._bin(o, '-')
    def __rsub__(self, o): return self._bin(o, '-', True)
    def __mul__(self, o): return self._bin(o, '*')
    def __rmul__(self, o): return self._bin(o, '*', True)
    def __truediv__(self, o): return self._bin(o, '/')
    def __rtruediv__(self, o): return self._bin(o, '/', True)
    def __neg__(self): return _mk(-self.t)
    def __pos__(self): return self

    def __float__(self):
        # Only reachable through an *explicit* `x.__float__()` call in the code under check
        # (base/dictionary_view.py: `self.input(key, value).__float__()`), where it means
        # "identity on reals" (A-real).  builtin float(x) / numpy dtype=float conversion still
        # raise TypeError ("__float__ returned non-float"), exactly as without this method;
        # numpy dtype discovery does not consult __float__ (object arrays stay object arrays).
        return self

    def __abs__(self):
        return _mk(z3.If(self.t >= 0, self.t, -self.t))

    def __pow__(self, n):
        if isinstance(n, SymReal):
            c = _const_value(n.t)
            if c is None:
                return _mk(ctx().uf('pow', 2)(self.t, n.t))
            n = c
        if isinstance(n, float) and n == int(n): n = int(n)
        if isinstance(n, Fraction) and n.denominator == 1: n = int(n)
        if isinstance(n, int):
            if n == 0: return _mk(z3.RealVal(1))
            if n < 0:
                return 1 / (self ** (-n))
            r = self
            for _ in range(n - 1):
                r = r * self
            return r
        if n == 0.5:
            return self.sqrt()
        return _mk(ctx().uf('pow', 2)(self.t, lift(n)))

    def __rpow__(self, base):
        return _mk(ctx().uf('pow', 2)(lift(base), self.t))

    # uninterpreted transcendental functions, rewrites applied at construction
    def exp(self):
        return ctx().fn_exp(self)

    def log(self):
        return ctx().fn_log(self)

    def sqrt(self):
        return ctx().fn_sqrt(self)

    # -- comparisons --------------------------------------------------------
    def _cmp(self, other, op):
        try:
            o = lift(other)
        except EngineUnsupported:
            return NotImplemented
        a = self.t
        if op == '<': return SymBool(a < o)
        if op == '<=': return SymBool(a <= o)
        if op == '>': return SymBool(a > o)
        if op == '>=': return SymBool(a >= o)
        if op == '==': return SymBool(a == o)
        if op == '!=': return SymBool(a != o)

    def __lt__(self, o): return self._cmp(o, '<')
    def __le__(self, o): return self._cmp(o, '<=')
    def __gt__(self, o): return self._cmp(o, '>')
    def __ge__(self, o): return self._cmp(o, '>=')

    def __eq__(self, o):
        if o is None or isinstance(o, (str, tuple, list, dict, set, type)):
            return False
        r = self._cmp(o, '==')
        return False if r is NotImplemented else r

    def __ne__(self, o):
        if o is None or isinstance(o, (str, tuple, list, dict, set, type)):
            return True
        r = self._cmp(o, '!=')
        return True if r is NotImplemented else r

    def __hash__(self):
        raise EngineUnsupported('hashing a symbolic real')

    def __bool__(self):
        c = _const_value(self.t)
        if c is not None:
            return c != 0
        return ctx().decide(self.t != 0, kind='nz')

    def __index__(self):
        raise EngineUnsupported('symbolic real used as an index')

    def __int__(self):
        c = _const_value(z3.simplify(self.t))
        if c is not None and c.denominator == 1:
            return int(c)
        raise EngineUnsupported('int() of a symbolic real')

    def __round__(self, n=None):
        raise EngineUnsupported('round() of a symbolic real')

    def __repr__(self):
        s = str(z3.simplify(self.t)) if self.t.num_args() < 50 else '<big term>'
        return f'<{s}>'

    def __format__(self, spec):
        return repr(self)

    # numpy-flavoured helpers so code written for np.float64 keeps working
    def item(self): return self
    def copy(self): return self
    ndim = 0  # behaves like a scalar for hasattr(value, 'ndim') dispatch
    shape = ()



class SymBool:
    __slots__ = ('t',)

    def __init__(self, t):
        self.t = t

    def __bool__(self):
        return ctx().decide(self.t, kind='cmp')

    def _l(self, o):
        if isinstance(o, SymBool): return o.t
        if isinstance(o, bool): return z3.BoolVal(o)
        try:
            import numpy as _np
            if isinstance(o, _np.bool_): return z3.BoolVal(bool(o))
        except ImportError:  # pragma: no cover
            pass
        return None

    def __and__(self, o):
        t = self._l(o)
        return NotImplemented if t is None else SymBool(z3.And(self.t, t))
    __rand__ = __and__

    def __or__(self, o):
        t = self._l(o)
        return NotImplemented if t is None else SymBool(z3.Or(self.t, t))
    __ror__ = __or__

    def __xor__(self, o):
        t = self._l(o)
        return NotImplemented if t is None else SymBool(z3.Xor(self.t, t))
    __rxor__ = __xor__

    def __invert__(self):
        return SymBool(z3.Not(self.t))

    def __eq__(self, o):
        t = self._l(o)
        return False if t is None else SymBool(self.t == t)

    def __ne__(self, o):
        t = self._l(o)
        return True if t is None else SymBool(self.t != t)

    def __hash__(self):
        raise EngineUnsupported('hashing a symbolic bool')

    # arithmetic on comparison results (`N += z > 0.`)
    def _r(self): return SymReal(lift(self))
    def __add__(self, o): return self._r() + o
    def __radd__(self, o): return o + self._r()
    def __sub__(self, o): return self._r() - o
    def __rsub__(self, o): return o - self._r()
    def __mul__(self, o): return self._r() * o
    def __rmul__(self, o): return o * self._r()

    def __int__(self):
        return 1 if bool(self) else 0
    __index__ = __int__

    def __repr__(self):
        return f'<bool {z3.simplify(self.t)}>'


# ---------------------------------------------------------------------------

_COMMUTATIVE = None


def _stable_hash(t, memo=None):
    """Opt-in (VERIF_STABLE_HASH=1): hash of a term modulo the order of the arguments of commutative operators.
    z3.simplify sorts the arguments of +, *, and, or, = by AST id, which differs between re-executions of the same path
    (a + b vs b + a); the structural hash then reports a spurious EngineNondeterminism."""
    global _COMMUTATIVE
    if _COMMUTATIVE is None:
        _COMMUTATIVE = {z3.Z3_OP_ADD, z3.Z3_OP_MUL, z3.Z3_OP_AND, z3.Z3_OP_OR, z3.Z3_OP_EQ, z3.Z3_OP_DISTINCT, z3.Z3_OP_IFF}
    if memo is None: memo = {}
    k = t.get_id()
    r = memo.get(k)
    if r is not None: return r
    if z3.is_app(t) and t.num_args() > 0:
        d = t.decl()
        hs = [_stable_hash(c, memo) for c in t.children()]
        if d.kind() in _COMMUTATIVE: hs.sort()
        r = hash((d.kind(), d.name(), tuple(hs)))
    else:
        r = hash(t.sexpr())
    memo[k] = r
    return r


class Ctx:
    """One path of one exploration.  Holds the solver with the path condition."""

    def __init__(self, prefix=(), stats=None):
        self.solver = z3.Solver()
        self.solver.set('timeout', BRANCH_TIMEOUT_MS)
        self.prefix = list(prefix)          # forced decisions [(hash, outcome)]
        self.trace = []                     # decisions taken [(hash, outcome)]
        self.alternatives = []              # prefixes to schedule
        self.pc = []                        # path-condition terms (for reporting)
        self.requires = []                  # assumptions added by the world (requires)
        self.vars = {}                      # name -> z3 const
        self.ufs = {}                       # (name, arity) -> z3 Function
        self.axioms = []                    # ground axiom instances added
        self._decided = {}                  # term id -> outcome (per path memo)
        self._model = None
        self.stats = stats if stats is not None else {}
        self.notes = []                     # free-form events (exceptions etc.)
        self._log_terms = {}
        self._exp_terms = {}
        self.solver_time = 0.0

    # -- symbols --------------------------------------------------------------
    def real(self, name, lo=None, hi=None, lo_strict=False, hi_strict=False, nonzero=False):
        if name in self.vars:
            raise RuntimeError(f'duplicate symbol {name}')
        v = z3.Real(name)
        self.vars[name] = v
        if lo is not None:
            self.assume(v > lo if lo_strict else v >= lo)
        if hi is not None:
            self.assume(v < hi if hi_strict else v <= hi)
        if nonzero:
            self.assume(v != 0)
        return SymReal(v)

    def uf(self, name, arity):
        key = (name, arity)
        f = self.ufs.get(key)
        if f is None:
            f = self.ufs[key] = z3.Function(name, *([z3.RealSort()] * (arity + 1)))
        return f

    def app(self, name, *args):
        """SymReal for the uninterpreted function `name` applied to args."""
        f = self.uf(name, len(args))
        return SymReal(f(*[lift(a) for a in args]))

    # log/exp/sqrt: uninterpreted + rewrites + ground axioms
    def fn_log(self, x):
        t = z3.simplify(lift(x))
        c = _const_value(t)
        if c is not None:
            if c == 1: return SymReal(z3.RealVal(0))
            if c <= 0: raise ValueError('math domain error')
        # log(a/b) -> log a - log b ; log(a*b) -> log a + log b (positive args assumed by caller: domain obligation)
        if z3.is_app_of(t, z3.Z3_OP_DIV):
            a, b = t.arg(0), t.arg(1)
            return self.fn_log(SymReal(a)) - self.fn_log(SymReal(b))
        key = t.get_id()
        r = self._log_terms.get(key)
        if r is None:
            f = self.uf('log', 1)
            r = f(t)
            self._log_terms[key] = r
            # ground instance of log 1 = 0 for this argument term (needed when the argument is 1 only
            # semantically, e.g. the sum of a normalised composition  n1/(n1+n2) + n2/(n1+n2))
            if c is None:
                self.assume_axiom(z3.Implies(t == 1, r == 0))
            # exp(log x) = x is applied by fn_exp syntactically
        return SymReal(r)

    def fn_exp(self, x):
        t = z3.simplify(lift(x))
        c = _const_value(t)
        if c is not None and c == 0:
            return SymReal(z3.RealVal(1))
        if z3.is_app(t) and t.decl().name() == 'log' and t.num_args() == 1:
            return SymReal(t.arg(0))
        f = self.uf('exp', 1)
        r = f(t)
        self.assume_axiom(r > 0)
        return SymReal(r)

    def fn_sqrt(self, x):
        t = z3.simplify(lift(x))
        f = self.uf('sqrt', 1)
        r = f(t)
        self.assume_axiom(z3.And(r >= 0, r * r == t))
        return SymReal(r)

    # -- assumptions ------------------------------------------------------------
    def assume(self, cond):
        """Add a `requires` conjunct (SymBool, z3 Bool or Python bool)."""
        if isinstance(cond, SymBool): cond = cond.t
        if cond is True: return
        if cond is False:
            raise Infeasible()
        self.requires.append(cond)
        self.solver.add(cond)
        self._model = None

    def assume_axiom(self, cond):
        self.axioms.append(cond)
        self.solver.add(cond)
        self._model = None      # the cached model predates the axiom (it may violate it: spurious "feasible" branches)

    # -- branching ------------------------------------------------------------
    def _check(self, *assumptions):
        t0 = time.time()
        r = self.solver.check(*assumptions)
        if r == z3.unknown:
            # opt-in (VERIF_BRANCH_NLSAT_MS > 0): a fresh nlsat solver on the same formula may settle an `unknown` of the
            # incremental path solver (rational functions: decided in ms where the incremental solver times out).
            # Only `unsat` is taken from it (callers read models from the path solver), so a branch is pruned only when
            # it is really infeasible; everything else stays "feasible both ways" as before.
            ms = int(os.environ.get('VERIF_BRANCH_NLSAT_MS', '0') or 0)
            if ms > 0:
                try:
                    s = z3.Tactic('qfnra-nlsat').solver()
                    s.set('timeout', ms)
                    s.add(self.solver.assertions())
                    s.add(*assumptions)
                    if s.check() == z3.unsat:
                        r = z3.unsat
                except z3.Z3Exception:
                    pass
                self.stats['nlsat_branch_calls'] = self.stats.get('nlsat_branch_calls', 0) + 1
        self.solver_time += time.time() - t0
        self.stats['solver_calls'] = self.stats.get('solver_calls', 0) + 1
        return r

    def _check_lit(self, lit):
        """Feasibility of pc ∧ lit -> (result, model or None).  Opt-in (VERIF_PROVE_FRESH_MS > 0): when the long-lived
        path solver times out (`unknown`, measured on nonlinear conditions such as a/(a+c) == (a-b)/(a-b+c)), ask a fresh
        one-shot solver the same question; it answered in < 0.3 s where the incremental one gave up after 2 s."""
        r = self._check(lit)
        if r == z3.sat:
            return r, self.solver.model()
        if r == z3.unknown:
            fresh_ms = int(os.environ.get('VERIF_PROVE_FRESH_MS', '0') or 0)
            if fresh_ms > 0:
                t0 = time.time()
                try:
                    s = z3.Solver()
                    s.set('timeout', fresh_ms)
                    s.add(self.solver.assertions())
                    s.add(lit)
                    r2 = s.check()
                    self.stats['solver_calls'] = self.stats.get('solver_calls', 0) + 1
                    if r2 == z3.sat:
                        return r2, s.model()
                    if r2 == z3.unsat:
                        return r2, None
                except z3.Z3Exception:
                    pass
                finally:
                    self.solver_time += time.time() - t0
        return r, None

    def decide(self, cond, kind='cmp'):
        cond = z3.simplify(cond)
        if z3.is_true(cond): return True
        if z3.is_false(cond): return False
        key = cond.get_id()
        memo = self._decided.get(key)
        if memo is not None:
            return memo[1]
        pos = len(self.trace)
        h = _stable_hash(cond) if os.environ.get('VERIF_STABLE_HASH') == '1' else cond.hash()
        if pos < len(self.prefix):
            ph, outcome = self.prefix[pos]
            if ph != h:
                raise EngineNondeterminism(
                    f'decision {pos}: recorded condition differs from re-executed one ({cond})')
        else:
            outcome = self._fresh_decision(cond, pos, h)
        self.trace.append((h, outcome))
        lit = cond if outcome else z3.Not(cond)
        self.solver.add(lit)
        self.pc.append(lit)
        self._decided[key] = (cond, outcome)  # keeps the term alive so its id stays unique
        return outcome

    def _fresh_decision(self, cond, pos, h):
        # use the last model to save one query
        can_true = can_false = None
        m = self._model
        if m is not None:
            try:
                v = m.eval(cond, model_completion=True)
                if z3.is_true(v): can_true = True
                elif z3.is_false(v): can_false = True
            except z3.Z3Exception:
                pass
        if can_true is None:
            r, m1 = self._check_lit(cond)
            can_true = r != z3.unsat
            if r == z3.sat and can_false is None:
                self._model = m1
        if can_false is None:
            r, m2 = self._check_lit(z3.Not(cond))
            can_false = r != z3.unsat
            if r == z3.sat:
                if not can_true:
                    self._model = m2
        if can_true and can_false:
            self.alternatives.append(self.trace + [(h, False)])
            self.stats['forks'] = self.stats.get('forks', 0) + 1
            # model must satisfy the chosen side
            if self._model is not None:
                try:
                    if not z3.is_true(self._model.eval(cond, model_completion=True)):
                        self._model = None
                except z3.Z3Exception:
                    self._model = None
            return True
        if can_true:
            return True
        if can_false:
            return False
        raise Infeasible()

    # -- obligations ------------------------------------------------------------
    def prove(self, clause, timeout_ms=10000):
        """Return ('unsat'|'sat'|'unknown', model_or_None) for pc ∧ ¬clause."""
        if isinstance(clause, SymBool): clause = clause.t
        if clause is True or (z3.is_bool(clause) and z3.is_true(clause)): return 'unsat', None
        if clause is False: clause = z3.BoolVal(False)
        # opt-in (VERIF_PROVE_FRESH_MS > 0): first try a *fresh* one-shot solver on pc ∧ ¬clause. The long-lived
        # path solver carries the lemmas of every feasibility query of the path and was measured 100x slower
        # (20 s vs 0.2 s) on nonlinear VCs such as (Σ n_i/F·V_i)·F = Σ V_i·n_i. Same formula, same verdicts.
        fresh_ms = int(os.environ.get('VERIF_PROVE_FRESH_MS', '0') or 0)
        if fresh_ms > 0:
            t0 = time.time()
            try:
                # (a) nlsat tactic (the engine's existing second opinion, tried first; only `unsat` is taken from it),
                # (b) default one-shot solver (unsat, or sat with a complete model incl. the uninterpreted functions)
                attempts = {'nlsat': (lambda: z3.Tactic('qfnra-nlsat').solver(), False), 'default': (z3.Solver, True)}
                # order of the attempts: VERIF_PROVE_FRESH_ORDER (default 'nlsat,default'); 'default' alone skips nlsat
                order = [k for k in os.environ.get('VERIF_PROVE_FRESH_ORDER', 'nlsat,default').split(',') if k in attempts]
                for mk, take_sat in [attempts[k] for k in order]:
                    try:
                        s = mk()
                        s.set('timeout', min(fresh_ms, timeout_ms))
                        s.add(self.solver.assertions())
                        s.add(z3.Not(clause))
                        r = s.check()
                    except z3.Z3Exception:
                        continue
                    self.stats['solver_calls'] = self.stats.get('solver_calls', 0) + 1
                    if r == z3.unsat:
                        return 'unsat', None
                    if r == z3.sat and take_sat:
                        return 'sat', s.model()
            finally:
                self.solver_time += time.time() - t0
        self.solver.set('timeout', timeout_ms)
        try:
            r = self._check(z3.Not(clause))
            if r == z3.unsat:
                return 'unsat', None
            if r == z3.sat:
                return 'sat', self.solver.model()
            # second opinion: fresh solver with nlsat-friendly tactic
            r2, m2 = self._second_opinion(z3.Not(clause), timeout_ms)
            return r2, m2
        finally:
            self.solver.set('timeout', BRANCH_TIMEOUT_MS)

    def _second_opinion(self, negated, timeout_ms):
        t0 = time.time()
        try:
            s = z3.Tactic('qfnra-nlsat').solver()
            s.set('timeout', timeout_ms)
            for a in self.solver.assertions():
                s.add(a)
            s.add(negated)
            r = s.check()
            if r == z3.unsat: return 'unsat', None
            if r == z3.sat: return 'sat', s.model()
        except z3.Z3Exception:
            pass
        finally:
            self.solver_time += time.time() - t0
        return 'unknown', None

    def path_model(self):
        """A model of the path condition (for cross-checks)."""
        if self._model is not None:
            return self._model
        fresh_ms = int(os.environ.get('VERIF_PROVE_FRESH_MS', '0') or 0)
        if fresh_ms > 0:     # opt-in, as in prove(): a one-shot solver finds models of nonlinear path conditions much faster
            t0 = time.time()
            try:
                s = z3.Solver()
                s.set('timeout', fresh_ms)
                s.add(self.solver.assertions())
                if s.check() == z3.sat:
                    self._model = s.model()
                    return self._model
            except z3.Z3Exception:
                pass
            finally:
                self.solver_time += time.time() - t0
        self.solver.set('timeout', 10000)
        r = self._check()
        self.solver.set('timeout', BRANCH_TIMEOUT_MS)
        if r == z3.sat:
            self._model = self.solver.model()
            return self._model
        return None


def model_value(model, term_or_sym, default=0.0):
    """Float value of a symbolic leaf under a model."""
    t = lift(term_or_sym) if not z3.is_expr(term_or_sym) else term_or_sym
    v = model.eval(t, model_completion=True)
    c = _const_value(v)
    try:
        if c is not None:
            return float(c)
        if z3.is_algebraic_value(v):
            return float(v.approx(20).as_fraction())
    except OverflowError:      # model value beyond the float range: clamp (only used for native cross-checks/replays)
        return math.copysign(1e300, -1 if (c is not None and c < 0) else 1)   # (copysign itself must not convert the huge value)
    return default


def explore(run, max_paths=4096, stats=None, on_path=None):
    """
    Explore every feasible path of run(ctx).  `run` must be deterministic and
    build its whole world from scratch.  It returns whatever it wants
    (typically a list of obligations); on_path(ctx, result_or_exc) is called at
    the end of each path.  Returns the number of paths.
    """
    global _CTX
    stats = stats if stats is not None else {}
    work = [[]]
    n = 0
    t_start = time.time()
    budget = float(os.environ.get('VERIF_CONFIG_BUDGET_S') or (900 if os.environ.get('VERIF_TIER', 'quick') == 'quick' else 7200))
    while work:
        prefix = work.pop()
        n += 1
        if n > max_paths:
            raise PathCap(f'more than {max_paths} paths')
        if time.time() - t_start > budget:
            # never a verdict: reported as an engine problem (exit 3) unless another obligation shows a violation
            raise PathCap(f'wall-clock budget of {budget:g} s for one configuration exhausted after {n - 1} paths')
        c = Ctx(prefix, stats)
        _CTX = c
        try:
            try:
                result = run(c)
                exc = None
            except Infeasible:
                n -= 1
                work.extend(c.alternatives)
                continue
            except (EngineUnsupported, EngineNondeterminism, PathCap):
                raise
            except Exception as e:  # an exception of the code under check is an outcome of the path
                result, exc = None, e
            work.extend(c.alternatives)
            if on_path is not None:
                on_path(c, result, exc)
        finally:
            _CTX = None
    stats['paths'] = stats.get('paths', 0) + n
    return n
