# -*- coding: utf-8 -*-
"""
Second back end for the mode-U verification conditions: every VC that z3 discharges (unsat) can be handed to cvc5
(/usr/bin/cvc5, SMT-LIB text produced from the very same z3 terms) and the answers compared.

z3's array lambdas (the pointwise loop summaries of engine/vcg/core.py) are not SMT-LIB; each `lambda k. body` is replaced
by a fresh array constant `a` with the defining axiom `forall k. a[k] = body` (equisatisfiable: by extensionality the
axiom determines `a`).  A lambda whose body mentions a variable bound outside of it cannot be hoisted that way; such a
VC is reported as 'untranslated' (z3's answer stands alone).
"""
import os, subprocess, tempfile, time
import z3

CVC5 = '/usr/bin/cvc5'


class Untranslated(Exception):
    pass


def _has_free_var(e, depth=0, memo=None):
    memo = {} if memo is None else memo
    key = (e.get_id(), depth)
    if key in memo: return memo[key]
    if z3.is_var(e): r = z3.get_var_index(e) >= depth
    elif z3.is_quantifier(e): r = _has_free_var(e.body(), depth + e.num_vars(), memo)
    else: r = any(_has_free_var(c, depth, memo) for c in e.children())
    memo[key] = r
    return r


def delambda(exprs):
    axioms, memo = [], {}

    def walk(e):
        i = e.get_id()
        if i in memo: return memo[i]
        if z3.is_quantifier(e):
            body = walk(e.body())
            n = e.num_vars()
            names = [z3.Const(f'{e.var_name(j)}!b{i}', e.var_sort(j)) for j in range(n)]
            inst = z3.substitute_vars(body, *reversed(names))
            if e.is_lambda():
                if n != 1 or _has_free_var(inst): raise Untranslated('lambda under a binder')
                a = z3.FreshConst(e.sort(), 'lam')
                axioms.append(z3.ForAll(names, a[names[0]] == inst, patterns=[a[names[0]]]))
                r = a
            elif body.eq(e.body()): r = e
            else: r = z3.ForAll(names, inst) if e.is_forall() else z3.Exists(names, inst)
        elif z3.is_app(e) and e.num_args():
            ch = [walk(c) for c in e.children()]
            r = e if all(a.eq(b) for a, b in zip(ch, e.children())) else e.decl()(*ch)
        else: r = e
        memo[i] = r
        return r
    out = [walk(e) for e in exprs]
    return out, axioms


def cvc5_check(assertions, timeout_ms=20000):
    """'unsat' | 'sat' | 'unknown' | 'untranslated' | 'error: ...' for the conjunction of z3 terms."""
    try:
        out, axioms = delambda(list(assertions))
    except Untranslated:
        return 'untranslated', 0.0
    s = z3.Solver()
    for a in axioms + out: s.add(a)
    txt = '(set-logic ALL)\n' + s.to_smt2()
    fd, path = tempfile.mkstemp(suffix='.smt2', dir=os.environ.get('VERIF_SCRATCH') or None)
    with os.fdopen(fd, 'w') as f: f.write(txt)
    t = time.time()
    try:
        o = subprocess.run([CVC5, f'--tlimit={int(timeout_ms)}', path], capture_output=True, text=True, timeout=timeout_ms / 1000 + 10)
        ans = (o.stdout.strip().split('\n') or [''])[0]
        if ans not in ('unsat', 'sat', 'unknown'):
            ans = 'unknown' if 'interrupted' in (o.stdout + o.stderr) or 'timeout' in (o.stdout + o.stderr).lower() else 'error: ' + (o.stdout + o.stderr).strip()[:160]
    except subprocess.TimeoutExpired:
        ans = 'unknown'
    finally:
        os.unlink(path)
    return ans, time.time() - t
