# -*- coding: utf-8 -*-
"""
Mode U driver for the SparseVector kernels: builds the symbolic pre-state for a kernel
signature, runs the AST executor on the real source, assembles and discharges the VCs
against the kernel contract (dense image, rep_ok, frame, allowed exceptions) and replays
counter-models on the real function.
"""
import time
import inspect
import ast
import z3
import os
from . import core, second
from .core import I, R, B, dense, Exec, Heap, Dict, Set, Arr, SV, SLV, PyConst, Unsupported

TIMEOUT_MS = 20000
SECOND = os.environ.get('VERIF_SECOND_SOLVER', '1') != '0' and os.path.exists(second.CVC5)    # cvc5 re-checks every unsat
SECOND_TIMEOUT_MS = 20000


class Univ:
    """A universally quantified fact  forall k. fn(k)  kept in a path condition; instantiated at VC time."""
    def __init__(self, fn): self.fn = fn


def nonempty_axioms(ex, terms):
    """nonempty(dom) <=> exists k. dom[k]: '<=' instantiated at the terms, '=>' by a Skolem witness per dom."""
    out = []
    seen = set()
    for dom in ex.nonempty_doms:
        if dom.get_id() in seen: continue
        seen.add(dom.get_id())
        for t in terms:
            out.append(z3.Implies(z3.Select(dom, t), ex.nonempty(dom)))
        out.append(z3.Implies(ex.nonempty(dom), z3.Select(dom, witness(ex, dom))))
    return out


def witness(ex, dom):
    w = getattr(ex, '_witness', None)
    if w is None: w = ex._witness = {}
    if dom.get_id() not in w:
        w[dom.get_id()] = (dom, z3.Int(f'w!{len(w)}'))
    return w[dom.get_id()][1]


def inst_terms(ex, k, pc, extra=()):
    """Instantiation terms for quantified requires: the arbitrary index, 0, Skolem witnesses, path witnesses."""
    terms = [k, z3.IntVal(0)]
    for dom in ex.nonempty_doms:
        terms.append(witness(ex, dom))
    for c in _free_consts(z3.BoolVal(True), pc):
        if z3.is_int(c) and (str(c).startswith('kr!') or str(c).startswith('k!')):
            terms.append(c)
    terms.extend(extra)
    seen = set(); out = []
    for t in terms:
        if t.get_id() not in seen:
            seen.add(t.get_id()); out.append(t)
    return out


def expand(pc, terms):
    out = []
    for c in pc:
        if isinstance(c, Univ):
            out.extend(c.fn(t) for t in terms)
        elif z3.is_quantifier(c) and c.is_forall():
            body = c.body()
            for t in terms:
                out.append(z3.substitute_vars(body, t))
        else:
            out.append(c)
    return out


class Pre:
    """Symbolic entry state of a kernel call."""
    def __init__(self, kind):
        self.kind = kind
        self.heap = Heap()
        self.vecs = {}
        self.env = {}
        self.facts = []

    def vec(self, name):
        dom = z3.Const(f'dom_{name}', z3.ArraySort(I, B))
        val = z3.Const(f'val_{name}', z3.ArraySort(I, R))
        size = z3.Int(f'size_{name}')
        d = self.heap.new_dict(dom, val)
        ro = z3.Bool(f'read_only_{name}')
        sv = self.heap.new_sv(d, size, read_only=ro)
        self.vecs[name] = dict(dom=dom, val=val, size=size, ref=sv, dict=d, read_only=ro)
        self.facts.append(size >= 0)
        self.env[name] = sv
        return sv

    def rep_ok(self, name, t):
        v = self.vecs[name]
        return z3.Implies(z3.Select(v['dom'], t),
                          z3.And(t >= 0, t < v['size'], z3.Select(v['val'], t) != 0))


CMP = {'eq': '==', 'ne': '!=', 'gt': '>', 'lt': '<', 'ge': '>=', 'le': '<='}


def spec_binary(op, kind, inplace):
    """Contract of SparseVector._{i}{op}_{kind}; returns dict with builders.  op in add/sub/mul/truediv or a comparison."""
    def build():
        p = Pre(kind)
        p.vec('self')
        if kind == 'sparse':
            p.vec('other')
            osize = p.vecs['other']['size']
            oget = lambda k: dense(p.vecs['other']['dom'], p.vecs['other']['val'], k)
        elif kind == 'array':
            n = z3.Int('len_other'); vals = z3.Const('vals_other', z3.ArraySort(I, R))
            p.env['other'] = Arr(n, vals)
            p.facts.append(n >= 0)
            osize = n
            oget = lambda k: z3.Select(vals, k)
        else:
            s = z3.Real('other')
            p.env['other'] = s
            osize = None
            oget = lambda k: s
        p.osize, p.oget = osize, oget
        return p

    def shape(p):
        size = p.vecs['self']['size']
        if kind == 'scalar':
            return size, z3.BoolVal(True), (lambda k: k), (lambda k: k)
        osize = p.osize
        same = size == osize
        selfb = z3.And(size == 1, osize != 0)            # self broadcast to other's length
        otherb = (osize == 1) if (kind == 'sparse' or op in ('eq', 'ne')) else z3.BoolVal(False)
        ok = z3.Or(same, selfb, otherb)
        n = z3.If(same, size, z3.If(selfb, osize, size))
        ai = lambda k: z3.If(z3.And(z3.Not(same), selfb), z3.IntVal(0), k)
        bi = lambda k: z3.If(z3.And(z3.Not(same), z3.Not(selfb), otherb), z3.IntVal(0), k)
        return n, ok, ai, bi

    def requires(p, terms):
        fs = list(p.facts)
        for t in terms:
            fs.append(p.rep_ok('self', t))
            if kind == 'sparse': fs.append(p.rep_ok('other', t))
        n, ok, ai, bi = shape(p)
        sget = lambda k: dense(p.vecs['self']['dom'], p.vecs['self']['val'], k)
        if op == 'truediv':
            # divisor non-zero wherever the numerator is non-zero (NumPy result finite): instantiated
            for t in terms:
                fs.append(z3.Implies(z3.And(ok, t >= 0, t < n, sget(ai(t)) != 0), p.oget(bi(t)) != 0))
            if kind == 'sparse':
                # lemma schema (trusted): cardinality is monotone under inclusion; the inclusion is the requires above for equal sizes
                card = z3.Function('card', z3.ArraySort(I, B), I)
                fs.append(z3.Implies(p.vecs['self']['size'] == p.osize,
                                     card(p.vecs['self']['dom']) <= card(p.vecs['other']['dom'])))
                # full vector <=> cardinality equals size (used by the `len(other_dct) != other_size` tests)
                fs.append(z3.Implies(z3.And(p.vecs['self']['size'] == 1, z3.Select(p.vecs['self']['dom'], 0), p.osize != 0,
                                            p.vecs['self']['size'] != p.osize),
                                     card(p.vecs['other']['dom']) == p.osize))
        if inplace:
            fs.append(z3.Not(p.vecs['self']['read_only']))
        return fs

    def raises_allowed(p):
        n, ok, ai, bi = shape(p)
        return {'ValueError': z3.Not(ok)}

    def ensures(p, out, k):
        """Clauses (name, term) for an arbitrary index k on a normal return."""
        n, ok, ai, bi = shape(p)
        res = out.value
        cl = []
        if op in CMP:
            if not isinstance(res, SLV):
                return [('returns a SparseLogicalVector', z3.BoolVal(False))]
            f = out.heap.objs[res.oid]
            rset = out.heap.sets[f['dct'].oid]
            sget = lambda k: dense(p.vecs['self']['dom'], p.vecs['self']['val'], k)
            a, b = sget(ai(k)), p.oget(bi(k))
            expect = {'eq': a == b, 'ne': a != b, 'gt': a > b, 'lt': a < b, 'ge': a >= b, 'le': a <= b}[op]
            cl.append(('shape accepted', ok))
            cl.append(('result size = broadcast size', f['size'] == n))
            cl.append(('member k <=> dense(self)[k] %s dense(other)[k]' % CMP[op],
                       z3.Implies(z3.And(k >= 0, k < n), z3.Select(rset, k) == expect)))
            cl.append(('stored indices inside the size', z3.Implies(z3.Select(rset, k), z3.And(k >= 0, k < n))))
            s_ = p.vecs['self']
            sdom, sval = out.heap.dicts[s_['dict'].oid]
            cl.append(('frame: self unchanged',
                       z3.And(z3.Select(sdom, k) == z3.Select(s_['dom'], k),
                              z3.Implies(z3.Select(sdom, k), z3.Select(sval, k) == z3.Select(s_['val'], k)),
                              out.heap.objs[s_['ref'].oid]['size'] == s_['size'])))
            if kind == 'sparse':
                o = p.vecs['other']
                odom, oval = out.heap.dicts[o['dict'].oid]
                cl.append(('frame: other operand unchanged',
                           z3.And(z3.Select(odom, k) == z3.Select(o['dom'], k),
                                  z3.Implies(z3.Select(odom, k), z3.Select(oval, k) == z3.Select(o['val'], k)),
                                  out.heap.objs[o['ref'].oid]['size'] == o['size'])))
            return cl
        if not isinstance(res, SV):
            return [('returns a SparseVector', z3.BoolVal(False))]
        f = out.heap.objs[res.oid]
        if inplace:
            cl.append(('returns self', z3.BoolVal(res.oid == p.vecs['self']['ref'].oid)))
        else:
            cl.append(('returns a new object', z3.BoolVal(res.oid != p.vecs['self']['ref'].oid and
                                                           f['dct'].oid != p.vecs['self']['dict'].oid)))
        rdom, rval = out.heap.dicts[f['dct'].oid]
        cl.append(('shape accepted', ok))
        cl.append(('result size = broadcast size', f['size'] == n))
        sget = lambda k: dense(p.vecs['self']['dom'], p.vecs['self']['val'], k)
        a, b = sget(ai(k)), p.oget(bi(k))
        if op == 'add': expect = a + b
        elif op == 'sub': expect = a - b
        elif op == 'mul': expect = a * b
        else: expect = z3.If(a == 0, z3.RealVal(0), a / b)
        cl.append(('dense image = operator on dense images',
                   z3.Implies(z3.And(k >= 0, k < n), dense(rdom, rval, k) == expect)))
        cl.append(('rep_ok(result): stored entries in range and non-zero',
                   z3.Implies(z3.Select(rdom, k), z3.And(k >= 0, k < n, z3.Select(rval, k) != 0))))
        # frame: other operand unchanged; self unchanged unless in place
        if kind == 'sparse':
            o = p.vecs['other']
            odom, oval = out.heap.dicts[o['dict'].oid]
            same_obj_as_self = False
            cl.append(('frame: other operand unchanged',
                       z3.And(z3.Select(odom, k) == z3.Select(o['dom'], k),
                              z3.Implies(z3.Select(odom, k), z3.Select(oval, k) == z3.Select(o['val'], k)),
                              out.heap.objs[o['ref'].oid]['size'] == o['size'])))
        if not inplace:
            s = p.vecs['self']
            sdom, sval = out.heap.dicts[s['dict'].oid]
            cl.append(('frame: self unchanged',
                       z3.And(z3.Select(sdom, k) == z3.Select(s['dom'], k),
                              z3.Implies(z3.Select(sdom, k), z3.Select(sval, k) == z3.Select(s['val'], k)),
                              out.heap.objs[s['ref'].oid]['size'] == s['size'])))
        return cl

    return dict(build=build, requires=requires, raises_allowed=raises_allowed, ensures=ensures,
                params=['self', 'other'])


def template_source(func_name):
    """Source text of an exec-generated method: the template string of /repo formatted with the arguments used there."""
    import sys
    sp = sys.modules['thermosteam.base.sparse']
    for nm, sign in CMP.items():
        if func_name in (f'_{nm}_sparse', f'_{nm}_scalar', f'_{nm}_array') and nm in ('gt', 'lt', 'ge', 'le'):
            return sp.sparse_vector_comparison_math.format(name=nm, sign=sign)
    return None


def verify(func, spec, name, source=None, timeout_ms=TIMEOUT_MS):
    """Returns a result dict: obligations [(name, verdict)], counterexamples, paths, seconds."""
    t0 = time.time()
    res = {'function': name, 'obligations': [], 'paths': 0, 'unsupported': None, 'cex': [], 'solver_s': 0.0}
    try:
        short = name.rsplit('.', 1)[-1]
        if source is None and ':SparseVector.' in name:
            source = template_source(short)
        fdef, src = core.get_function_ast(func, source, short)
        p = spec['build']()
        ex = Exec(fdef, getattr(func, '__globals__', {}), None)
        p.ex = ex
        env = {}
        n_args, defaults = len(fdef.args.args), fdef.args.defaults
        for i_, a in enumerate(fdef.args.args):
            if a.arg in p.env: env[a.arg] = p.env[a.arg]
            else:
                d_ = i_ - (n_args - len(defaults))           # a parameter the contract does not plant takes its (literal) default
                if d_ < 0 or not isinstance(defaults[d_], ast.Constant): raise KeyError(a.arg)
                env[a.arg] = core.PyConst(defaults[d_].value)
        outs = ex.run(env, p.heap, [])
    except Unsupported as e:
        res['unsupported'] = str(e)
        return res
    res['paths'] = len(outs)
    k = z3.Int('k!post')
    allowed = spec['raises_allowed'](p)
    feasible_returns = 0

    def second_opinion(s, r):
        """cvc5 on the same assertions (engine/vcg/second.py): confirms z3's `unsat`, decides z3's `unknown`.  A `sat` from
        cvc5 against z3's `unsat` leaves the obligation undecided (never discharged on one solver's word against the other)."""
        if not SECOND or r == z3.sat: return r
        ans, dt = second.cvc5_check(s.assertions(), SECOND_TIMEOUT_MS)
        res['second_s'] = res.get('second_s', 0.0) + dt
        sec = res.setdefault('second', {})
        if r == z3.unsat:
            key = {'unsat': 'confirmed', 'sat': 'disagreed'}.get(ans, 'z3_only:' + ans.split(':')[0])
            sec[key] = sec.get(key, 0) + 1
            return z3.unknown if ans == 'sat' else r
        if ans == 'unsat':
            sec['decided_by_cvc5'] = sec.get('decided_by_cvc5', 0) + 1
            return z3.unsat
        sec['open_in_both'] = sec.get('open_in_both', 0) + 1
        return r

    def check(hyps, goal):
        s = z3.Solver(); s.set('timeout', timeout_ms)
        for h in hyps: s.add(h)
        s.add(z3.Not(goal))
        t1 = time.time(); r = s.check(); res['solver_s'] += time.time() - t1
        r = second_opinion(s, r)
        m = None
        if r == z3.sat:
            m = s.model()
            # prefer a small counter-model (replayable): bound sizes, then also ask for integer values
            sizes = [v['size'] for v in p.vecs.values()]
            o = p.env.get('other')
            if isinstance(o, Arr): sizes.append(o.n)
            for bound in (4, 12, MAX_REPLAY_SIZE):
                s.push()
                for z in sizes: s.add(z <= bound)
                if s.check() == z3.sat:
                    m = s.model(); s.pop(); break
                s.pop()
        return r, m

    def feasible(hyps):
        s = z3.Solver(); s.set('timeout', timeout_ms)
        for h in hyps: s.add(h)
        t1 = time.time(); r = s.check(); res['solver_s'] += time.time() - t1
        return second_opinion(s, r)

    for n_out, out in enumerate(outs):
        # instantiation terms: the arbitrary index, 0, and witnesses introduced on the path
        terms = inst_terms(ex, k, out.pc)
        hyps = spec['requires'](p, terms) + expand(out.pc, terms) + list(ex.side) + nonempty_axioms(ex, terms)
        if 'lemmas' in spec: hyps = hyps + spec['lemmas'](p, ex, terms)
        if out.kind == 'raise':
            cond = allowed.get(out.exc)
            if cond is None:
                r = feasible(hyps)
                verdict = 'unsat' if r == z3.unsat else ('sat' if r == z3.sat else 'unknown')
                nm = f'path {n_out}: {out.exc} is never raised'
                res['obligations'].append((nm, verdict))
                if verdict == 'sat':
                    s = z3.Solver(); [s.add(h) for h in hyps]; s.check()
                    res['cex'].append((nm, s.model()))
            else:
                r, m = check(hyps, cond)
                verdict = 'unsat' if r == z3.unsat else ('sat' if r == z3.sat else 'unknown')
                nm = f'path {n_out}: {out.exc} only when the contract allows it'
                res['obligations'].append((nm, verdict))
                if m is not None: res['cex'].append((nm, m))
            continue
        if feasible(hyps) == z3.unsat:
            continue     # infeasible path
        feasible_returns += 1
        # cover / canary: the wrong clause "no index is in range" must be refuted on some path (non-vacuity of the forall-k clauses)
        if isinstance(out.value, (SV, SLV)) and not res.get('covered'):
            if feasible(hyps + [k >= 0, k < out.heap.objs[out.value.oid]['size']]) == z3.sat:
                res['covered'] = True
        for cname, clause in spec['ensures'](p, out, k):
            r, m = check(hyps, clause)
            verdict = 'unsat' if r == z3.unsat else ('sat' if r == z3.sat else 'unknown')
            nm = f'path {n_out}: {cname}'
            res['obligations'].append((nm, verdict))
            if m is not None: res['cex'].append((nm, m))
    # internal obligations of the executor (reads of present keys, array indices in range, no division by zero)
    for iname, pc, cond in ex.obligations:
        terms = inst_terms(ex, k, pc)
        hyps = spec['requires'](p, terms) + expand(pc, terms) + list(ex.side) + nonempty_axioms(ex, terms)
        # loop-body obligations mention the loop key: it is a free constant, i.e. arbitrary
        ks = [c for c in _free_consts(cond, pc) if str(c).startswith('k!')]
        for kk in ks:
            hyps = hyps + spec['requires'](p, [kk]) + nonempty_axioms(ex, [kk])
        r, m = check(hyps, cond)
        verdict = 'unsat' if r == z3.unsat else ('sat' if r == z3.sat else 'unknown')
        res['obligations'].append((f'internal: {iname}', verdict))
        if m is not None: res['cex'].append((f'internal: {iname}', m))
    for pc, cond in ex.div_obligations:
        terms = inst_terms(ex, k, pc)
        hyps = spec['requires'](p, terms) + expand(pc, terms) + list(ex.side) + nonempty_axioms(ex, terms)
        ks = [c for c in _free_consts(cond, pc) if str(c).startswith('k!')]
        for kk in ks:
            hyps = hyps + spec['requires'](p, [kk]) + nonempty_axioms(ex, [kk])
        r, m = check(hyps, cond)
        verdict = 'unsat' if r == z3.unsat else ('sat' if r == z3.sat else 'unknown')
        res['obligations'].append(('internal: divisor non-zero', verdict))
        if m is not None: res['cex'].append(('internal: divisor non-zero', m))
    if feasible_returns == 0:
        res['obligations'].append(('vacuity: at least one feasible normal return', 'sat'))
    if not res.get('covered') and spec.get('needs_cover', True):
        res['obligations'].append(('vacuity: some index of the result is reachable (canary)', 'sat'))
    res['pre'] = p
    res['wall_s'] = time.time() - t0
    return res


def _free_consts(cond, pc):
    seen = {}
    def walk(t):
        if z3.is_const(t) and t.decl().kind() == z3.Z3_OP_UNINTERPRETED:
            seen[t.get_id()] = t
        elif z3.is_app(t):
            for c in t.children(): walk(c)
        elif z3.is_quantifier(t):
            walk(t.body())
    walk(cond)
    for c in pc:
        if z3.is_expr(c): walk(c)
    return list(seen.values())


# ----------------------------------------------------------------------------- counter-model -> concrete inputs -> native run

MAX_REPLAY_SIZE = 40


def _mval(m, t):
    v = m.eval(t, model_completion=True)
    if z3.is_int_value(v): return v.as_long()
    if z3.is_rational_value(v): return float(v.numerator_as_long()) / float(v.denominator_as_long())
    if z3.is_true(v): return True
    if z3.is_false(v): return False
    if z3.is_algebraic_value(v): return float(v.approx(15).as_fraction())
    raise ValueError(f'cannot read model value {v}')


def concretise(pre, m, desc):
    """Concrete inputs (projected onto rep_ok) from a model of a failed VC."""
    out = {}
    for name, v in pre.vecs.items():
        size = _mval(m, v['size'])
        if size > MAX_REPLAY_SIZE: raise ValueError(f'model size {size} too large to replay')
        if v['val'] is None:
            out[name] = {'size': size, 'set': [i for i in range(size) if _mval(m, z3.Select(v['dom'], i))]}
            continue
        d = {}
        for i in range(size):
            if _mval(m, z3.Select(v['dom'], i)):
                x = _mval(m, z3.Select(v['val'], i))
                if x != 0: d[i] = float(x)
        out[name] = {'size': size, 'dct': d, 'read_only': bool(_mval(m, v['read_only']))}
    o = pre.env.get('other')
    if isinstance(o, Arr):
        n = _mval(m, o.n)
        if n > MAX_REPLAY_SIZE: raise ValueError('model array too large to replay')
        out['other'] = {'array': [float(_mval(m, z3.Select(o.vals, i))) for i in range(n)]}
    elif z3.is_expr(o) and z3.is_real(o):
        out['other'] = {'scalar': float(_mval(m, o))}
    elif z3.is_expr(o) and z3.is_bool(o):
        out['other'] = {'scalar': bool(_mval(m, o))}
    for nm, t in getattr(pre, 'extra_inputs', {}).items():
        out[nm] = _mval(m, t)
    return out


def native_check(name, desc, inputs):
    """Run the real kernel on concrete inputs; evaluate the contract with NumPy as the oracle.  Returns failed clause names."""
    import numpy as np
    import thermosteam  # noqa
    import sys
    sp = sys.modules['thermosteam.base.sparse']
    SVc = sp.SparseVector
    if desc[0] != 'binary':
        from . import kernels_more
        return kernels_more.native_check(name, desc, inputs)
    _, op, kind, inplace = desc
    s = inputs['self']
    a = SVc.from_dict({int(k): v for k, v in s['dct'].items()}, s['size'])
    a0 = a.to_array().copy(); a_dct = a.dct
    if kind == 'sparse':
        o = inputs['other']
        b = SVc.from_dict({int(k): v for k, v in o['dct'].items()}, o['size'])
        b0 = b.to_array().copy()
    elif kind == 'array':
        b = np.array(inputs['other']['array'], dtype=float); b0 = b.copy()
    else:
        b = inputs['other']['scalar']; b0 = np.float64(b)
    failed = []
    npop = {'add': np.add, 'sub': np.subtract, 'mul': np.multiply, 'truediv': np.divide, 'eq': np.equal, 'ne': np.not_equal,
            'gt': np.greater, 'lt': np.less, 'ge': np.greater_equal, 'le': np.less_equal}[op]
    sa, sb = len(a0), (np.size(b0) if kind != 'scalar' else None)
    ok = True if kind == 'scalar' else (sa == sb or (sa == 1 and sb != 0) or ((kind == 'sparse' or op in ('eq', 'ne')) and sb == 1))
    try:
        r = getattr(a, name)(b)
    except ValueError as e:
        if ok: failed.append(f'unexpected ValueError: {e}')
        return failed
    except Exception as e:
        return [f'unexpected {type(e).__name__}: {e}']
    if not ok:
        return ['shape mismatch not rejected']
    with np.errstate(all='ignore'):
        expect = npop(a0, b0)
        if op == 'truediv':
            expect = np.where(np.broadcast_to(a0, np.shape(expect)) == 0, 0., expect)
    if op in CMP:
        if not isinstance(r, sp.SparseLogicalVector): return ['returns a SparseLogicalVector']
        got = r.to_array()
        if got.shape != np.shape(expect) or not np.array_equal(got, expect):
            failed.append(f'member k <=> comparison of dense images (got {got.tolist()}, NumPy {np.asarray(expect).tolist()})')
        if any(not (0 <= k < r.size) for k in r.set): failed.append('stored indices inside the size')
        if not np.array_equal(a.to_array(), a0): failed.append('frame: self unchanged')
        return failed
    got = r.to_array()
    if got.shape != np.shape(expect) or not np.allclose(got, expect, rtol=1e-9, atol=1e-12, equal_nan=False):
        failed.append(f'dense image = operator on dense images (got {got.tolist()}, NumPy {np.asarray(expect).tolist()})')
    if any((v == 0) or not (0 <= k < r.size) for k, v in r.dct.items()):
        failed.append('rep_ok(result): stored entries in range and non-zero')
    if inplace:
        if r is not a: failed.append('returns self')
    else:
        if r is a or r.dct is a_dct: failed.append('returns a new object')
        if not np.array_equal(a.to_array(), a0) or a.size != len(a0): failed.append('frame: self unchanged')
    if kind == 'sparse' and (not np.array_equal(b.to_array(), b0)): failed.append('frame: other operand unchanged')
    if kind == 'array' and not np.array_equal(b, b0): failed.append('frame: other operand unchanged')
    return failed
