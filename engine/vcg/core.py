# -*- coding: utf-8 -*-
"""
VCG (mode U): verification conditions from the AST of the real function, for
UNBOUNDED sizes.  The source is read from the imported /repo module on every run
(inspect.getsource), parsed with `ast` and executed symbolically over z3 terms:

  * dict[int -> real]  = (dom: Array Int Bool, val: Array Int Real)   (mutable, on a heap, aliasing respected)
  * set[int]           = dom only
  * 1-d array argument = (len: Int, vals: Array Int Real)
  * sparse vector      = object with fields dct (heap ref), size (Int), read_only (Bool)
  * floats are reals, ints are mathematical integers.

Top-level control flow is explored path by path.  Loops and comprehensions must be
*pointwise*: the body touches the mutable containers only at the loop key (checked
syntactically: every subscript/`in`/del/get on a container uses exactly the loop
variable).  Such a loop is summarised without an invariant: the body is executed once
for a fresh key k0 (branches merged with ite), and the container after the loop is
    lambda k. ite(k in iteration-domain, body-effect(k), before(k)).
Each key is visited once and iterations are independent, so this is exact.

What the extraction drops: docstrings, decorators, annotations.  Anything outside the
subset raises Unsupported (the function is then not counted as proved by this mode).
"""
import ast
import inspect
import textwrap
import itertools
import z3

I, R, B = z3.IntSort(), z3.RealSort(), z3.BoolSort()


class Unsupported(Exception):
    pass


_fresh = itertools.count()


def fresh(prefix, sort):
    return z3.Const(f'{prefix}!{next(_fresh)}', sort)


# ----------------------------------------------------------------------------- values

class Dict:      # heap reference to a dict[int->real]
    def __init__(self, oid): self.oid = oid


class Set:
    def __init__(self, oid): self.oid = oid


class Arr:       # immutable array argument
    def __init__(self, n, vals): self.n, self.vals = n, vals


class SV:        # sparse vector object reference
    def __init__(self, oid): self.oid = oid


class SLV:       # sparse logical vector (result of comparisons)
    def __init__(self, oid): self.oid = oid


class Tup:
    def __init__(self, items): self.items = list(items)


class KeyIter:
    """An iterable of int keys described by a membership predicate over a fresh key, plus per-key bound values."""
    def __init__(self, member, bind=None, parts=None):
        self.member = member      # k -> Bool term
        self.bind = bind          # k -> tuple of extra values bound besides the key (items / enumerate), or None
        self.parts = parts


class PyConst:
    def __init__(self, v): self.v = v


class Cls:
    def __init__(self, name): self.name = name


class Heap:
    def __init__(self):
        self.dicts = {}    # oid -> (dom, val)
        self.sets = {}     # oid -> dom
        self.objs = {}     # oid -> {'dct': Dict|Set, 'size': term, 'read_only': term, 'cls': str}
        self.n = itertools.count()

    def copy(self):
        h = Heap()
        h.dicts = dict(self.dicts); h.sets = dict(self.sets)
        h.objs = {k: dict(v) for k, v in self.objs.items()}
        h.n = self.n
        return h

    def new_dict(self, dom=None, val=None):
        oid = f'd{next(self.n)}'
        self.dicts[oid] = (dom if dom is not None else z3.K(I, z3.BoolVal(False)),
                           val if val is not None else z3.K(I, z3.RealVal(0)))
        return Dict(oid)

    def new_set(self, dom=None):
        oid = f's{next(self.n)}'
        self.sets[oid] = dom if dom is not None else z3.K(I, z3.BoolVal(False))
        return Set(oid)

    def new_sv(self, dct, size, cls='SparseVector', read_only=None):
        oid = f'o{next(self.n)}'
        self.objs[oid] = {'dct': dct, 'size': size, 'cls': cls,
                          'read_only': z3.BoolVal(False) if read_only is None else read_only}
        return SV(oid) if cls == 'SparseVector' else SLV(oid)


def dense(dom, val, k):
    return z3.If(z3.Select(dom, k), z3.Select(val, k), z3.RealVal(0))


# ----------------------------------------------------------------------------- outcomes

class Outcome:
    def __init__(self, kind, pc, heap, value=None, exc=None):
        self.kind, self.pc, self.heap, self.value, self.exc = kind, pc, heap, value, exc


class _Return(Exception):
    def __init__(self, value): self.value = value


class _Raise(Exception):
    def __init__(self, exc): self.exc = exc


class _Fork(Exception):
    pass


def truth(v):
    """Bool term for the truthiness of a value."""
    if isinstance(v, PyConst):
        return z3.BoolVal(bool(v.v))
    if z3.is_expr(v):
        if z3.is_bool(v): return v
        if z3.is_int(v): return v != 0
        if z3.is_real(v): return v != 0
    raise Unsupported(f'truthiness of {type(v).__name__}')


def to_real(v):
    if isinstance(v, PyConst):
        if isinstance(v.v, bool): return z3.RealVal(1 if v.v else 0)
        if isinstance(v.v, (int, float)):
            from fractions import Fraction
            f = Fraction(repr(v.v)) if isinstance(v.v, float) else Fraction(v.v)
            return z3.Q(f.numerator, f.denominator)
    if z3.is_expr(v):
        if z3.is_real(v): return v
        if z3.is_int(v): return z3.ToReal(v)
        if z3.is_bool(v): return z3.If(v, z3.RealVal(1), z3.RealVal(0))
    raise Unsupported(f'not a number: {v!r}')


def to_int(v):
    if isinstance(v, PyConst) and isinstance(v.v, int) and not isinstance(v.v, bool):
        return z3.IntVal(v.v)
    if z3.is_expr(v) and z3.is_int(v): return v
    raise Unsupported(f'not an int: {v!r}')


def is_num(v):
    return (isinstance(v, PyConst) and isinstance(v.v, (int, float))) or (z3.is_expr(v) and (z3.is_real(v) or z3.is_int(v)))


class Exec:
    """Symbolic executor for one function body."""

    def __init__(self, fdef, globals_, instantiate):
        self.fdef = fdef
        self.globals = globals_
        self.paths = []          # decisions stack for top-level forking
        self.outcomes = []
        self.side = []           # side facts (axiom instances) that are true in every state
        self.obligations = []    # (name, pc, cond) internal obligations (e.g. loop is pointwise-safe)
        self.instantiate = instantiate   # callable(heap) -> list of Int terms where quantified facts are instantiated
        self.nonempty = z3.Function('nonempty', z3.ArraySort(I, B), B)
        self.card = z3.Function('card', z3.ArraySort(I, B), I)
        self.div_obligations = []
        self.nonempty_doms = []

    # ---------------------------------------------------------------- driver
    def run(self, env, heap, pre):
        """Explore all top-level paths.  env: name -> value.  pre: list of Bool terms."""
        work = [[]]
        while work:
            prefix = work.pop()
            self.prefix = list(prefix); self.pos = 0; self.taken = []; self.alts = []
            self.pc = list(pre)
            h = heap.copy()
            e = dict(env)
            try:
                self.block(self.fdef.body, e, h)
                self.outcomes.append(Outcome('return', list(self.pc), h, PyConst(None)))
            except _Return as r:
                self.outcomes.append(Outcome('return', list(self.pc), h, r.value))
            except _Raise as r:
                self.outcomes.append(Outcome('raise', list(self.pc), h, exc=r.exc))
            work.extend(self.alts)
        return self.outcomes

    def decide(self, cond):
        cond = z3.simplify(cond)
        if z3.is_true(cond): return True
        if z3.is_false(cond): return False
        if self.pos < len(self.prefix):
            out = self.prefix[self.pos]
        else:
            out = True
            self.alts.append(self.taken + [False])
        self.pos += 1
        self.taken.append(out)
        self.pc.append(cond if out else z3.Not(cond))
        return out

    def truth(self, v, heap):
        if isinstance(v, Dict):
            dom = heap.dicts[v.oid][0]
            self.nonempty_doms.append(dom)
            return self.nonempty(dom)
        if isinstance(v, Set):
            dom = heap.sets[v.oid]
            self.nonempty_doms.append(dom)
            return self.nonempty(dom)
        return truth(v)

    # ---------------------------------------------------------------- statements (top level: forking)
    def block(self, stmts, env, heap):
        for s in stmts:
            self.stmt(s, env, heap)

    def stmt(self, s, env, heap):
        if isinstance(s, ast.Expr):
            if isinstance(s.value, ast.Constant): return       # docstring
            self.expr(s.value, env, heap); return
        if isinstance(s, ast.Assign):
            v = self.expr(s.value, env, heap)
            for t in s.targets: self.assign(t, v, env, heap)
            return
        if isinstance(s, ast.AugAssign):
            cur = self.expr(_load(s.target), env, heap)
            v = self.binop(s.op, cur, self.expr(s.value, env, heap))
            self.assign(s.target, v, env, heap); return
        if isinstance(s, ast.If):
            c = self.truth(self.expr(s.test, env, heap), heap)
            if self.decide(c): self.block(s.body, env, heap)
            else: self.block(s.orelse, env, heap)
            return
        if isinstance(s, ast.Return):
            raise _Return(self.expr(s.value, env, heap) if s.value is not None else PyConst(None))
        if isinstance(s, ast.Raise):
            raise _Raise(_exc_name(s.exc))
        if isinstance(s, ast.For):
            self.for_loop(s, env, heap); return
        if isinstance(s, ast.Delete):
            for t in s.targets: self.delete(t, env, heap)
            return
        if isinstance(s, ast.Pass): return
        if isinstance(s, ast.Try):
            # only the debugging idiom `try: ... except: breakpoint()` is accepted; the handler is dropped
            ok = (not s.orelse and not s.finalbody and len(s.handlers) == 1 and len(s.handlers[0].body) == 1 and
                  isinstance(s.handlers[0].body[0], ast.Expr) and isinstance(s.handlers[0].body[0].value, ast.Call) and
                  getattr(s.handlers[0].body[0].value.func, 'id', None) == 'breakpoint')
            if not ok: raise Unsupported(f'try statement at line {s.lineno}')
            self.block(s.body, env, heap); return
        raise Unsupported(f'statement {type(s).__name__} at line {s.lineno}')

    def assign(self, t, v, env, heap):
        if isinstance(t, ast.Name):
            env[t.id] = v; return
        if isinstance(t, ast.Attribute):
            o = self.expr(t.value, env, heap)
            if isinstance(o, (SV, SLV)):
                if t.attr in ('size', 'dct', 'read_only'):
                    heap.objs[o.oid][t.attr] = to_int(v) if t.attr == 'size' else v
                    return
            raise Unsupported(f'attribute store .{t.attr}')
        if isinstance(t, ast.Subscript):
            o = self.expr(t.value, env, heap)
            k = self.expr(t.slice, env, heap)
            if isinstance(o, Dict):
                dom, val = heap.dicts[o.oid]
                k = to_int(k)
                heap.dicts[o.oid] = (z3.Store(dom, k, z3.BoolVal(True)), z3.Store(val, k, to_real(v)))
                return
            raise Unsupported('subscript store on non-dict')
        if isinstance(t, (ast.Tuple, ast.List)):
            if isinstance(v, Tup) and len(v.items) == len(t.elts):
                for a, b in zip(t.elts, v.items): self.assign(a, b, env, heap)
                return
        raise Unsupported(f'assignment target {type(t).__name__}')

    def delete(self, t, env, heap):
        if isinstance(t, ast.Subscript):
            o = self.expr(t.value, env, heap)
            k = to_int(self.expr(t.slice, env, heap))
            if isinstance(o, Dict):
                dom, val = heap.dicts[o.oid]
                if not self.decide(z3.Select(dom, k)):
                    raise _Raise('KeyError')
                heap.dicts[o.oid] = (z3.Store(dom, k, z3.BoolVal(False)), val)
                return
        raise Unsupported('del target')

    # ---------------------------------------------------------------- loops (pointwise summaries)
    def iter_desc(self, node, env, heap):
        """KeyIter for an iterable expression."""
        v = self.expr(node, env, heap)
        return self.as_iter(v, heap)

    def as_iter(self, v, heap):
        if isinstance(v, KeyIter): return v
        if isinstance(v, Dict):
            dom, val = heap.dicts[v.oid]
            return KeyIter(lambda k, dom=dom: z3.Select(dom, k))
        if isinstance(v, Set):
            dom = heap.sets[v.oid]
            return KeyIter(lambda k, dom=dom: z3.Select(dom, k))
        raise Unsupported(f'iteration over {type(v).__name__}')

    def for_loop(self, s, env, heap):
        if s.orelse: raise Unsupported('for-else')
        it = self.iter_desc(s.iter, env, heap)
        k0 = fresh('k', I)
        key_name, binds = self.loop_targets(s.target, it, k0)
        body_env = dict(env)
        body_env.update(binds)
        m = Merge(self, body_env, heap, key_name, k0)
        member = it.member(k0)
        m.block(s.body, member)
        # raise inside the body: exists a key in the domain with the raise guard
        for g, exc in m.raises:
            kk = fresh('kr', I)
            cond = z3.substitute(g, (k0, kk))
            if self.decide(cond):
                raise _Raise(exc)
            else:
                # no key raises: pc now holds Not(cond) for ONE fresh key only; record the universal fact by
                # replacing it with the instantiation-free form: we keep (forall k. not cond(k)) as a side fact
                self.pc.pop()
                self.pc.append(z3.ForAll([kk], z3.Not(cond)))
        # scalar variables assigned in the body are not visible after the loop unless unchanged
        for name in m.assigned_scalars:
            if name in env and name != key_name:
                raise Unsupported(f'loop-carried scalar {name} (line {s.lineno})')
        for oid, cell in m.cells.items():
            if oid in heap.dicts:
                dom, val = heap.dicts[oid]
                ndom = z3.Lambda([k0], z3.If(member, cell.present, z3.Select(dom, k0)))
                nval = z3.Lambda([k0], z3.If(member, cell.value, z3.Select(val, k0)))
                heap.dicts[oid] = (ndom, nval)
            else:
                dom = heap.sets[oid]
                heap.sets[oid] = z3.Lambda([k0], z3.If(member, cell.present, z3.Select(dom, k0)))

    def loop_targets(self, target, it, k0):
        if isinstance(target, ast.Name):
            if it.bind is not None and it.parts == 'value-only':
                raise Unsupported('value-only iteration')
            return target.id, {target.id: k0}
        if isinstance(target, ast.Tuple) and len(target.elts) == 2 and it.bind is not None:
            a, b = target.elts
            if isinstance(a, ast.Name) and isinstance(b, ast.Name):
                return a.id, {a.id: k0, b.id: it.bind(k0)}
        raise Unsupported('loop target')

    # ---------------------------------------------------------------- expressions
    def expr(self, n, env, heap):
        if isinstance(n, ast.Constant):
            return PyConst(n.value)
        if isinstance(n, ast.Name):
            if n.id in env: return env[n.id]
            if n.id in ('float', 'range', 'len', 'tuple', 'enumerate', 'sum', 'abs', 'set', 'dict', 'list', 'sorted', 'max', 'min', 'bool'):
                return PyConst(('builtin', n.id))
            if n.id in ('SparseVector', 'SparseLogicalVector', 'SparseArray'):
                return Cls(n.id)
            if n.id in self.globals:
                g = self.globals[n.id]
                if isinstance(g, (int, float, str, bool)) or g is None: return PyConst(g)
            raise Unsupported(f'name {n.id}')
        if isinstance(n, ast.Attribute):
            o = self.expr(n.value, env, heap)
            if isinstance(o, (SV, SLV)):
                f = heap.objs[o.oid]
                if n.attr in ('dct', 'set'): return f['dct']
                if n.attr == 'size': return f['size']
                if n.attr == 'read_only': return f['read_only']
                if n.attr == '__class__': return Cls(f['cls'])
                if n.attr == 'dtype': return PyConst(('dtype', 'float' if f['cls'] == 'SparseVector' else 'bool'))
            return PyConst(('method', o, n.attr))
        if isinstance(n, ast.BinOp):
            return self.binop(n.op, self.expr(n.left, env, heap), self.expr(n.right, env, heap))
        if isinstance(n, ast.UnaryOp):
            v = self.expr(n.operand, env, heap)
            if isinstance(n.op, ast.Not): return z3.Not(self.truth(v, heap))
            if isinstance(n.op, ast.USub):
                return -to_real(v) if not (z3.is_expr(v) and z3.is_int(v)) else -v
            if isinstance(n.op, ast.UAdd): return v
            raise Unsupported('unary op')
        if isinstance(n, ast.BoolOp):
            vals = [self.expr(v, env, heap) for v in n.values]
            ts = [self.truth(v, heap) for v in vals]
            return z3.And(*ts) if isinstance(n.op, ast.And) else z3.Or(*ts)
        if isinstance(n, ast.Compare):
            left = self.expr(n.left, env, heap)
            res = []
            for op, rn in zip(n.ops, n.comparators):
                right = self.expr(rn, env, heap)
                res.append(self.compare(op, left, right, heap))
                left = right
            return z3.And(*res) if len(res) > 1 else res[0]
        if isinstance(n, ast.IfExp):
            c = truth(self.expr(n.test, env, heap))
            a = self.expr(n.body, env, heap); b = self.expr(n.orelse, env, heap)
            return self.ite(c, a, b)
        if isinstance(n, ast.Subscript):
            o = self.expr(n.value, env, heap)
            k = self.expr(n.slice, env, heap)
            return self.subscript(o, k, heap)
        if isinstance(n, ast.Call):
            return self.call(n, env, heap)
        if isinstance(n, ast.Tuple):
            return Tup([self.expr(e, env, heap) for e in n.elts])
        if isinstance(n, ast.NamedExpr):
            v = self.expr(n.value, env, heap)
            env[n.target.id] = v
            return v
        if isinstance(n, (ast.DictComp, ast.SetComp)):
            return self.comprehension(n, env, heap)
        if isinstance(n, ast.ListComp):
            # a list of keys: only usable as an iterable of keys afterwards
            st = self.comprehension(n, env, heap)
            dom = heap.sets[st.oid]
            return KeyIter(lambda k, dom=dom: z3.Select(dom, k))
        if isinstance(n, ast.List):
            # [*dct, *other] : concatenation of key iterables
            if n.elts and all(isinstance(e, ast.Starred) for e in n.elts):
                its = [self.iter_desc(e.value, env, heap) for e in n.elts]
                return KeyIter(lambda k, its=its: z3.Or(*[i.member(k) for i in its]))
            raise Unsupported('list literal')
        if isinstance(n, ast.Set):
            if n.elts and all(isinstance(e, ast.Starred) for e in n.elts):
                its = [self.iter_desc(e.value, env, heap) for e in n.elts]
                k0 = fresh('k', I)
                return heap.new_set(z3.Lambda([k0], z3.Or(*[i.member(k0) for i in its])))
            if not n.elts:
                return heap.new_set()
            raise Unsupported('set literal')
        if isinstance(n, ast.Dict):
            if not n.keys: return heap.new_dict()
            d = heap.new_dict()
            dom, val = heap.dicts[d.oid]
            for kn, vn in zip(n.keys, n.values):
                k = to_int(self.expr(kn, env, heap)); v = to_real(self.expr(vn, env, heap))
                dom = z3.Store(dom, k, z3.BoolVal(True)); val = z3.Store(val, k, v)
            heap.dicts[d.oid] = (dom, val)
            return d
        raise Unsupported(f'expression {type(n).__name__}')

    def ite(self, c, a, b):
        if isinstance(a, PyConst) and isinstance(b, PyConst) and a.v == b.v: return a
        if is_num(a) and is_num(b):
            if (z3.is_expr(a) and z3.is_int(a) or isinstance(a, PyConst) and isinstance(a.v, int)) and \
               (z3.is_expr(b) and z3.is_int(b) or isinstance(b, PyConst) and isinstance(b.v, int)):
                return z3.If(c, to_int(a), to_int(b))
            return z3.If(c, to_real(a), to_real(b))
        if z3.is_expr(a) and z3.is_expr(b) and z3.is_bool(a) and z3.is_bool(b):
            return z3.If(c, a, b)
        if (z3.is_expr(a) and z3.is_bool(a)) or (z3.is_expr(b) and z3.is_bool(b)) or \
           (isinstance(a, PyConst) and isinstance(a.v, bool)) or (isinstance(b, PyConst) and isinstance(b.v, bool)):
            return z3.If(c, truth(a), truth(b))
        raise Unsupported('conditional expression over non-scalars')

    def binop(self, op, a, b):
        ints = all((z3.is_expr(x) and z3.is_int(x)) or (isinstance(x, PyConst) and isinstance(x.v, int) and not isinstance(x.v, bool)) for x in (a, b))
        if ints and not isinstance(op, ast.Div):
            x, y = to_int(a), to_int(b)
            if isinstance(op, ast.Add): return x + y
            if isinstance(op, ast.Sub): return x - y
            if isinstance(op, ast.Mult): return x * y
        x, y = to_real(a), to_real(b)
        if isinstance(op, ast.Add): return x + y
        if isinstance(op, ast.Sub): return x - y
        if isinstance(op, ast.Mult): return x * y
        if isinstance(op, ast.Div):
            self.div_obligations.append((list(self.pc) + list(getattr(self, 'merge_guard', [])), y != 0))
            return x / y
        raise Unsupported(f'operator {type(op).__name__}')

    def compare(self, op, a, b, heap):
        if isinstance(op, (ast.Is, ast.IsNot)):
            same = self.identical(a, b)
            return z3.BoolVal(same if isinstance(op, ast.Is) else not same)
        if isinstance(op, (ast.In, ast.NotIn)):
            if isinstance(b, Dict):
                r = z3.Select(heap.dicts[b.oid][0], to_int(a))
            elif isinstance(b, Set):
                r = z3.Select(heap.sets[b.oid], to_int(a))
            else:
                raise Unsupported('in on non-container')
            return r if isinstance(op, ast.In) else z3.Not(r)
        if isinstance(a, Cls) or isinstance(b, Cls):
            raise Unsupported('class comparison')
        ints = all((z3.is_expr(x) and z3.is_int(x)) or (isinstance(x, PyConst) and isinstance(x.v, int) and not isinstance(x.v, bool)) for x in (a, b))
        x, y = (to_int(a), to_int(b)) if ints else (to_real(a), to_real(b))
        if isinstance(op, ast.Eq): return x == y
        if isinstance(op, ast.NotEq): return x != y
        if isinstance(op, ast.Lt): return x < y
        if isinstance(op, ast.LtE): return x <= y
        if isinstance(op, ast.Gt): return x > y
        if isinstance(op, ast.GtE): return x >= y
        raise Unsupported('comparison')

    def identical(self, a, b):
        for T in (Dict, Set, SV, SLV):
            if isinstance(a, T) and isinstance(b, T): return a.oid == b.oid
        if isinstance(a, Cls) and isinstance(b, Cls): return a.name == b.name
        if isinstance(a, PyConst) and isinstance(b, PyConst): return a.v is b.v
        return False

    def subscript(self, o, k, heap):
        if isinstance(o, Dict):
            dom, val = heap.dicts[o.oid]
            k = to_int(k)
            if not self.decide(z3.Select(dom, k)):
                raise _Raise('KeyError')
            return z3.Select(val, k)
        if isinstance(o, Arr):
            k = to_int(k)
            # index in range is an internal obligation
            self.obligations.append(('array index in range', list(self.pc) + list(getattr(self, 'merge_guard', [])),
                                     z3.And(k >= 0, k < o.n)))
            return z3.Select(o.vals, k)
        raise Unsupported(f'subscript on {type(o).__name__}')

    def call(self, n, env, heap):
        f = self.expr(n.func, env, heap)
        args = [self.expr(a, env, heap) for a in n.args]
        if isinstance(f, PyConst) and isinstance(f.v, tuple) and f.v[0] == 'builtin':
            name = f.v[1]
            if name == 'float': return to_real(args[0])
            if name == 'bool': return self.truth(args[0], heap)
            if name == 'abs':
                x = to_real(args[0]); return z3.If(x >= 0, x, -x)
            if name == 'len':
                a = args[0]
                if isinstance(a, Arr): return a.n
                if isinstance(a, (SV, SLV)): return heap.objs[a.oid]['size']
                if isinstance(a, Dict): return self.cardinality(heap.dicts[a.oid][0], heap)
                if isinstance(a, Set): return self.cardinality(heap.sets[a.oid], heap)
                raise Unsupported('len')
            if name == 'range':
                if len(args) == 1:
                    nn = to_int(args[0])
                    return KeyIter(lambda k, nn=nn: z3.And(k >= 0, k < nn))
                if len(args) == 2:
                    lo, nn = to_int(args[0]), to_int(args[1])
                    return KeyIter(lambda k, lo=lo, nn=nn: z3.And(k >= lo, k < nn))
                raise Unsupported('range with step')
            if name == 'tuple' or name == 'list' or name == 'sorted':
                return self.as_iter(args[0], heap)
            if name == 'enumerate':
                a = args[0]
                if isinstance(a, Arr):
                    return KeyIter(lambda k, a=a: z3.And(k >= 0, k < a.n), bind=lambda k, a=a: z3.Select(a.vals, k))
                raise Unsupported('enumerate over non-array')
            if name == 'set':
                if not args: return heap.new_set()
                it = self.as_iter(args[0], heap)
                k0 = fresh('k', I)
                return heap.new_set(z3.Lambda([k0], it.member(k0)))
            raise Unsupported(f'builtin {name}')
        if isinstance(f, PyConst) and isinstance(f.v, tuple) and f.v[0] == 'method':
            _, o, m = f.v
            return self.method(o, m, args, heap, n)
        raise Unsupported('call')

    def cardinality(self, dom, heap):
        c = self.card(dom)
        self.side.append(c >= 0)
        self.side.append(self.nonempty(dom) == (c > 0))
        self.nonempty_doms.append(dom)
        return c

    def method(self, o, m, args, heap, node):
        if isinstance(o, Dict):
            dom, val = heap.dicts[o.oid]
            if m == 'copy': return heap.new_dict(dom, val)
            if m == 'clear':
                heap.dicts[o.oid] = (z3.K(I, z3.BoolVal(False)), val); return PyConst(None)
            if m == 'get':
                k = to_int(args[0]); d = to_real(args[1]) if len(args) > 1 else None
                if d is None: raise Unsupported('get without default')
                return z3.If(z3.Select(dom, k), z3.Select(val, k), d)
            if m == 'pop':
                k = to_int(args[0])
                if len(args) == 1:
                    if not self.decide(z3.Select(dom, k)): raise _Raise('KeyError')
                    heap.dicts[o.oid] = (z3.Store(dom, k, z3.BoolVal(False)), val)
                    return z3.Select(val, k)
                raise Unsupported('pop with default')
            if m == 'items':
                return KeyIter(lambda k, dom=dom: z3.Select(dom, k), bind=lambda k, val=val: z3.Select(val, k))
            if m == 'keys':
                return KeyIter(lambda k, dom=dom: z3.Select(dom, k))
            if m == 'update':
                a = args[0]
                if isinstance(a, Dict):
                    odom, oval = heap.dicts[a.oid]
                    k0 = fresh('k', I)
                    heap.dicts[o.oid] = (z3.Lambda([k0], z3.Or(z3.Select(dom, k0), z3.Select(odom, k0))),
                                         z3.Lambda([k0], z3.If(z3.Select(odom, k0), z3.Select(oval, k0), z3.Select(val, k0))))
                    return PyConst(None)
            raise Unsupported(f'dict.{m}')
        if isinstance(o, Set):
            dom = heap.sets[o.oid]
            if m == 'copy': return heap.new_set(dom)
            k0 = fresh('k', I)
            if m == 'clear':
                heap.sets[o.oid] = z3.K(I, z3.BoolVal(False)); return PyConst(None)
            if m in ('difference_update', 'update', 'intersection_update', 'symmetric_difference_update',
                     'difference', 'symmetric_difference', 'union', 'intersection'):
                it = self.as_iter(args[0], heap)
                a_, b_ = z3.Select(dom, k0), it.member(k0)
                body = {'difference': z3.And(a_, z3.Not(b_)), 'update': z3.Or(a_, b_), 'union': z3.Or(a_, b_),
                        'intersection': z3.And(a_, b_), 'symmetric_difference': z3.Xor(a_, b_)}[m.replace('_update', '') if m != 'update' else 'update']
                lam = z3.Lambda([k0], body)
                if m.endswith('update'):
                    heap.sets[o.oid] = lam; return PyConst(None)
                return heap.new_set(lam)
            if m in ('add', 'discard', 'remove'):
                k = to_int(args[0])
                if m == 'remove' and not self.decide(z3.Select(dom, k)): raise _Raise('KeyError')
                heap.sets[o.oid] = z3.Store(dom, k, z3.BoolVal(m == 'add')); return PyConst(None)
            raise Unsupported(f'set.{m}')
        if isinstance(o, Cls):
            if o.name == 'SparseVector' and m == 'from_dict':
                d, size = args
                if not isinstance(d, Dict): raise Unsupported('from_dict of non-dict')
                return heap.new_sv(d, to_int(size))
            if o.name == 'SparseLogicalVector' and m == 'from_set':
                d, size = args
                if isinstance(d, Dict):
                    d = heap.new_set(heap.dicts[d.oid][0])
                if not isinstance(d, Set): raise Unsupported('from_set of non-set')
                return heap.new_sv(d, to_int(size), cls='SparseLogicalVector')
        raise Unsupported(f'method {m} on {type(o).__name__}')

    # ---------------------------------------------------------------- comprehensions
    def comprehension(self, n, env, heap):
        if len(n.generators) != 1: raise Unsupported('nested comprehension')
        g = n.generators[0]
        it = self.iter_desc(g.iter, env, heap)
        k0 = fresh('k', I)
        key_name, binds = self.loop_targets(g.target, it, k0)
        e = dict(env); e.update(binds)
        m = Merge(self, e, heap, key_name, k0)
        guard = it.member(k0)
        for cond in g.ifs:
            guard = z3.And(guard, truth(m.expr(cond, guard)))
        if isinstance(n, ast.ListComp):
            n = ast.SetComp(elt=n.elt, generators=n.generators)
        if isinstance(n, ast.DictComp):
            kexpr = m.expr(n.key, guard)
            if not (z3.is_expr(kexpr) and kexpr.eq(k0)):
                raise Unsupported('dict comprehension key is not the loop key')
            v = to_real(m.expr(n.value, guard))
            if m.raises: raise Unsupported('raise in comprehension')
            return heap.new_dict(z3.Lambda([k0], guard), z3.Lambda([k0], v))
        kexpr = m.expr(n.elt, guard)
        if not (z3.is_expr(kexpr) and kexpr.eq(k0)):
            raise Unsupported('set comprehension element is not the loop key')
        return heap.new_set(z3.Lambda([k0], guard))


class Cell:
    def __init__(self, present, value):
        self.present, self.value = present, value


class Merge:
    """Executes a loop body / comprehension once for a fresh key k0, merging branches with ite."""

    def __init__(self, ex, env, heap, key_name, k0):
        self.ex, self.env, self.heap, self.key_name, self.k0 = ex, env, heap, key_name, k0
        self.cells = {}
        self.raises = []
        self.assigned_scalars = set()
        self.skip = z3.BoolVal(False)     # set by `continue`

    def cell(self, oid):
        c = self.cells.get(oid)
        if c is None:
            if oid in self.heap.dicts:
                dom, val = self.heap.dicts[oid]
                c = Cell(z3.Select(dom, self.k0), z3.Select(val, self.k0))
            else:
                c = Cell(z3.Select(self.heap.sets[oid], self.k0), None)
            self.cells[oid] = c
        return c

    def is_key(self, v):
        return z3.is_expr(v) and v.eq(self.k0)

    def block(self, stmts, guard):
        for s in stmts:
            guard_eff = z3.And(guard, z3.Not(self.skip))
            self.stmt(s, guard_eff)

    def stmt(self, s, g):
        if isinstance(s, ast.If):
            c = truth(self.expr(s.test, g))
            self.block(s.body, z3.And(g, c))
            self.block(s.orelse, z3.And(g, z3.Not(c)))
            return
        if isinstance(s, ast.Continue):
            self.skip = z3.Or(self.skip, g); return
        if isinstance(s, ast.Raise):
            self.raises.append((z3.simplify(g), _exc_name(s.exc)));
            self.skip = z3.Or(self.skip, g)
            return
        if isinstance(s, ast.Assign):
            v = self.expr(s.value, g)
            for t in s.targets: self.assign(t, v, g)
            return
        if isinstance(s, ast.AugAssign):
            cur = self.expr(_load(s.target), g)
            self.ex.merge_guard = [g]
            try:
                v = self.ex.binop(s.op, cur, self.expr(s.value, g))
            finally:
                self.ex.merge_guard = []
            self.assign(s.target, v, g); return
        if isinstance(s, ast.Delete):
            for t in s.targets:
                if isinstance(t, ast.Subscript):
                    o = self.expr(t.value, g); k = self.expr(t.slice, g)
                    if isinstance(o, Dict) and self.is_key(k):
                        c = self.cell(o.oid)
                        self.ex.obligations.append(('del of a present key', list(self.ex.pc) + [g], c.present))
                        c.present = z3.If(g, z3.BoolVal(False), c.present)
                        continue
                raise Unsupported('del in loop body')
            return
        if isinstance(s, ast.Expr):
            self.expr(s.value, g); return
        if isinstance(s, ast.Pass): return
        raise Unsupported(f'loop-body statement {type(s).__name__} at line {s.lineno}')

    def assign(self, t, v, g):
        if isinstance(t, ast.Name):
            old = self.env.get(t.id)
            self.assigned_scalars.add(t.id)
            if old is None or not (is_num(old) or (z3.is_expr(old) and z3.is_bool(old))):
                self.env[t.id] = v     # first definition on this path (use under the same guard is the program's business)
            else:
                self.env[t.id] = self.ex.ite(g, v, old)
            return
        if isinstance(t, ast.Subscript):
            o = self.expr(t.value, g); k = self.expr(t.slice, g)
            if isinstance(o, Dict) and self.is_key(k):
                c = self.cell(o.oid)
                c.present = z3.If(g, z3.BoolVal(True), c.present)
                c.value = z3.If(g, to_real(v), c.value)
                return
            raise Unsupported('store at a key other than the loop key')
        raise Unsupported('assignment target in loop body')

    def expr(self, n, g):
        ex = self.ex
        if isinstance(n, ast.Name) or isinstance(n, ast.Constant) or isinstance(n, ast.Attribute):
            return ex.expr(n, self.env, self.heap)
        if isinstance(n, ast.Subscript):
            o = self.expr(n.value, g); k = self.expr(n.slice, g)
            if isinstance(o, Dict):
                if not self.is_key(k): raise Unsupported('read at a key other than the loop key')
                c = self.cell(o.oid)
                ex.obligations.append(('dict read of a present key', list(ex.pc) + [g], c.present))
                return c.value
            if isinstance(o, Arr):
                kk = to_int(k)
                ex.obligations.append(('array index in range', list(ex.pc) + [g], z3.And(kk >= 0, kk < o.n)))
                return z3.Select(o.vals, kk)
            raise Unsupported('subscript in loop body')
        if isinstance(n, ast.Compare) and len(n.ops) == 1 and isinstance(n.ops[0], (ast.In, ast.NotIn)):
            a = self.expr(n.left, g); b = self.expr(n.comparators[0], g)
            if isinstance(b, (Dict, Set)):
                if not self.is_key(a): raise Unsupported('membership test of a key other than the loop key')
                r = self.cell(b.oid).present
                return r if isinstance(n.ops[0], ast.In) else z3.Not(r)
            raise Unsupported('in on non-container')
        if isinstance(n, ast.Compare):
            left = self.expr(n.left, g); res = []
            for op, rn in zip(n.ops, n.comparators):
                right = self.expr(rn, g)
                res.append(ex.compare(op, left, right, self.heap)); left = right
            return z3.And(*res) if len(res) > 1 else res[0]
        if isinstance(n, ast.BinOp):
            a = self.expr(n.left, g); b = self.expr(n.right, g)
            ex.merge_guard = [g]
            try: return ex.binop(n.op, a, b)
            finally: ex.merge_guard = []
        if isinstance(n, ast.UnaryOp):
            v = self.expr(n.operand, g)
            if isinstance(n.op, ast.Not): return z3.Not(truth(v))
            if isinstance(n.op, ast.USub): return -to_real(v)
            raise Unsupported('unary')
        if isinstance(n, ast.BoolOp):
            # short-circuit matters for guards of reads: evaluate sequentially
            acc = None
            gg = g
            for vnode in n.values:
                t = truth(self.expr(vnode, gg))
                if acc is None: acc = t
                else: acc = z3.And(acc, t) if isinstance(n.op, ast.And) else z3.Or(acc, t)
                gg = z3.And(g, acc) if isinstance(n.op, ast.And) else z3.And(g, z3.Not(acc))
            return acc
        if isinstance(n, ast.IfExp):
            c = truth(self.expr(n.test, g))
            a = self.expr(n.body, z3.And(g, c)); b = self.expr(n.orelse, z3.And(g, z3.Not(c)))
            return ex.ite(c, a, b)
        if isinstance(n, ast.NamedExpr):
            v = self.expr(n.value, g)
            self.env[n.target.id] = v
            return v
        if isinstance(n, ast.Call):
            f = n.func
            fid = f.id if isinstance(f, ast.Name) else None
            if fid is not None and fid in self.env:
                bound = self.env[fid]
                if isinstance(bound, PyConst) and isinstance(bound.v, tuple) and bound.v[0] == 'builtin':
                    fid = bound.v[1]
            if fid in ('float', 'abs', 'bool'):
                v = self.expr(n.args[0], g)
                if fid == 'float': return to_real(v)
                if fid == 'bool': return truth(v)
                x = to_real(v); return z3.If(x >= 0, x, -x)
            # a bound method kept in a local before the loop (`get = dct.get`, `add = set.add`) is the same call
            m_obj = m_name = None
            if isinstance(f, ast.Attribute):
                m_name = f.attr
            elif fid is not None and fid in self.env and isinstance(self.env[fid], PyConst) and isinstance(self.env[fid].v, tuple) \
                    and self.env[fid].v[0] == 'method':
                _, m_obj, m_name = self.env[fid].v
            if m_name in ('add', 'discard', 'remove'):
                o = m_obj if m_obj is not None else self.expr(f.value, g)
                if isinstance(o, Set):
                    k = self.expr(n.args[0], g)
                    if not self.is_key(k): raise Unsupported('set update at a key other than the loop key')
                    c = self.cell(o.oid)
                    if m_name == 'remove':
                        ex.obligations.append(('set.remove of a present key', list(ex.pc) + [g], c.present))
                    c.present = z3.If(g, z3.BoolVal(m_name == 'add'), c.present)
                    return PyConst(None)
            if m_name == 'get':
                o = m_obj if m_obj is not None else self.expr(f.value, g)
                if isinstance(o, Dict):
                    k = self.expr(n.args[0], g); d = to_real(self.expr(n.args[1], g))
                    if not self.is_key(k): raise Unsupported('get at a key other than the loop key')
                    c = self.cell(o.oid)
                    return z3.If(c.present, c.value, d)
            raise Unsupported('call in loop body')
        raise Unsupported(f'loop-body expression {type(n).__name__}')


def _load(t):
    import copy
    t2 = copy.deepcopy(t)
    for node in ast.walk(t2):
        if hasattr(node, 'ctx'): node.ctx = ast.Load()
    return t2


def _exc_name(e):
    if e is None: return 'reraise'
    if isinstance(e, ast.Call): e = e.func
    if isinstance(e, ast.Name): return e.id
    if isinstance(e, ast.Attribute): return e.attr
    return 'Exception'


def get_function_ast(func=None, source=None, name=None):
    """FunctionDef of a real function (via inspect) or of generated source text (template expansion)."""
    if source is None:
        source = inspect.getsource(func)
        name = None
    source = textwrap.dedent(source)
    mod = ast.parse(source)
    for node in mod.body:
        if isinstance(node, ast.FunctionDef) and (name is None or node.name == name):
            return node, source
    raise Unsupported('no function definition found')
