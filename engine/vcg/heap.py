# -*- coding: utf-8 -*-
"""
Mode U for the flowsheet port lists (C18): an AST executor over a SYMBOLIC HEAP of
arbitrary size (Burstall/Bornat memory model, object identities = integers, None = 0):

    kind   : Ref -> Int     class tag (1 Unit, 2 Stream, 3 MissingStream, 4 Inlets, 5 Outlets)
    sink   : Ref -> Ref     `_sink`   (streams, placeholders; for an Inlets object: the owning unit)
    source : Ref -> Ref     `_source` (streams, placeholders; for an Outlets object: the owning unit)
    ins    : Ref -> Ref     `_ins` / `.ins`  of a unit
    outs   : Ref -> Ref     `_outs` / `.outs` of a unit
    llen   : Ref -> Int     len(seq._streams)
    elem   : Ref -> (Int -> Ref)   seq._streams[i]
    fsize  : Ref -> Int     `_size`;  fixed : Ref -> Bool  `_fixed_size`
    alloc  : Ref -> Bool    allocated objects (object creation picks an unallocated identity)

The source of every method is read from the imported /repo module on every run
(inspect.getsource on the class found by the receiver's static class), calls are inlined
(depth-bounded), top-level control flow is explored path by path, loops over a port list
whose body only writes fields of the current element are summarised by a lambda
(no unrolling, any list length).  Dropped: docstrings, `warn(...)` calls together with the
`if` that only guards them, the `stacklevel` arithmetic, type annotations.
"""
import ast
import inspect
import textwrap
import itertools
import z3

I, B = z3.IntSort(), z3.BoolSort()
AII = z3.ArraySort(I, I)
UNIT, STREAM, MISSING, INLETS, OUTLETS = 1, 2, 3, 4, 5
FIELDS = ('kind', 'sink', 'source', 'ins', 'outs', 'llen', 'elem', 'fsize', 'fixed', 'alloc')


class Unsupported(Exception):
    pass


class _Return(Exception):
    def __init__(self, v): self.v = v


class _Raise(Exception):
    def __init__(self, name): self.name = name


class _Infeasible(Exception):
    pass


class _IterationDone(Exception):
    """End of the 'arbitrary iteration' branch of a loop with an invariant (the preservation VCs are recorded)."""


class _Abort(Exception):
    """Path cut by the executor; the VC layer must prove that its path condition is infeasible."""
    def __init__(self, why): self.why = why


_cnt = itertools.count()


def fresh(name, sort=I):
    return z3.Const(f'{name}!{next(_cnt)}', sort)


class Heap:
    def __init__(self, tag=''):
        self.kind = z3.Const(f'kind{tag}', AII)
        self.sink = z3.Const(f'sink{tag}', AII)
        self.source = z3.Const(f'source{tag}', AII)
        self.ins = z3.Const(f'ins{tag}', AII)
        self.outs = z3.Const(f'outs{tag}', AII)
        self.llen = z3.Const(f'llen{tag}', AII)
        self.elem = z3.Const(f'elem{tag}', z3.ArraySort(I, AII))
        self.fsize = z3.Const(f'fsize{tag}', AII)
        self.fixed = z3.Const(f'fixed{tag}', z3.ArraySort(I, B))
        self.alloc = z3.Const(f'alloc{tag}', z3.ArraySort(I, B))

    def copy(self):
        h = Heap.__new__(Heap)
        for f in FIELDS: setattr(h, f, getattr(self, f))
        return h

    def el(self, S, i):
        return z3.Select(z3.Select(self.elem, S), i)

    def member(self, S, x, j=None):
        j = j if j is not None else fresh('j')
        return z3.Exists([j], z3.And(j >= 0, j < z3.Select(self.llen, S), self.el(S, j) == x))


# ----------------------------------------------------------------------------- values

class Ref:
    """A reference (Int term) with its static class: 'Unit', 'Inlets', 'Outlets', 'StreamLike', or None (unknown)."""
    def __init__(self, t, cls): self.t, self.cls = t, cls


class IntV:
    def __init__(self, t): self.t = t


class BoolV:
    def __init__(self, t): self.t = t


class ListV:
    """The raw `_streams` list of the sequence object `seq` (identified with it)."""
    def __init__(self, seq): self.seq = seq


class ExtSeq:
    """An immutable sequence of references handed in by the caller (a tuple/list argument): length n, elements arr[0..n)."""
    def __init__(self, n, arr): self.n, self.arr = n, arr


class SliceV:
    """slice(a, b) with non-negative bounds (b_none: the stop is None, i.e. 'to the end'); step None."""
    def __init__(self, a, b, b_none): self.a, self.b, self.b_none = a, b, b_none

    def bounds(self, n):
        """(lo, hi) after Python's clamping to a list of length n."""
        lo = z3.If(self.a > n, n, self.a)
        hi = z3.If(self.b_none, n, z3.If(self.b > n, n, self.b))
        hi = z3.If(hi < lo, lo, hi)
        return lo, hi


class SubListV:
    """seq._streams[lo:hi] (a copy taken at this moment: elements frozen in `row`)."""
    def __init__(self, seq, lo, hi, row): self.seq, self.lo, self.hi, self.row = seq, lo, hi, row


class ClassV:
    def __init__(self, names): self.names = tuple(names)


class Const:
    def __init__(self, v): self.v = v


class BoundMethod:
    def __init__(self, recv, name): self.recv, self.name = recv, name


class Opaque:
    """Value the model does not track (strings, warnings, stacklevel...)."""
    pass


# The ID of an object: an immutable attribute in every operation under contract, so a function of the object identity
# (not a heap field).  Only equality and truthiness ('' = unregistered = 0) are modelled; two distinct objects may carry
# the same ID (unregistered units all report '').
UID = z3.Function('uid', I, I)


class StrV:
    """A string-valued attribute known only up to identity (t: Int term, 0 = the empty string)."""
    def __init__(self, t): self.t = t


NONE = Ref(z3.IntVal(0), None)


def _static_cls_of_field(cls, attr):
    if attr in ('_ins', 'ins'): return 'Inlets'
    if attr in ('_outs', 'outs'): return 'Outlets'
    if attr in ('_sink', 'sink', '_source', 'source'): return 'Unit'
    return None


class Exec:
    MAX_DEPTH = 12

    def __init__(self, classes, module_globals):
        self.classes = classes            # static class name -> real class object (MRO used for method lookup)
        self.globals = module_globals
        self.src_cache = {}
        self.functions_read = set()

    # ------------------------------------------------------------- sources
    def method_ast(self, static_cls, name):
        cls = self.classes[static_cls]
        f = None
        owner = None
        for k in cls.__mro__:
            if name in k.__dict__:
                f = k.__dict__[name]; owner = k; break
        if f is None:
            raise Unsupported(f'no method {name} on {static_cls}')
        if isinstance(f, property):
            f = f.fget
        if isinstance(f, (classmethod, staticmethod)):
            f = f.__func__
        if getattr(f, '__closure__', None) and f.__code__.co_name == 'g' and 'DOCKING_WARNINGS' in f.__code__.co_names:
            # @ignore_docking_warnings: the wrapper only switches the global warning flag around the call (dropped, like warn)
            inner = [c.cell_contents for c in f.__closure__ if callable(c.cell_contents)]
            if len(inner) == 1: f = inner[0]
        key = (owner.__name__, name)
        if key not in self.src_cache:
            src = textwrap.dedent(inspect.getsource(f))
            fdef = next(n for n in ast.parse(src).body if isinstance(n, ast.FunctionDef))
            self.src_cache[key] = fdef
            self.functions_read.add(f'{owner.__module__}:{owner.__name__}.{name}')
        return self.src_cache[key]

    # ------------------------------------------------------------- driver: all paths of one call
    def run(self, static_cls, name, recv, args, heap, pre, hyps=()):
        """Explore every path of recv.name(*args).  Returns outcomes [(kind, pc, heap, value|excname)].
        `hyps` (the invariant of the pre-state, quantified) is only used to prune infeasible branches."""
        outs = []
        work = [[]]
        self.prune = z3.Solver()
        # branch pruning only needs refutations: E-matching without MBQI answers them in milliseconds; `unknown` = explore
        self.prune.set('auto_config', False); self.prune.set('smt.mbqi', False)
        self.prune.set('timeout', int(__import__('os').environ.get('VERIF_PRUNE_MS', '1500')))
        for hh in hyps: self.prune.add(hh)
        self.pruned = 0
        self.out_cands = []          # parallel to outs: the witness candidates in force at the end of each path
        cands_init = self.cands_now
        while work:
            self.prefix = work.pop(); self.pos = 0; self.taken = []; self.alts = []
            self.pc = list(pre)
            self.cands_now = cands_init
            h = heap.copy()
            n_before = len(outs)
            try:
                v = self.call_method(static_cls, name, recv, args, h, 0)
                outs.append(('return', list(self.pc), h, v))
            except _Raise as r:
                outs.append(('raise', list(self.pc), h, r.name))
            except _Infeasible:
                pass
            except _Abort as a:
                outs.append(('abort', list(self.pc), h, a.why))
            except _IterationDone:
                outs.append(('iteration', list(self.pc), h, None))
            if len(outs) > n_before: self.out_cands.append(self.cands_now)
            work.extend(self.alts)
        self.cands_now = cands_init
        return outs

    def decide(self, cond):
        cond = z3.simplify(cond)
        if z3.is_true(cond): return True
        if z3.is_false(cond): return False
        if self.pos < len(self.prefix):
            out = self.prefix[self.pos]
        else:
            can_t = self.prune.check(*(self.pc + [cond])) != z3.unsat
            can_f = self.prune.check(*(self.pc + [z3.Not(cond)])) != z3.unsat
            if can_t and can_f:
                out = True
                self.alts.append(self.taken + [False])
            elif can_t or can_f:
                out = can_t
                self.pruned += 1
            else:
                raise _Infeasible()
        self.pos += 1
        self.taken.append(out)
        self.pc.append(cond if out else z3.Not(cond))
        return out

    # ------------------------------------------------------------- calls
    def call_method(self, static_cls, name, recv, args, heap, depth):
        if depth > self.MAX_DEPTH:
            raise _Abort('inlining depth exceeded')
        fdef = self.method_ast(static_cls, name)
        params = [a.arg for a in fdef.args.args]
        env = {}
        vals = [recv] + list(args)
        defaults = fdef.args.defaults
        for i, p in enumerate(params):
            if i < len(vals):
                env[p] = vals[i]
            else:
                d = defaults[i - (len(params) - len(defaults))]
                env[p] = self.expr(d, {}, heap, depth)
        try:
            self.block(fdef.body, env, heap, depth)
        except _Return as r:
            return r.v
        return NONE

    # ------------------------------------------------------------- statements
    def block(self, stmts, env, heap, depth):
        for s in stmts:
            self.stmt(s, env, heap, depth)

    def stmt(self, s, env, heap, depth):
        if isinstance(s, ast.Expr):
            if isinstance(s.value, ast.Constant): return
            self.expr(s.value, env, heap, depth); return
        if isinstance(s, ast.Assign):
            v = self.expr(s.value, env, heap, depth)
            for t in s.targets: self.assign(t, v, env, heap, depth)
            return
        if isinstance(s, ast.AugAssign):
            if isinstance(s.target, ast.Name) and s.target.id == 'stacklevel':
                return
            cur = self.expr(_load(s.target), env, heap, depth)
            v = self.binop(s.op, cur, self.expr(s.value, env, heap, depth))
            self.assign(s.target, v, env, heap, depth); return
        if isinstance(s, ast.If):
            if _only_warns(s.body) and not s.orelse:
                return                                         # `if ...: warn(...)` dropped
            c = self.truth(self.expr(s.test, env, heap, depth), heap)
            if self.decide(c): self.block(s.body, env, heap, depth)
            else: self.block(s.orelse, env, heap, depth)
            return
        if isinstance(s, ast.Return):
            raise _Return(self.expr(s.value, env, heap, depth) if s.value is not None else NONE)
        if isinstance(s, ast.Raise):
            raise _Raise(_exc_name(s.exc, env))
        if isinstance(s, ast.Pass): return
        if isinstance(s, ast.For):
            self.for_loop(s, env, heap, depth); return
        if isinstance(s, ast.Try):
            self.try_stmt(s, env, heap, depth); return
        raise Unsupported(f'statement {type(s).__name__} (line {s.lineno})')

    def try_stmt(self, s, env, heap, depth):
        if s.finalbody: raise Unsupported('try/finally')
        try:
            self.block(s.body, env, heap, depth)
        except _Raise as r:
            for h in s.handlers:
                names = _handler_names(h)
                if names is None or r.name in names:
                    if h.name: env[h.name] = Const(('exception', r.name))
                    self.block(h.body, env, heap, depth)
                    return
            raise
        else:
            self.block(s.orelse, env, heap, depth)

    def assign(self, t, v, env, heap, depth):
        if isinstance(t, ast.Name):
            env[t.id] = v; return
        if isinstance(t, ast.Attribute):
            o = self.expr(t.value, env, heap, depth)
            if not isinstance(o, Ref): raise Unsupported('attribute store on non-object')
            a = t.attr
            if a in ('_sink', '_source'):
                fld = a[1:]
                setattr(heap, fld, z3.Store(getattr(heap, fld), o.t, self.ref(v).t)); return
            if a == '_streams':
                if isinstance(v, ListV) and z3.is_expr(v.seq.t) and v.seq.t.eq(o.t): return
                if isinstance(v, NewList):
                    v.install(o, heap); return
                raise Unsupported('assignment of a foreign list to _streams')
            raise Unsupported(f'attribute store .{a}')
        if isinstance(t, ast.Subscript):
            o = self.expr(t.value, env, heap, depth)
            k = self.expr(t.slice, env, heap, depth)
            if isinstance(o, ListV) and isinstance(k, IntV):
                S = o.seq.t
                inr = z3.And(k.t >= 0, k.t < z3.Select(heap.llen, S))
                if not self.decide(inr): raise _Raise('IndexError')
                heap.elem = z3.Store(heap.elem, S, z3.Store(z3.Select(heap.elem, S), k.t, self.ref(v).t)); return
            if isinstance(o, ListV) and isinstance(k, SliceV):
                # list[lo:hi] = src : old[:lo] + src + old[hi:]
                S = o.seq.t
                n_old = z3.Select(heap.llen, S)
                row = z3.Select(heap.elem, S)
                lo, hi = k.bounds(n_old)
                if isinstance(v, ExtSeq):
                    n_src, at = v.n, (lambda i: z3.Select(v.arr, i))
                elif isinstance(v, NewList):
                    n_src, at = v.N, v.allocate(heap)
                else:
                    raise Unsupported('slice assignment of something else than a sequence')
                j = fresh('j')
                heap.elem = z3.Store(heap.elem, S, z3.Lambda([j], z3.If(j < lo, z3.Select(row, j),
                                                                        z3.If(j < lo + n_src, at(j - lo), z3.Select(row, j - n_src + (hi - lo))))))
                heap.llen = z3.Store(heap.llen, S, n_old - (hi - lo) + n_src)
                return
            if isinstance(o, Ref) and o.cls in ('Inlets', 'Outlets'):
                if isinstance(k, SliceV) and self.contracts.get('slice_assign') is not None:
                    # modular step: the caller is checked against the CONTRACT of the slice assignment (its requires become
                    # obligations here, its ensures are all that is known afterwards), not against its body
                    self.contracts['slice_assign'](self, o, k, v, heap, getattr(t, 'lineno', 0)); return
                self.call_method(o.cls, '__setitem__', o, [k, v], heap, depth + 1); return
            raise Unsupported('subscript store')
        raise Unsupported(f'assignment target {type(t).__name__}')

    # ------------------------------------------------------------- loops over a port list
    def for_loop(self, s, env, heap, depth):
        if s.orelse: raise Unsupported('for-else')
        it = self.expr(s.iter, env, heap, depth)
        if isinstance(it, Ref) and it.cls in ('Inlets', 'Outlets'):
            it = ListV(it)
        if isinstance(it, ExtSeq) and isinstance(s.target, ast.Name):
            return self.for_loop_invariant(s, it, env, heap, depth)
        if not isinstance(it, (ListV, SubListV)) or not isinstance(s.target, ast.Name):
            raise Unsupported('loop over something else than a port list')
        S = it.seq.t
        j0 = fresh('jl')
        e = fresh('e')
        # body executed once for an arbitrary element e = list[j0]
        before = heap.copy()
        if isinstance(it, SubListV):
            lo_, hi_, row_ = it.lo, it.hi, it.row
        else:
            lo_, hi_, row_ = z3.IntVal(0), z3.Select(heap.llen, S), z3.Select(heap.elem, S)
        benv = dict(env); benv[s.target.id] = Ref(e, 'StreamLike')
        saved = (self.pc, self.prefix, self.pos, self.taken, self.alts)
        self.pc = list(self.pc) + [j0 >= lo_, j0 < hi_, z3.Select(row_, j0) == e]
        n_pc = len(self.pc)
        h2 = heap.copy()
        self.prefix, self.pos, self.taken, self.alts = [], 0, [], []
        n_side = len(self.side_obligations)
        try:
            try:
                self.block(s.body, benv, h2, depth)
                branching = bool(self.alts) or len(self.pc) != n_pc
            except (_Raise, _Return, _Abort):
                branching = True
        finally:
            self.pc, self.prefix, self.pos, self.taken, self.alts = saved
        if branching:
            del self.side_obligations[n_side:]
            if self.loop_contract is not None:
                # the body branches or writes elsewhere: inductive invariant over a snapshot of the list (the contract's
                # invariant must state that the list itself is not changed by the body)
                if isinstance(it, ListV):
                    snap = ExtSeq(z3.Select(heap.llen, S), z3.Select(heap.elem, S))
                else:
                    jm = fresh('j')
                    snap = ExtSeq(hi_ - lo_, z3.Lambda([jm], z3.Select(row_, lo_ + jm)))
                return self.for_loop_invariant(s, snap, env, heap, depth)
            raise Unsupported('branching loop body (needs an invariant)')
        x = fresh('x')
        jx = fresh('j')
        inlist = z3.Exists([jx], z3.And(jx >= lo_, jx < hi_, z3.Select(row_, jx) == x))
        for f in FIELDS:
            old, new = getattr(before, f), getattr(h2, f)
            if new.eq(old): continue
            # the body must be a single store at the current element: new == Store(old, e, v) with v independent of e's fields
            if not (z3.is_app_of(new, z3.Z3_OP_STORE) and new.arg(0).eq(old) and new.arg(1).eq(e)):
                raise Unsupported(f'loop body writes {f} elsewhere than at the current element (needs an invariant)')
            v = new.arg(2)
            vx = z3.substitute(v, (e, x))
            setattr(heap, f, z3.Lambda([x], z3.If(inlist, vx, z3.Select(old, x))))

    contracts = {}           # contracts of callees that are applied instead of inlining their bodies (set by the driver)
    loop_contract = None     # set by the driver for methods whose loops need an inductive invariant
    cands_now = None         # candidate witnesses for the goal form of I2 that belong to the heap currently in force

    def for_loop_invariant(self, s, it, env, heap, depth):
        """`for x in <caller's sequence>: body` with an inductive invariant Inv(j, heap) supplied by the contract
        (loop_contract.hyp(j, heap) -> (formulas, cands) / loop_contract.goal(j, heap, cands) -> [(name, formula)]):
          (1) Inv(0, heap at loop entry) is an obligation;
          (2) one branch executes the body once from an ARBITRARY heap satisfying Inv(j), 0 <= j < n, with x = seq[j], records
              Inv(j+1, heap after the body) as obligations and ends there;
          (3) the other branch continues after the loop from an ARBITRARY heap satisfying Inv(n).
        Nothing is unrolled: the sequence and the heap have any size."""
        lc = self.loop_contract
        if lc is None:
            raise Unsupported('loop over a sequence argument (needs a loop contract)')
        if hasattr(lc, 'enter'): lc.enter(heap.copy(), it)
        for nm, goal in lc.goal(z3.IntVal(0), heap, self.cands_now):
            self.side_obligations.append((f'loop invariant holds on entry: {nm}', list(self.pc), goal))
        leave = fresh('leave_loop', B)
        hv = Heap(f'!h{next(_cnt)}')
        if self.decide(leave):
            forms, cands = lc.hyp(it.n, hv)
            self.pc += list(forms)
            self.cands_now = cands
            for f in FIELDS: setattr(heap, f, getattr(hv, f))
            return
        j = fresh('jl')
        forms, cands = lc.hyp(j, hv)
        self.pc += [j >= 0, j < it.n] + list(forms)
        self.cands_now = cands
        for f in FIELDS: setattr(heap, f, getattr(hv, f))
        env = dict(env); env[s.target.id] = Ref(z3.Select(it.arr, j), 'StreamLike')
        self.block(s.body, env, heap, depth)
        for nm, goal in lc.goal(j + 1, heap, cands):
            self.side_obligations.append((f'loop invariant preserved by the body: {nm}', list(self.pc), goal))
        raise _IterationDone()

    # ------------------------------------------------------------- expressions
    def ref(self, v):
        if isinstance(v, Ref): return v
        if isinstance(v, Const) and v.v is None: return NONE
        raise Unsupported(f'expected an object reference, got {type(v).__name__}')

    def truth(self, v, heap):
        if isinstance(v, BoolV): return v.t
        if isinstance(v, Const): return z3.BoolVal(bool(v.v))
        if isinstance(v, IntV): return v.t != 0
        if isinstance(v, StrV): return v.t != 0
        if isinstance(v, Ref):
            if v.cls in ('Inlets', 'Outlets'):
                return z3.And(v.t != 0, z3.Select(heap.llen, v.t) > 0)
            if v.cls == 'Unit':
                return v.t != 0
            # streams: placeholders are falsy (AbstractMissingStream.__bool__), real streams truthy
            return z3.And(v.t != 0, z3.Select(heap.kind, v.t) != MISSING)
        if isinstance(v, ListV):
            return z3.Select(heap.llen, v.seq.t) > 0
        if isinstance(v, Opaque):
            return fresh('opaque', B)
        raise Unsupported(f'truthiness of {type(v).__name__}')

    def expr(self, n, env, heap, depth):
        if isinstance(n, ast.Constant):
            if isinstance(n.value, bool): return BoolV(z3.BoolVal(n.value))
            if isinstance(n.value, int): return IntV(z3.IntVal(n.value))
            if n.value is None: return NONE
            return Opaque()
        if isinstance(n, ast.JoinedStr):
            return Opaque()
        if isinstance(n, ast.Name):
            if n.id in env: return env[n.id]
            if n.id in ('isinstance', 'len', 'int', 'slice', 'range', 'type', 'repr'):
                return Const(('builtin', n.id))
            if n.id in ('AbstractStream', 'AbstractMissingStream'):
                return ClassV([n.id])
            if n.id in ('RuntimeError', 'IndexError', 'TypeError', 'ValueError'):
                return Const(('exc', n.id))
            g = self.globals.get(n.id)
            if isinstance(g, bool): return BoolV(fresh(n.id, B)) if n.id == 'DOCKING_WARNINGS' else BoolV(z3.BoolVal(g))
            if callable(g) and n.id == 'n_missing': return Const(('function', 'n_missing'))
            if n.id == 'warn': return Const(('function', 'warn'))
            raise Unsupported(f'name {n.id}')
        if isinstance(n, ast.Attribute):
            o = self.expr(n.value, env, heap, depth)
            a = n.attr
            if isinstance(o, Ref):
                if a in ('_sink', 'sink') and (o.cls in ('StreamLike', 'Inlets')):
                    return Ref(z3.Select(heap.sink, o.t), 'Unit')
                if a in ('_source', 'source') and (o.cls in ('StreamLike', 'Outlets')):
                    return Ref(z3.Select(heap.source, o.t), 'Unit')
                if a in ('_ins', 'ins') and o.cls == 'Unit':
                    return Ref(z3.Select(heap.ins, o.t), 'Inlets')
                if a in ('_outs', 'outs') and o.cls == 'Unit':
                    return Ref(z3.Select(heap.outs, o.t), 'Outlets')
                if o.cls in ('Inlets', 'Outlets'):
                    if a == '_streams': return ListV(o)
                    if a == '_size': return IntV(z3.Select(heap.fsize, o.t))
                    if a == '_fixed_size': return BoolV(z3.Select(heap.fixed, o.t))
                    if a == 'size': return IntV(z3.Select(heap.llen, o.t))
                    if a == 'MissingStream': return ClassV(['AbstractMissingStream'])
                    if a == 'Stream': return ClassV(['AbstractStream'])
                    if a == 'stream_types': return ClassV(['AbstractStream', 'AbstractMissingStream'])
                if a == 'ID': return StrV(UID(o.t))
                return BoundMethod(o, a)
            if isinstance(o, ListV):
                return BoundMethod(o, a)
            if isinstance(o, Opaque): return Opaque()
            raise Unsupported(f'attribute .{a} of {type(o).__name__}')
        if isinstance(n, ast.Compare):
            left = self.expr(n.left, env, heap, depth)
            res = []
            for op, rn in zip(n.ops, n.comparators):
                right = self.expr(rn, env, heap, depth)
                res.append(self.compare(op, left, right, heap, depth)); left = right
            return BoolV(z3.And(*res) if len(res) > 1 else res[0])
        if isinstance(n, ast.BoolOp):
            # short circuit: evaluate left to right under the accumulated condition (no side effects in this code)
            vals = [self.truth(self.expr(v, env, heap, depth), heap) for v in n.values]
            return BoolV(z3.And(*vals) if isinstance(n.op, ast.And) else z3.Or(*vals))
        if isinstance(n, ast.UnaryOp) and isinstance(n.op, ast.Not):
            return BoolV(z3.Not(self.truth(self.expr(n.operand, env, heap, depth), heap)))
        if isinstance(n, ast.BinOp):
            return self.binop(n.op, self.expr(n.left, env, heap, depth), self.expr(n.right, env, heap, depth))
        if isinstance(n, ast.Subscript):
            o = self.expr(n.value, env, heap, depth)
            k = self.expr(n.slice, env, heap, depth)
            if isinstance(o, ListV) and isinstance(k, IntV):
                S = o.seq.t
                inr = z3.And(k.t >= 0, k.t < z3.Select(heap.llen, S))
                if not self.decide(inr): raise _Raise('IndexError')
                return Ref(heap.el(S, k.t), 'StreamLike')
            if isinstance(o, ListV) and isinstance(k, SliceV):
                S = o.seq.t
                lo, hi = k.bounds(z3.Select(heap.llen, S))
                return SubListV(o.seq, lo, hi, z3.Select(heap.elem, S))
            if isinstance(o, Ref) and o.cls in ('Inlets', 'Outlets') and isinstance(k, IntV):
                return self.expr_sub_seq(o, k, heap)
            raise Unsupported('subscript')
        if isinstance(n, ast.Slice):
            if n.step is not None: raise Unsupported('slice step')
            a = self.expr(n.lower, env, heap, depth) if n.lower is not None else IntV(z3.IntVal(0))
            if n.upper is None:
                return SliceV(a.t, z3.IntVal(0), z3.BoolVal(True))
            b = self.expr(n.upper, env, heap, depth)
            self.obligation('slice bounds are non-negative (negative indices are outside the model)', z3.And(a.t >= 0, b.t >= 0))
            return SliceV(a.t, b.t, z3.BoolVal(False))
        if isinstance(n, ast.Call):
            return self.call(n, env, heap, depth)
        if isinstance(n, ast.Tuple):
            if not n.elts:
                return ExtSeq(z3.IntVal(0), z3.K(I, z3.IntVal(0)))
            vs = [self.expr(e, env, heap, depth) for e in n.elts]
            if all(isinstance(v, ClassV) for v in vs):
                return ClassV([nm for v in vs for nm in v.names])
            return Const(('tuple', vs))
        if isinstance(n, ast.ListComp):
            return self.listcomp(n, env, heap, depth)
        raise Unsupported(f'expression {type(n).__name__}')

    def expr_sub_seq(self, o, k, heap):
        S = o.t
        inr = z3.And(k.t >= 0, k.t < z3.Select(heap.llen, S))
        if not self.decide(inr): raise _Raise('IndexError')
        return Ref(heap.el(S, k.t), 'StreamLike')

    def binop(self, op, a, b):
        if isinstance(a, IntV) and isinstance(b, IntV):
            if isinstance(op, ast.Add): return IntV(a.t + b.t)
            if isinstance(op, ast.Sub): return IntV(a.t - b.t)
        if isinstance(a, Opaque) or isinstance(b, Opaque): return Opaque()
        raise Unsupported('binary operator')

    def compare(self, op, a, b, heap, depth):
        if isinstance(op, (ast.Is, ast.IsNot, ast.Eq, ast.NotEq)) and (isinstance(a, Ref) or isinstance(b, Ref)):
            ra, rb = self.ref(a), self.ref(b)
            r = ra.t == rb.t
            return r if isinstance(op, (ast.Is, ast.Eq)) else z3.Not(r)
        if isinstance(a, StrV) and isinstance(b, StrV) and isinstance(op, (ast.Eq, ast.NotEq)):
            return (a.t == b.t) if isinstance(op, ast.Eq) else (a.t != b.t)
        if isinstance(a, StrV): a = Opaque()
        if isinstance(b, StrV): b = Opaque()
        if isinstance(a, IntV) and isinstance(b, IntV):
            return {ast.Eq: a.t == b.t, ast.NotEq: a.t != b.t, ast.Lt: a.t < b.t, ast.LtE: a.t <= b.t,
                    ast.Gt: a.t > b.t, ast.GtE: a.t >= b.t}[type(op)]
        if isinstance(op, (ast.In, ast.NotIn)):
            x = self.ref(a)
            if isinstance(b, Ref) and b.cls in ('Inlets', 'Outlets'): b = ListV(b)
            if isinstance(b, ListV):
                r = heap.member(b.seq.t, x.t)
                return r if isinstance(op, ast.In) else z3.Not(r)
        if isinstance(a, Opaque) or isinstance(b, Opaque):
            return fresh('opaque', B)
        if isinstance(a, Const) and isinstance(b, Const) and isinstance(op, (ast.Eq, ast.NotEq)):
            return z3.BoolVal((a.v == b.v) == isinstance(op, ast.Eq))
        raise Unsupported('comparison')

    def call(self, n, env, heap, depth):
        f = self.expr(n.func, env, heap, depth)
        args = [self.expr(a, env, heap, depth) for a in n.args]
        if n.keywords: raise Unsupported('keyword arguments')
        if isinstance(f, Const) and isinstance(f.v, tuple):
            tag, name = f.v[0], f.v[1]
            if tag == 'builtin' and name == 'isinstance':
                o, c = args
                if isinstance(c, Const) and c.v == ('builtin', 'int'):
                    return BoolV(z3.BoolVal(isinstance(o, IntV)))
                if isinstance(c, Const) and c.v == ('builtin', 'slice'):
                    return BoolV(z3.BoolVal(isinstance(o, SliceV)))
                if isinstance(c, ClassV):
                    if isinstance(o, IntV): return BoolV(z3.BoolVal(False))
                    o = self.ref(o)
                    k = z3.Select(heap.kind, o.t)
                    alts = []
                    if 'AbstractStream' in c.names: alts.append(k == STREAM)
                    if 'AbstractMissingStream' in c.names: alts.append(k == MISSING)
                    return BoolV(z3.And(o.t != 0, z3.Or(*alts)))
                raise Unsupported('isinstance target')
            if tag == 'builtin' and name == 'len':
                a = args[0]
                if isinstance(a, ListV): return IntV(z3.Select(heap.llen, a.seq.t))
                if isinstance(a, ExtSeq): return IntV(a.n)
                if isinstance(a, Ref) and a.cls in ('Inlets', 'Outlets'): return IntV(z3.Select(heap.llen, a.t))
                raise Unsupported('len')
            if tag == 'builtin' and name in ('type', 'repr'): return Opaque()
            if tag == 'function' and name == 'warn': return NONE
            if tag == 'function' and name == 'n_missing':
                ub, N = args
                if self.decide(ub.t < N.t): raise _Raise('RuntimeError')
                return IntV(ub.t - N.t)
            if tag == 'exc': return Const(('exception-instance', name))
        if isinstance(f, ClassV) and f.names == ('AbstractMissingStream',):
            src, snk = self.ref(args[0]), self.ref(args[1])
            return self.allocate_missing(heap, src.t, snk.t)
        if isinstance(f, BoundMethod):
            return self.bound_call(f, args, heap, depth)
        raise Unsupported('call')

    def allocate_missing(self, heap, src, snk):
        r = fresh('new')
        self.pc.append(z3.And(r != 0, z3.Not(z3.Select(heap.alloc, r))))
        heap.alloc = z3.Store(heap.alloc, r, z3.BoolVal(True))
        heap.kind = z3.Store(heap.kind, r, z3.IntVal(MISSING))
        heap.source = z3.Store(heap.source, r, src)
        heap.sink = z3.Store(heap.sink, r, snk)
        return Ref(r, 'StreamLike')

    def bound_call(self, f, args, heap, depth):
        o, m = f.recv, f.name
        if isinstance(o, ListV):
            S = o.seq.t
            n = z3.Select(heap.llen, S)
            row = z3.Select(heap.elem, S)
            if m == '__len__': return IntV(n)
            if m == 'append':
                x = self.ref(args[0])
                heap.elem = z3.Store(heap.elem, S, z3.Store(row, n, x.t))
                heap.llen = z3.Store(heap.llen, S, n + 1); return NONE
            if m == 'insert':
                i, x = args[0], self.ref(args[1])
                # list.insert clamps the index into [0, len] (non-negative indices only in this model)
                self.obligation('list.insert index is non-negative (negative indices are outside the model)', i.t >= 0)
                ii = z3.If(i.t > n, n, i.t)
                j = fresh('j')
                heap.elem = z3.Store(heap.elem, S, z3.Lambda([j], z3.If(j < ii, z3.Select(row, j), z3.If(j == ii, x.t, z3.Select(row, j - 1)))))
                heap.llen = z3.Store(heap.llen, S, n + 1); return NONE
            if m == 'pop':
                i = args[0]
                if not self.decide(z3.And(i.t >= 0, i.t < n)): raise _Raise('IndexError')
                j = fresh('j')
                v = z3.Select(row, i.t)
                heap.elem = z3.Store(heap.elem, S, z3.Lambda([j], z3.If(j < i.t, z3.Select(row, j), z3.Select(row, j + 1))))
                heap.llen = z3.Store(heap.llen, S, n - 1)
                return Ref(v, 'StreamLike')
            if m == 'index':
                x = self.ref(args[0])
                if not self.decide(heap.member(S, x.t)): raise _Raise('ValueError')
                idx = fresh('idx'); j = fresh('j')
                self.pc.append(z3.And(idx >= 0, idx < n, z3.Select(row, idx) == x.t,
                                      z3.ForAll([j], z3.Implies(z3.And(j >= 0, j < idx), z3.Select(row, j) != x.t))))
                return IntV(idx)
            if m == 'clear':
                heap.llen = z3.Store(heap.llen, S, z3.IntVal(0)); return NONE
            raise Unsupported(f'list.{m}')
        if isinstance(o, Ref):
            if o.cls is None or o.cls == 'Unit':
                raise Unsupported(f'method {m} on {o.cls}')
            cls = o.cls
            if cls == 'StreamLike':
                cls = 'StreamLike'
            return self.call_method(cls, m, o, args, heap, depth + 1)
        raise Unsupported('bound call')

    def obligation(self, name, cond):
        self.side_obligations.append((name, list(self.pc), cond))

    side_obligations = []

    def listcomp(self, n, env, heap, depth):
        # [self._create_missing_stream() for i in range(N)]  -> N fresh placeholders
        if len(n.generators) == 1 and isinstance(n.generators[0].iter, ast.Call) and getattr(n.generators[0].iter.func, 'id', None) == 'range' \
                and not n.generators[0].ifs and isinstance(n.elt, ast.Call):
            N = self.expr(n.generators[0].iter.args[0], env, heap, depth)
            # run the element expression once to learn what kind of object is created
            probe = heap.copy()
            saved_pc = list(self.pc)
            r = self.expr(n.elt, dict(env), probe, depth)
            self.pc = saved_pc
            if not (isinstance(r, Ref) and r.cls == 'StreamLike'):
                raise Unsupported('list comprehension element')
            src = z3.Select(probe.source, r.t); snk = z3.Select(probe.sink, r.t)
            return NewList(self, N.t, src, snk)
        # [f(i) for i in <caller's sequence>]: the element expression is run once for an arbitrary element; it must not
        # branch (under the preconditions) nor touch the heap; the result is the sequence of f(seq[m])
        if len(n.generators) == 1 and not n.generators[0].ifs and isinstance(n.generators[0].target, ast.Name):
            it = self.expr(n.generators[0].iter, env, heap, depth)
            if isinstance(it, ExtSeq):
                j0, e = fresh('jc'), fresh('e')
                saved = (self.pc, self.prefix, self.pos, self.taken, self.alts)
                self.pc = list(self.pc) + [j0 >= 0, j0 < it.n, z3.Select(it.arr, j0) == e]
                n_pc = len(self.pc)
                probe = heap.copy()
                self.prefix, self.pos, self.taken, self.alts = [], 0, [], []
                try:
                    benv = dict(env); benv[n.generators[0].target.id] = Ref(e, 'StreamLike')
                    r = self.expr(n.elt, benv, probe, depth)
                    # decisions pruned to one outcome add their (implied) condition to pc; real forks leave alternatives
                    branching = bool(self.alts)
                finally:
                    self.pc, self.prefix, self.pos, self.taken, self.alts = saved
                if branching or any(not getattr(probe, f).eq(getattr(heap, f)) for f in FIELDS):
                    raise Unsupported('comprehension over a sequence argument whose element expression branches or writes')
                if isinstance(r, Ref) and r.t.eq(e):
                    return ExtSeq(it.n, it.arr)
                raise Unsupported('comprehension over a sequence argument that is not the identity under the preconditions')
        if len(n.generators) == 1 and isinstance(n.generators[0].target, ast.Name) and isinstance(n.elt, ast.Name) \
                and n.elt.id == n.generators[0].target.id:
            it = self.expr(n.generators[0].iter, env, heap, depth)
            if isinstance(it, ListV) or (isinstance(it, Ref) and it.cls in ('Inlets', 'Outlets')):
                return Opaque()          # [i for i in ins if i]: a (filtered) copy of a port list; its content is not modelled
        raise Unsupported('list comprehension')


class NewList:
    """A list of N freshly allocated placeholders (source, sink given)."""
    def __init__(self, ex, N, src, snk):
        self.ex, self.N, self.src, self.snk = ex, N, src, snk

    def allocate(self, heap):
        """Allocate the N placeholders in `heap`; returns the function index -> reference."""
        newobj = z3.Function(f'newobj!{next(_cnt)}', I, I)
        j, j2, x = fresh('j'), fresh('j'), fresh('x')
        N = self.N
        self.ex.pc.append(N >= 0)
        self.ex.pc.append(z3.ForAll([j], z3.Implies(z3.And(j >= 0, j < N), z3.And(newobj(j) != 0, z3.Not(z3.Select(heap.alloc, newobj(j)))))))
        self.ex.pc.append(z3.ForAll([j, j2], z3.Implies(z3.And(j >= 0, j < N, j2 >= 0, j2 < N, j != j2), newobj(j) != newobj(j2))))
        isnew = z3.Exists([j], z3.And(j >= 0, j < N, newobj(j) == x))
        heap.alloc = z3.Lambda([x], z3.Or(isnew, z3.Select(heap.alloc, x)))
        heap.kind = z3.Lambda([x], z3.If(isnew, z3.IntVal(MISSING), z3.Select(heap.kind, x)))
        heap.source = z3.Lambda([x], z3.If(isnew, self.src, z3.Select(heap.source, x)))
        heap.sink = z3.Lambda([x], z3.If(isnew, self.snk, z3.Select(heap.sink, x)))
        return lambda i: newobj(i)

    def install(self, seq, heap):
        newobj = z3.Function(f'newobj!{next(_cnt)}', I, I)
        j, j2, x = fresh('j'), fresh('j'), fresh('x')
        N = self.N
        self.ex.pc.append(z3.ForAll([j], z3.Implies(z3.And(j >= 0, j < N), z3.And(newobj(j) != 0, z3.Not(z3.Select(heap.alloc, newobj(j)))))))
        self.ex.pc.append(z3.ForAll([j, j2], z3.Implies(z3.And(j >= 0, j < N, j2 >= 0, j2 < N, j != j2), newobj(j) != newobj(j2))))
        isnew = z3.Exists([j], z3.And(j >= 0, j < N, newobj(j) == x))
        heap.alloc = z3.Lambda([x], z3.Or(isnew, z3.Select(heap.alloc, x)))
        heap.kind = z3.Lambda([x], z3.If(isnew, z3.IntVal(MISSING), z3.Select(heap.kind, x)))
        heap.source = z3.Lambda([x], z3.If(isnew, self.src, z3.Select(heap.source, x)))
        heap.sink = z3.Lambda([x], z3.If(isnew, self.snk, z3.Select(heap.sink, x)))
        heap.elem = z3.Store(heap.elem, seq.t, z3.Lambda([j], newobj(j)))
        heap.llen = z3.Store(heap.llen, seq.t, N)
        self.ex.pc.append(N >= 0)


def _load(t):
    import copy
    t2 = copy.deepcopy(t)
    for node in ast.walk(t2):
        if hasattr(node, 'ctx'): node.ctx = ast.Load()
    return t2


def _only_warns(body):
    return all(isinstance(s, ast.Expr) and isinstance(s.value, ast.Call) and getattr(s.value.func, 'id', None) == 'warn' for s in body)


def _exc_name(e, env=None):
    if e is None: return 'reraise'
    if isinstance(e, ast.Call): e = e.func
    if isinstance(e, ast.Name):
        if env is not None and e.id in env and isinstance(env[e.id], Const) and isinstance(env[e.id].v, tuple) and env[e.id].v[0] == 'exception':
            return env[e.id].v[1]
        return e.id
    return 'Exception'


def _handler_names(h):
    if h.type is None: return None
    if isinstance(h.type, ast.Name): return {h.type.id}
    if isinstance(h.type, ast.Tuple): return {e.id for e in h.type.elts}
    return None


# ----------------------------------------------------------------------------- the invariant WF

def WF(h, pos=None, cands=None, relax=None):
    """List of (name, closed formula) conjuncts of the well-formedness invariant over an arbitrary heap.
    relax=(S0, j0): the weaker form that holds INSIDE a loop that docks the streams of port list S0 one by one: I1 is only
    demanded of S0's positions < j0 and I4 (fixed size) is not demanded of S0 (it is re-established after the loop).
    pos=(posIn, posOut): I2 in Skolemised form (use for hypotheses).  cands(s, inlet_side) -> candidate witness index terms:
    I2 as a finite disjunction that implies the existential (use for goals)."""
    u, S, s, i, j = z3.Ints('u S s i j')
    k = lambda r: z3.Select(h.kind, r)
    al = lambda r: z3.Select(h.alloc, r)
    ln = lambda r: z3.Select(h.llen, r)
    inr = lambda S_, i_: z3.And(i_ >= 0, i_ < ln(S_))
    plain = z3.is_const(h.elem)      # explicit triggers only make sense on the pre-state (plain array constants)
    pat1 = {'patterns': [h.el(S, i)]} if plain else {}
    pat2 = {'patterns': [z3.MultiPattern(h.el(S, i), h.el(S, j))]} if plain else {}
    C = []
    C.append(('T0: None is not an object', z3.And(z3.Not(al(0)), k(0) == 0)))
    C.append(('T1: every unit owns an Inlets and an Outlets object that point back to it',
              z3.ForAll([u], z3.Implies(z3.And(al(u), k(u) == UNIT),
                                        z3.And(al(z3.Select(h.ins, u)), k(z3.Select(h.ins, u)) == INLETS, z3.Select(h.sink, z3.Select(h.ins, u)) == u,
                                               al(z3.Select(h.outs, u)), k(z3.Select(h.outs, u)) == OUTLETS, z3.Select(h.source, z3.Select(h.outs, u)) == u)))))
    C.append(('T2: every Inlets/Outlets object belongs to the unit it names',
              z3.ForAll([S], z3.And(
                  z3.Implies(z3.And(al(S), k(S) == INLETS), z3.And(al(z3.Select(h.sink, S)), k(z3.Select(h.sink, S)) == UNIT, z3.Select(h.ins, z3.Select(h.sink, S)) == S)),
                  z3.Implies(z3.And(al(S), k(S) == OUTLETS), z3.And(al(z3.Select(h.source, S)), k(z3.Select(h.source, S)) == UNIT, z3.Select(h.outs, z3.Select(h.source, S)) == S))))))
    C.append(('T3: port lists hold allocated streams or placeholders; lengths are non-negative',
              z3.And(z3.ForAll([S], z3.Implies(z3.And(al(S), z3.Or(k(S) == INLETS, k(S) == OUTLETS)), ln(S) >= 0)),
                     z3.ForAll([S, i], z3.Implies(z3.And(al(S), z3.Or(k(S) == INLETS, k(S) == OUTLETS), inr(S, i)),
                                                  z3.And(al(h.el(S, i)), z3.Or(k(h.el(S, i)) == STREAM, k(h.el(S, i)) == MISSING))),
                               **pat1))))
    C.append(('T4: the sink and source of every stream or placeholder is None or a unit',
              z3.ForAll([s], z3.Implies(z3.And(al(s), z3.Or(k(s) == STREAM, k(s) == MISSING)), z3.And(
                  z3.Or(z3.Select(h.sink, s) == 0, z3.And(al(z3.Select(h.sink, s)), k(z3.Select(h.sink, s)) == UNIT)),
                  z3.Or(z3.Select(h.source, s) == 0, z3.And(al(z3.Select(h.source, s)), k(z3.Select(h.source, s)) == UNIT)))))))
    done = (lambda S_, i_: z3.BoolVal(True)) if relax is None else (lambda S_, i_: z3.Or(S_ != relax[0], i_ < relax[1]))
    C.append(('I1: a stream listed among a unit\'s inlets (outlets) has that unit as its sink (source)',
              z3.ForAll([S, i], z3.And(
                  z3.Implies(z3.And(al(S), k(S) == INLETS, inr(S, i), done(S, i)), z3.Select(h.sink, h.el(S, i)) == z3.Select(h.sink, S)),
                  z3.Implies(z3.And(al(S), k(S) == OUTLETS, inr(S, i), done(S, i)), z3.Select(h.source, h.el(S, i)) == z3.Select(h.source, S))),
                        **pat1)))
    def listed(seq_of, owner_field, s_):
        U = z3.Select(owner_field, s_)
        L = z3.Select(seq_of, U)
        if pos is not None:                      # hypothesis form: Skolem function gives the index
            w_ = (pos[0] if seq_of is h.ins else pos[1])(s_)
            return z3.And(inr(L, w_), h.el(L, w_) == s_)
        if cands is not None:                    # goal form: finite disjunction over candidate witnesses (implies the exists)
            return z3.Or(*[z3.And(inr(L, c), h.el(L, c) == s_) for c in cands(s_, seq_of is h.ins)])
        return z3.Exists([i], z3.And(inr(L, i), h.el(L, i) == s_))
    C.append(('I2: a stream whose sink (source) is a unit is listed among that unit\'s inlets (outlets)',
              z3.ForAll([s], z3.Implies(z3.And(al(s), k(s) == STREAM), z3.And(
                  z3.Implies(z3.Select(h.sink, s) != 0,
                             z3.And(al(z3.Select(h.sink, s)), k(z3.Select(h.sink, s)) == UNIT, listed(h.ins, h.sink, s))),
                  z3.Implies(z3.Select(h.source, s) != 0,
                             z3.And(al(z3.Select(h.source, s)), k(z3.Select(h.source, s)) == UNIT, listed(h.outs, h.source, s))))))))
    C.append(('I3: no stream occupies two ports of one list',
              z3.ForAll([S, i, j], z3.Implies(z3.And(al(S), z3.Or(k(S) == INLETS, k(S) == OUTLETS), inr(S, i), inr(S, j), i != j), h.el(S, i) != h.el(S, j)),
                        **pat2)))
    notrel = (lambda S_: z3.BoolVal(True)) if relax is None else (lambda S_: S_ != relax[0])
    C.append(('I4: port lists of fixed size keep their size',
              z3.ForAll([S], z3.Implies(z3.And(al(S), z3.Or(k(S) == INLETS, k(S) == OUTLETS), z3.Select(h.fixed, S), notrel(S)), ln(S) == z3.Select(h.fsize, S)))))
    C.append(('I5: a placeholder belongs to one side only (inlet placeholders have no source, outlet placeholders no sink)',
              z3.ForAll([S, i], z3.And(
                  z3.Implies(z3.And(al(S), k(S) == INLETS, inr(S, i), k(h.el(S, i)) == MISSING), z3.Select(h.source, h.el(S, i)) == 0),
                  z3.Implies(z3.And(al(S), k(S) == OUTLETS, inr(S, i), k(h.el(S, i)) == MISSING), z3.Select(h.sink, h.el(S, i)) == 0)),
                        **pat1)))
    return C
