# -*- coding: utf-8 -*-
"""More kernel contracts for mode U: unary kernels, copies, frame-only mutators."""
import z3
from .core import I, R, B, dense, SV, SLV, Dict, Set, PyConst, Arr
from . import kernels as K

# name -> (kind, expectation on the dense image a=dense(self)[k] (and b=dense(other)[k]))
UNARY = {
    '__neg__':          dict(result='new', f=lambda a, b: -a),
    '__abs__':          dict(result='new', f=lambda a, b: z3.If(a >= 0, a, -a)),
    'copy':             dict(result='new', f=lambda a, b: a),
    'copy_like':        dict(result='none', mutates=True, other=True, f=lambda a, b: b),
    'remove_negatives': dict(result='none', mutates=True, f=lambda a, b: z3.If(a < 0, z3.RealVal(0), a)),
    'clear':            dict(result='none', mutates=True, f=lambda a, b: z3.RealVal(0), read_only_raises=True),
}
TABLE = [(name, ('more', 'unary', name)) for name in UNARY]


def spec_unary(name):
    d = UNARY[name]

    def build():
        p = K.Pre('unary')
        p.vec('self')
        if d.get('other'):
            p.vec('other')
        return p

    def requires(p, terms):
        fs = list(p.facts)
        for t in terms:
            fs.append(p.rep_ok('self', t))
            if d.get('other'): fs.append(p.rep_ok('other', t))
        if d.get('other'):
            fs.append(p.vecs['self']['size'] == p.vecs['other']['size'])
        return fs

    def raises_allowed(p):
        if d.get('read_only_raises'):
            return {'ValueError': p.vecs['self']['read_only']}
        return {}

    def ensures(p, out, k):
        s = p.vecs['self']
        a = dense(s['dom'], s['val'], k)
        b = None
        if d.get('other'):
            o = p.vecs['other']
            b = dense(o['dom'], o['val'], k)
        expect = d['f'](a, b)
        cl = []
        if d.get('read_only_raises'):
            cl.append(('normal return only when not read-only', z3.Not(s['read_only'])))
        if d['result'] == 'new':
            res = out.value
            if not isinstance(res, SV): return [('returns a SparseVector', z3.BoolVal(False))]
            f = out.heap.objs[res.oid]
            cl.append(('returns a new object', z3.BoolVal(res.oid != s['ref'].oid and f['dct'].oid != s['dict'].oid)))
            rdom, rval = out.heap.dicts[f['dct'].oid]
            size = f['size']
            cl.append(('result size = size', size == s['size']))
            sdom, sval = out.heap.dicts[s['dict'].oid]
            cl.append(('frame: self unchanged',
                       z3.And(z3.Select(sdom, k) == z3.Select(s['dom'], k),
                              z3.Implies(z3.Select(sdom, k), z3.Select(sval, k) == z3.Select(s['val'], k)))))
        else:
            cl.append(('returns None', z3.BoolVal(isinstance(out.value, PyConst) and out.value.v is None)))
            rdom, rval = out.heap.dicts[s['dict'].oid]
            size = out.heap.objs[s['ref'].oid]['size']
            cl.append(('size unchanged', size == s['size']))
        cl.append(('dense image = expected function of the dense image(s)',
                   z3.Implies(z3.And(k >= 0, k < size), dense(rdom, rval, k) == expect)))
        cl.append(('rep_ok(result): stored entries in range and non-zero',
                   z3.Implies(z3.Select(rdom, k), z3.And(k >= 0, k < size, z3.Select(rval, k) != 0))))
        if d.get('other'):
            o = p.vecs['other']
            odom, oval = out.heap.dicts[o['dict'].oid]
            cl.append(('frame: other unchanged',
                       z3.And(z3.Select(odom, k) == z3.Select(o['dom'], k),
                              z3.Implies(z3.Select(odom, k), z3.Select(oval, k) == z3.Select(o['val'], k)))))
        return cl

    return dict(build=build, requires=requires, raises_allowed=raises_allowed, ensures=ensures, needs_cover=d['result'] == 'new')


def spec(desc):
    return SPECS[desc[1]](*desc[2:])


SPECS = {'unary': spec_unary}


def native_unary(name, desc, inputs):
    import numpy as np, sys
    sp = sys.modules['thermosteam.base.sparse']
    d = UNARY[name]
    s = inputs['self']
    a = sp.SparseVector.from_dict({int(k): v for k, v in s['dct'].items()}, s['size'])
    if s.get('read_only'): a.read_only = True
    a0 = a.to_array().copy()
    args = []
    b0 = None
    if d.get('other'):
        o = inputs['other']
        b = sp.SparseVector.from_dict({int(k): v for k, v in o['dct'].items()}, o['size'])
        b0 = b.to_array().copy(); args.append(b)
    failed = []
    try:
        r = getattr(a, name)(*args)
    except ValueError as e:
        if not (d.get('read_only_raises') and s.get('read_only')): failed.append(f'unexpected ValueError {e}')
        return failed
    except Exception as e:
        return [f'unexpected {type(e).__name__}: {e}']
    expect = {'__neg__': -a0, '__abs__': abs(a0), 'copy': a0, 'copy_like': b0, 'remove_negatives': np.where(a0 < 0, 0., a0),
              'clear': np.zeros_like(a0)}[name]
    tgt = r if d['result'] == 'new' else a
    if d['result'] == 'new' and (r is a or r.dct is a.dct): failed.append('returns a new object')
    if not np.allclose(tgt.to_array(), expect): failed.append('dense image = expected function of the dense image(s)')
    if any(v == 0 or not (0 <= k < tgt.size) for k, v in tgt.dct.items()): failed.append('rep_ok(result)')
    if d['result'] == 'new' and not np.array_equal(a.to_array(), a0): failed.append('frame: self unchanged')
    return failed


def native_check(name, desc, inputs):
    return NATIVE[desc[1]](name, desc, inputs)


NATIVE = {'unary': native_unary}


# ----------------------------------------------------------------------------- SparseLogicalVector kernels (sets of true positions)

LOGICAL_INPLACE = {'iand': lambda a, b: z3.And(a, b), 'ior': lambda a, b: z3.Or(a, b), 'ixor': lambda a, b: z3.Xor(a, b)}
LOGICAL_CMP = {'eq': lambda a, b: a == b, 'ne': lambda a, b: a != b, 'gt': lambda a, b: z3.And(a, z3.Not(b)),
               'lt': lambda a, b: z3.And(z3.Not(a), b), 'ge': lambda a, b: z3.Or(a, z3.Not(b)), 'le': lambda a, b: z3.Or(z3.Not(a), b)}
for _op in LOGICAL_INPLACE:
    for _kind in ('scalar', 'sparse', 'array'):
        TABLE.append((f'_{_op}_{_kind}', ('more', 'logical', _op, _kind, 'SparseLogicalVector')))
for _op in LOGICAL_CMP:
    TABLE.append((f'_{_op}_sparse', ('more', 'logical', _op, 'sparse', 'SparseLogicalVector')))
TABLE.append(('__invert__', ('more', 'logical', 'invert', 'none', 'SparseLogicalVector')))


class LPre(K.Pre):
    def lvec(self, name):
        dom = z3.Const(f'set_{name}', z3.ArraySort(I, B))
        size = z3.Int(f'size_{name}')
        st = self.heap.new_set(dom)
        sv = self.heap.new_sv(st, size, cls='SparseLogicalVector')
        self.vecs[name] = dict(dom=dom, val=None, size=size, ref=sv, dict=st, read_only=z3.BoolVal(False))
        self.facts.append(size >= 0)
        self.env[name] = sv
        return sv

    def rep_ok(self, name, t):
        v = self.vecs[name]
        return z3.Implies(z3.Select(v['dom'], t), z3.And(t >= 0, t < v['size']))


def spec_logical(op, kind, cls):
    inplace = op in LOGICAL_INPLACE

    def build():
        p = LPre('logical')
        p.lvec('self')
        if kind == 'sparse':
            p.lvec('other'); p.osize = p.vecs['other']['size']
            p.oget = lambda k: z3.Select(p.vecs['other']['dom'], k)
        elif kind == 'array':
            n = z3.Int('len_other'); vals = z3.Const('vals_other', z3.ArraySort(I, R))
            p.env['other'] = Arr(n, vals); p.facts.append(n >= 0); p.osize = n
            p.oget = lambda k: z3.Select(vals, k) != 0
        elif kind == 'scalar':
            b = z3.Bool('other'); p.env['other'] = b; p.osize = None
            p.oget = lambda k: b
        return p

    def shape(p):
        size = p.vecs['self']['size']
        if kind in ('scalar', 'none'):
            return size, z3.BoolVal(True), (lambda k: k), (lambda k: k)
        osize = p.osize
        same = size == osize
        selfb = z3.And(size == 1, osize != 0)
        otherb = (osize == 1) if kind == 'sparse' else z3.BoolVal(False)
        ok = z3.Or(same, selfb, otherb)
        n = z3.If(same, size, z3.If(selfb, osize, size))
        ai = lambda k: z3.If(z3.And(z3.Not(same), selfb), z3.IntVal(0), k)
        bi = lambda k: z3.If(z3.And(z3.Not(same), z3.Not(selfb), otherb), z3.IntVal(0), k)
        return n, ok, ai, bi

    def requires(p, terms):
        fs = list(p.facts)
        for t in terms:
            fs.append(p.rep_ok('self', t))
            if kind == 'sparse': fs.append(p.rep_ok('other', t))
        return fs

    def raises_allowed(p):
        n, ok, ai, bi = shape(p)
        return {'ValueError': z3.Not(ok)}

    def ensures(p, out, k):
        n, ok, ai, bi = shape(p)
        s = p.vecs['self']
        res = out.value
        cl = []
        if not isinstance(res, SLV):
            return [('returns a SparseLogicalVector', z3.BoolVal(False))]
        f = out.heap.objs[res.oid]
        rset = out.heap.sets[f['dct'].oid]
        a = z3.Select(s['dom'], ai(k))
        if op == 'invert':
            expect = z3.Not(a)
        else:
            b = p.oget(bi(k))
            expect = (LOGICAL_INPLACE.get(op) or LOGICAL_CMP[op])(a, b)
        if inplace:
            cl.append(('returns self', z3.BoolVal(res.oid == s['ref'].oid)))
        else:
            cl.append(('returns a new object', z3.BoolVal(res.oid != s['ref'].oid and f['dct'].oid != s['dict'].oid)))
            sset = out.heap.sets[s['dict'].oid]
            cl.append(('frame: self unchanged', z3.And(z3.Select(sset, k) == z3.Select(s['dom'], k),
                                                       out.heap.objs[s['ref'].oid]['size'] == s['size'])))
        cl.append(('shape accepted', ok))
        cl.append(('result size = broadcast size', f['size'] == n))
        cl.append(('member k <=> logical operator on the dense images', z3.Implies(z3.And(k >= 0, k < n), z3.Select(rset, k) == expect)))
        cl.append(('stored indices inside the size', z3.Implies(z3.Select(rset, k), z3.And(k >= 0, k < n))))
        if kind == 'sparse':
            o = p.vecs['other']
            oset = out.heap.sets[o['dict'].oid]
            cl.append(('frame: other operand unchanged', z3.And(z3.Select(oset, k) == z3.Select(o['dom'], k),
                                                                out.heap.objs[o['ref'].oid]['size'] == o['size'])))
        return cl

    return dict(build=build, requires=requires, raises_allowed=raises_allowed, ensures=ensures)


SPECS['logical'] = spec_logical


def native_logical(name, desc, inputs):
    import numpy as np, sys
    sp = sys.modules['thermosteam.base.sparse']
    _, _, op, kind, cls = desc
    s = inputs['self']
    a = sp.SparseLogicalVector.from_set(set(int(k) for k in s['set']), s['size'])
    a0 = a.to_array().copy()
    args = []
    if kind == 'sparse':
        o = inputs['other']; b = sp.SparseLogicalVector.from_set(set(int(k) for k in o['set']), o['size']); b0 = b.to_array().copy(); args = [b]
    elif kind == 'array':
        b0 = np.array(inputs['other']['array'], dtype=float) != 0; args = [b0.copy()]
    elif kind == 'scalar':
        b0 = bool(inputs['other']['scalar']); args = [b0]
    npf = {'iand': np.logical_and, 'ior': np.logical_or, 'ixor': np.logical_xor, 'eq': np.equal, 'ne': np.not_equal, 'gt': np.greater,
           'lt': np.less, 'ge': np.greater_equal, 'le': np.less_equal}
    try:
        r = getattr(a, name)(*args)
    except ValueError as e:
        sa, sb = len(a0), (np.size(b0) if kind in ('sparse', 'array') else None)
        ok = kind in ('scalar', 'none') or sa == sb or (sa == 1 and sb != 0) or (kind == 'sparse' and sb == 1)
        return [f'unexpected ValueError: {e}'] if ok else []
    except Exception as e:
        return [f'unexpected {type(e).__name__}: {e}']
    try:
        expect = np.logical_not(a0) if op == 'invert' else npf[op](a0, b0)
    except ValueError:
        return ['shape mismatch not rejected']
    got = r.to_array()
    failed = []
    if got.shape != np.shape(expect) or not np.array_equal(got, expect):
        failed.append(f'member k <=> logical operator on the dense images (got {got.tolist()}, NumPy {np.asarray(expect).tolist()})')
    if any(not (0 <= k < r.size) for k in r.set): failed.append('stored indices inside the size')
    return failed


NATIVE['logical'] = native_logical


# ----------------------------------------------------------------------------- queries and reductions (results are sets, key lists or scalars)

from .core import KeyIter, Tup

QUERIES = {
    # name: (kind of result, predicate on the dense image a = dense(self)[k] that selects the keys / that the reduction quantifies)
    'negative_keys':  ('keys', lambda a: a < 0),
    'negative_index': ('keys', lambda a: a < 0),
    'positive_index': ('keys', lambda a: a > 0),
    'nonzero_keys':   ('keys', lambda a: a != 0),
    'any':            ('exists', lambda a: a != 0),
    'all':            ('forall', lambda a: a != 0),
}
for _name in QUERIES:
    TABLE.append((_name, ('more', 'query', _name)))


def spec_query(name):
    kind, pred = QUERIES[name]

    def build():
        p = K.Pre('query')
        p.vec('self')
        p.hole = z3.Int('hole!card')          # Skolem witness of the finite-set lemma F2 below
        return p

    def requires(p, terms):
        s = p.vecs['self']
        fs = list(p.facts)
        for t in terms + [p.hole]:
            fs.append(p.rep_ok('self', t))
        return fs

    def lemmas(p, ex, terms):
        """Finite-set lemmas about card(dom) for a set dom that (by rep_ok, a requires for EVERY key) lies inside range(size):
        F0  card(dom) <= size;  F1  card(dom) = size and 0 <= t < size  ->  dom[t];  F2  card(dom) < size  ->  some hole in
        range(size) is not in dom.  Proved once and for all in lemmas/FinsetCard.lean (Lean 4 + Mathlib, checked by setup)."""
        s = p.vecs['self']
        c = ex.card(s['dom'])
        out = [c >= 0, c <= s['size'],
               z3.Implies(c < s['size'], z3.And(p.hole >= 0, p.hole < s['size'], z3.Not(z3.Select(s['dom'], p.hole))))]
        for t in terms:
            out.append(z3.Implies(z3.And(c == s['size'], t >= 0, t < s['size']), z3.Select(s['dom'], t)))
        return out

    def ensures(p, out, k):
        s = p.vecs['self']
        a = dense(s['dom'], s['val'], k)
        inr = z3.And(k >= 0, k < s['size'])
        cl = []
        sdom, sval = out.heap.dicts[s['dict'].oid]
        cl.append(('frame: self unchanged',
                   z3.And(z3.Select(sdom, k) == z3.Select(s['dom'], k), z3.Implies(z3.Select(sdom, k), z3.Select(sval, k) == z3.Select(s['val'], k)),
                          out.heap.objs[s['ref'].oid]['size'] == s['size'])))
        v = out.value
        if kind == 'keys':
            if isinstance(v, Tup) and len(v.items) == 1: v = v.items[0]
            if isinstance(v, Set): member = z3.Select(out.heap.sets[v.oid], k)
            elif isinstance(v, KeyIter): member = v.member(k)
            else: return cl + [('returns a collection of keys', z3.BoolVal(False))]
            cl.append(('k is among the returned keys exactly when it is in range and the dense image there satisfies the predicate', member == z3.And(inr, pred(a))))
            return cl
        if not (z3.is_expr(v) and z3.is_bool(v)):
            return cl + [('returns a truth value', z3.BoolVal(False))]
        ex = out.ex if hasattr(out, 'ex') else None
        w = K.witness(p.ex, s['dom'])
        aw = dense(s['dom'], s['val'], w); inw = z3.And(w >= 0, w < s['size'])
        ah = dense(s['dom'], s['val'], p.hole); inh = z3.And(p.hole >= 0, p.hole < s['size'])
        if kind == 'exists':
            cl.append(('an index in range whose dense value satisfies the predicate makes the result True', z3.Implies(z3.And(inr, pred(a)), v)))
            cl.append(('a True result is witnessed by an index in range', z3.Implies(v, z3.Or(z3.And(inw, pred(aw)), z3.And(inh, pred(ah))))))
        else:
            cl.append(('a True result means every index in range satisfies the predicate', z3.Implies(z3.And(v, inr), pred(a))))
            cl.append(('a False result is witnessed by an index in range that violates the predicate', z3.Implies(z3.Not(v), z3.Or(z3.And(inw, z3.Not(pred(aw))), z3.And(inh, z3.Not(pred(ah)))))))
        return cl

    return dict(build=build, requires=requires, raises_allowed=lambda p: {}, ensures=ensures, needs_cover=False, lemmas=lemmas)


SPECS['query'] = spec_query


def native_query(name, desc, inputs):
    import numpy as np, sys
    sp = sys.modules['thermosteam.base.sparse']
    s = inputs['self']
    a = sp.SparseVector.from_dict({int(k): v for k, v in s['dct'].items()}, s['size'])
    a0 = a.to_array().copy()
    try:
        r = getattr(a, name)()
    except Exception as e:
        return [f'unexpected {type(e).__name__}: {e}']
    failed = []
    if not np.array_equal(a.to_array(), a0): failed.append('frame: self unchanged')
    kind, _ = QUERIES[name]
    npred = {'negative_keys': a0 < 0, 'negative_index': a0 < 0, 'positive_index': a0 > 0, 'nonzero_keys': a0 != 0}
    if kind == 'keys':
        got = r[0] if isinstance(r, tuple) else r
        if sorted(int(i) for i in got) != [int(i) for i in np.flatnonzero(npred[name])]:
            failed.append('k is among the returned keys exactly when it is in range and the dense image there satisfies the predicate')
    elif name == 'any':
        if bool(r) != bool(a0.any()): failed.append('any = numpy.any of the dense image')
    elif name == 'all':
        if bool(r) != bool(a0.all()): failed.append('all = numpy.all of the dense image')
    return failed


NATIVE['query'] = native_query
