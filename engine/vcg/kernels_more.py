# -*- coding: utf-8 -*-
"""More kernel contracts for mode U (unary kernels, copies, comparisons, ...)."""
import z3
from .core import I, R, B, dense, SV, SLV, Dict, Set, PyConst, Arr
from . import kernels as K

TABLE = []


def spec(desc):
    return SPECS[desc[1]](*desc[2:])


SPECS = {}


def native_check(name, desc, inputs):
    return NATIVE[desc[1]](name, desc, inputs)


NATIVE = {}
