# -*- coding: utf-8 -*-
"""More kernel contracts for mode U: unary kernels, copies, frame-only mutators."""
import z3
from .core import I, R, B, dense, SV, SLV, Dict, Set, PyConst, Arr
from . import kernels as K

# name -> (kind, expectation on the dense image a=dense(self)[k] (and b=dense(other)[k]))
UNARY = {
    '__neg__':          dict(result='new', f=lambda a, b: -a),
    '__abs__':          dict(result='new', f=lambda a, b: z3.If(a >= 0, a, -a)),
    'copy':             dict(result='new', f=lambda a, b: a),
    'copy_like':        dict(result='none', mutates=True, other=True, f=lambda a, b: b),
    'remove_negatives': dict(result='none', mutates=True, f=lambda a, b: z3.If(a < 0, z3.RealVal(0), a)),
    'clear':            dict(result='none', mutates=True, f=lambda a, b: z3.RealVal(0), read_only_raises=True),
}
TABLE = [(name, ('more', 'unary', name)) for name in UNARY]


def spec_unary(name):
    d = UNARY[name]

    def build():
        p = K.Pre('unary')
        p.vec('self')
        if d.get('other'):
            p.vec('other')
        return p

    def requires(p, terms):
        fs = list(p.facts)
        for t in terms:
            fs.append(p.rep_ok('self', t))
            if d.get('other'): fs.append(p.rep_ok('other', t))
        if d.get('other'):
            fs.append(p.vecs['self']['size'] == p.vecs['other']['size'])
        return fs

    def raises_allowed(p):
        if d.get('read_only_raises'):
            return {'ValueError': p.vecs['self']['read_only']}
        return {}

    def ensures(p, out, k):
        s = p.vecs['self']
        a = dense(s['dom'], s['val'], k)
        b = None
        if d.get('other'):
            o = p.vecs['other']
            b = dense(o['dom'], o['val'], k)
        expect = d['f'](a, b)
        cl = []
        if d.get('read_only_raises'):
            cl.append(('normal return only when not read-only', z3.Not(s['read_only'])))
        if d['result'] == 'new':
            res = out.value
            if not isinstance(res, SV): return [('returns a SparseVector', z3.BoolVal(False))]
            f = out.heap.objs[res.oid]
            cl.append(('returns a new object', z3.BoolVal(res.oid != s['ref'].oid and f['dct'].oid != s['dict'].oid)))
            rdom, rval = out.heap.dicts[f['dct'].oid]
            size = f['size']
            cl.append(('result size = size', size == s['size']))
            sdom, sval = out.heap.dicts[s['dict'].oid]
            cl.append(('frame: self unchanged',
                       z3.And(z3.Select(sdom, k) == z3.Select(s['dom'], k),
                              z3.Implies(z3.Select(sdom, k), z3.Select(sval, k) == z3.Select(s['val'], k)))))
        else:
            cl.append(('returns None', z3.BoolVal(isinstance(out.value, PyConst) and out.value.v is None)))
            rdom, rval = out.heap.dicts[s['dict'].oid]
            size = out.heap.objs[s['ref'].oid]['size']
            cl.append(('size unchanged', size == s['size']))
        cl.append(('dense image = expected function of the dense image(s)',
                   z3.Implies(z3.And(k >= 0, k < size), dense(rdom, rval, k) == expect)))
        cl.append(('rep_ok(result): stored entries in range and non-zero',
                   z3.Implies(z3.Select(rdom, k), z3.And(k >= 0, k < size, z3.Select(rval, k) != 0))))
        if d.get('other'):
            o = p.vecs['other']
            odom, oval = out.heap.dicts[o['dict'].oid]
            cl.append(('frame: other unchanged',
                       z3.And(z3.Select(odom, k) == z3.Select(o['dom'], k),
                              z3.Implies(z3.Select(odom, k), z3.Select(oval, k) == z3.Select(o['val'], k)))))
        return cl

    return dict(build=build, requires=requires, raises_allowed=raises_allowed, ensures=ensures, needs_cover=d['result'] == 'new')


def spec(desc):
    return SPECS[desc[1]](*desc[2:])


SPECS = {'unary': spec_unary}


def native_unary(name, desc, inputs):
    import numpy as np, sys
    sp = sys.modules['thermosteam.base.sparse']
    d = UNARY[name]
    s = inputs['self']
    a = sp.SparseVector.from_dict({int(k): v for k, v in s['dct'].items()}, s['size'])
    if s.get('read_only'): a.read_only = True
    a0 = a.to_array().copy()
    args = []
    b0 = None
    if d.get('other'):
        o = inputs['other']
        b = sp.SparseVector.from_dict({int(k): v for k, v in o['dct'].items()}, o['size'])
        b0 = b.to_array().copy(); args.append(b)
    failed = []
    try:
        r = getattr(a, name)(*args)
    except ValueError as e:
        if not (d.get('read_only_raises') and s.get('read_only')): failed.append(f'unexpected ValueError {e}')
        return failed
    except Exception as e:
        return [f'unexpected {type(e).__name__}: {e}']
    expect = {'__neg__': -a0, '__abs__': abs(a0), 'copy': a0, 'copy_like': b0, 'remove_negatives': np.where(a0 < 0, 0., a0),
              'clear': np.zeros_like(a0)}[name]
    tgt = r if d['result'] == 'new' else a
    if d['result'] == 'new' and (r is a or r.dct is a.dct): failed.append('returns a new object')
    if not np.allclose(tgt.to_array(), expect): failed.append('dense image = expected function of the dense image(s)')
    if any(v == 0 or not (0 <= k < tgt.size) for k, v in tgt.dct.items()): failed.append('rep_ok(result)')
    if d['result'] == 'new' and not np.array_equal(a.to_array(), a0): failed.append('frame: self unchanged')
    return failed


def native_check(name, desc, inputs):
    return NATIVE[desc[1]](name, desc, inputs)


NATIVE = {'unary': native_unary}
