# -*- coding: utf-8 -*-
"""
Finite-domain model finding and native replay for the heap VCG (C18 mode U).

  * finitize(): every quantifier over Int in a formula is expanded over the finite domain 0..N-1, so that z3 decides the
    formula and returns a concrete heap (object identities, fields, list contents) as a model;
  * build(): the model is turned into REAL thermosteam.network objects (units with their Inlets/Outlets, streams,
    placeholders) by setting the very fields the contract talks about;
  * wf_native(): the invariant WF evaluated on real objects;
  * used for (a) replaying failed obligations as concrete failing inputs and (b) cross-checking the symbolic heap
    semantics against the real code on sampled pre-states (engine self-validation).
"""
import sys
import z3
from . import heap as H

I = z3.IntSort()


def finitize(e, N):
    """Expand every Int quantifier of e over 0..N-1."""
    if z3.is_quantifier(e):
        n = e.num_vars()
        body = e.body()
        if e.is_lambda():
            return e
        # de Bruijn: variable i (0 = innermost/last declared)
        import itertools
        insts = []
        for vals in itertools.product(range(N), repeat=n):
            subst = [z3.IntVal(v) for v in reversed(vals)]
            insts.append(finitize(z3.substitute_vars(body, *subst), N))
        return z3.And(*insts) if e.is_forall() else z3.Or(*insts)
    if z3.is_app(e) and e.num_args() > 0 and z3.is_bool(e):
        kids = [finitize(c, N) if z3.is_bool(c) else c for c in e.children()]
        try:
            return e.decl()(*kids)
        except z3.Z3Exception:
            return e
    return e


def domain_constraints(h, N, maxlen=3):
    """All reference-valued fields stay inside the domain; list lengths are small."""
    cs = []
    for r in range(N):
        R = z3.IntVal(r)
        for f in ('sink', 'source', 'ins', 'outs'):
            v = z3.Select(getattr(h, f), R)
            cs.append(z3.And(v >= 0, v < N))
        cs.append(z3.And(z3.Select(h.llen, R) >= 0, z3.Select(h.llen, R) <= maxlen))
        cs.append(z3.And(z3.Select(h.kind, R) >= 0, z3.Select(h.kind, R) <= 5))
        cs.append(z3.And(z3.Select(h.fsize, R) >= 0, z3.Select(h.fsize, R) <= maxlen))
        for i in range(maxlen + 1):
            v = h.el(R, z3.IntVal(i))
            cs.append(z3.And(v >= 0, v < N))
    # nothing outside the domain is allocated
    x = z3.Int('x!dom')
    cs.append(z3.ForAll([x], z3.Implies(z3.Or(x < 0, x >= N), z3.Not(z3.Select(h.alloc, x)))))
    return cs


def find_model(formulas, consts_in_domain, h0, N=7, timeout_ms=30000):
    s = z3.Solver(); s.set('timeout', timeout_ms)
    for f in formulas:
        s.add(finitize(f, N))
    for c in domain_constraints(h0, N):
        s.add(c)
    for c in consts_in_domain:
        s.add(c >= 0, c < N)
    r = s.check()
    find_model.last_status = str(r)          # 'unsat' = no model in the finite domain; 'unknown' = timeout (decides nothing)
    return s.model() if r == z3.sat else None


find_model.last_status = None


def _val(m, t):
    v = m.eval(t, model_completion=True)
    if z3.is_int_value(v): return v.as_long()
    if z3.is_true(v): return True
    if z3.is_false(v): return False
    raise ValueError(f'no value for {t}: {v}')


def extract(m, h0, N, maxlen=3):
    """Plain-Python description of the heap in the model."""
    objs = {}
    for r in range(1, N):
        if not _val(m, z3.Select(h0.alloc, r)): continue
        k = _val(m, z3.Select(h0.kind, r))
        o = {'kind': k, 'sink': _val(m, z3.Select(h0.sink, r)), 'source': _val(m, z3.Select(h0.source, r))}
        if k == H.UNIT:
            o['ins'] = _val(m, z3.Select(h0.ins, r)); o['outs'] = _val(m, z3.Select(h0.outs, r))
            o['uid'] = _val(m, H.UID(z3.IntVal(r)))        # 0 = unregistered (ID ''); equal values = equal IDs
        if k in (H.INLETS, H.OUTLETS):
            n = _val(m, z3.Select(h0.llen, r))
            o['list'] = [_val(m, h0.el(r, z3.IntVal(i))) for i in range(n)]
            o['fixed'] = bool(_val(m, z3.Select(h0.fixed, r))); o['fsize'] = _val(m, z3.Select(h0.fsize, r))
        objs[r] = o
    return objs


def build(objs):
    """Real thermosteam.network objects for a heap description.  Returns {id: object}."""
    import thermosteam as tmo
    nw = sys.modules['thermosteam.network']
    tmo.settings.set_thermo([], cache=None) if False else None

    class _U(nw.AbstractUnit):
        _N_ins = 1; _N_outs = 1
        _ins_size_is_fixed = False; _outs_size_is_fixed = False
    real = {}
    for r, o in objs.items():
        if o['kind'] == H.UNIT:
            u = _U.__new__(_U)
            u._ID = '' if o.get('uid', r) == 0 else f"U{o.get('uid', r)}"
            real[r] = u
    for r, o in objs.items():
        if o['kind'] == H.STREAM:
            s = nw.AbstractStream.__new__(nw.AbstractStream); s._ID = f's{r}'; s._source = s._sink = None
            real[r] = s
        elif o['kind'] == H.MISSING:
            real[r] = nw.AbstractMissingStream(None, None)
    for r, o in objs.items():
        if o['kind'] in (H.INLETS, H.OUTLETS):
            cls = nw.AbstractInlets if o['kind'] == H.INLETS else nw.AbstractOutlets
            q = cls.__new__(cls)
            q._size = o['fsize']; q._fixed_size = o['fixed']
            real[r] = q
    get = lambda i: real.get(i) if i else None
    for r, o in objs.items():
        x = real[r]
        if o['kind'] == H.UNIT:
            x._ins = get(o['ins']); x._outs = get(o['outs'])
        elif o['kind'] in (H.STREAM, H.MISSING):
            x._sink = get(o['sink']); x._source = get(o['source'])
        elif o['kind'] == H.INLETS:
            x._sink = get(o['sink']); x._streams = [get(i) for i in o['list']]
        elif o['kind'] == H.OUTLETS:
            x._source = get(o['source']); x._streams = [get(i) for i in o['list']]
    return real


def reachable(roots):
    """All units, port lists, streams and placeholders reachable from the given real objects."""
    nw = sys.modules['thermosteam.network']
    seen = {}
    work = [r for r in roots if r is not None]
    while work:
        x = work.pop()
        if x is None or id(x) in seen: continue
        seen[id(x)] = x
        if isinstance(x, nw.AbstractUnit):
            work += [getattr(x, '_ins', None), getattr(x, '_outs', None)]
        elif isinstance(x, nw.StreamSequence):
            work += list(x._streams) + [getattr(x, '_sink', None), getattr(x, '_source', None)]
        elif isinstance(x, (nw.AbstractStream, nw.AbstractMissingStream)):
            work += [x._sink, x._source]
    return list(seen.values())


def wf_native(universe):
    """Names of the WF conjuncts that FAIL on the real objects (empty list = well-formed)."""
    nw = sys.modules['thermosteam.network']
    bad = set()
    units = [x for x in universe if isinstance(x, nw.AbstractUnit)]
    seqs = [x for x in universe if isinstance(x, nw.StreamSequence)]
    streams = [x for x in universe if isinstance(x, nw.AbstractStream)]
    for u in units:
        if not (isinstance(getattr(u, '_ins', None), nw.AbstractInlets) and u._ins._sink is u and
                isinstance(getattr(u, '_outs', None), nw.AbstractOutlets) and u._outs._source is u): bad.add('T1')
    for q in seqs:
        inlet = isinstance(q, nw.AbstractInlets)
        owner = q._sink if inlet else q._source
        if not (isinstance(owner, nw.AbstractUnit) and (owner._ins if inlet else owner._outs) is q): bad.add('T2')
        for n, s in enumerate(q._streams):
            if not isinstance(s, (nw.AbstractStream, nw.AbstractMissingStream)): bad.add('T3'); continue
            if (s._sink if inlet else s._source) is not owner: bad.add('I1')
            if isinstance(s, nw.AbstractMissingStream) and (s._source if inlet else s._sink) is not None: bad.add('I5')
            if any(s is t for t in q._streams[n + 1:]): bad.add('I3')
        if q._fixed_size and len(q._streams) != q._size: bad.add('I4')
    for s in streams:
        for side, attr in (('_sink', '_ins'), ('_source', '_outs')):
            o = getattr(s, side)
            if o is not None:
                if not isinstance(o, nw.AbstractUnit): bad.add('T4'); continue
                if not any(s is t for t in getattr(o, attr)._streams): bad.add('I2')
    return sorted(bad)
