import sys, os, argparse, traceback

def main():
    ap = argparse.ArgumentParser()
    ap.add_argument('prop')
    ap.add_argument('--tier', default=os.environ.get('VERIF_TIER', 'quick'), choices=['quick', 'thorough'])
    ap.add_argument('--replay')
    ap.add_argument('--jobs', type=int, default=None)
    ap.add_argument('--only', nargs='*')
    ap.add_argument('--write-baseline', action='store_true')
    a = ap.parse_args()
    seed = int(os.environ.get('VERIF_SEED', '0') or 0)
    os.environ['VERIF_TIER'] = a.tier
    if a.write_baseline: os.environ['VERIF_WRITE_SAMPLE_CACHE'] = '1'
    from engine import runner
    try:
        if a.replay:
            return runner.replay_file(a.prop, a.replay)
        extra = None
        try:
            import importlib
            m = importlib.import_module('contracts.extra_' + a.prop)
            extra = m.run
        except ModuleNotFoundError:
            pass
        return runner.run_property(a.prop, a.tier, a.jobs, seed, a.only, a.write_baseline, extra)
    except SystemExit:
        raise
    except BaseException:
        traceback.print_exc()
        print('ENGINE-ERROR: checker crashed')
        return 3

if __name__ == '__main__':
    sys.exit(main())
