# -*- coding: utf-8 -*-
"""
Contract API shared by all property files.

A *group* is one contract obligation group on real thermosteam functions:

    @group('C01/mix_from', configs=my_configs, functions=['thermosteam._stream:Stream.mix_from'])
    def g(w, cfg):
        ... build real objects, plant leaves with w.real(...) (requires via lo/hi/w.assume)
        ... call the real function(s)
        w.ensure('clause', <condition over leaves>)     # postcondition / frame clause

The same body runs in two modes:

  * symbolic (SX): w.real returns SymReal, conditions are z3 terms, every
    feasible path is explored and each ensure clause is discharged by z3 under
    the path condition (for all real values satisfying the requires);
  * concrete: w.real returns the float of a solver model (replay of a
    counterexample, or the native CPython cross-check of a path); no
    rebinding is installed, the real code runs on floats, clauses are
    evaluated with a relative tolerance.
"""
import math
import z3

from .sx import sym as _sym
from .sx.sym import SymReal, SymBool, lift, is_sym

GROUPS = {}


class Group:
    def __init__(self, name, fn, configs, functions, loop_free=False, max_paths=None,
                 assumptions=(), mode='S', notes='', l0=False):
        self.name = name
        self.fn = fn
        self.configs = configs
        self.functions = list(functions)
        self.loop_free = loop_free
        self.max_paths = max_paths
        self.assumptions = list(assumptions)
        self.mode = mode
        self.notes = notes
        self.l0 = l0      # run on the contract level of the sparse kernels (DESIGN 2.2 Layering)
        self.property_id = name.split('/')[0]


def group(name, configs, functions, **kw):
    def deco(fn):
        g = Group(name, fn, configs, functions, **kw)
        if name in GROUPS:
            raise RuntimeError(f'duplicate group {name}')
        GROUPS[name] = g
        return fn
    return deco


class CheckAbort(Exception):
    """Raised by w.require_outcome etc. to end a path early (not an error)."""


REL_TOL = 1e-7
ABS_TOL = 1e-9


def _close(a, b):
    a = float(a); b = float(b)
    if a == b: return True
    if math.isnan(a) or math.isnan(b): return False
    return abs(a - b) <= ABS_TOL + REL_TOL * max(abs(a), abs(b))


class World:
    """Mode-polymorphic access to leaves, assumptions and obligations."""
    symbolic = False

    def __init__(self, cfg):
        self.cfg = cfg
        self.obligations = []      # (clause name, condition, info)
        self.canaries = []         # (name, condition) that must be refutable
        self.leaves = {}           # name -> value handed out
        self.events = []
        self.samples = {}

    # ---- to be provided by subclasses
    def real(self, name, lo=None, hi=None, lo_strict=False, hi_strict=False, nonzero=False): raise NotImplementedError
    def assume(self, cond): raise NotImplementedError
    def fn(self, name, arity=None, positive=False): raise NotImplementedError

    # ---- obligations
    def ensure(self, name, cond, **info):
        self.obligations.append((name, cond, info))

    def lemma(self, name, cond, **info):
        """An ensures clause that later clauses of the same path may build on (cut rule): in symbolic mode it is
        discharged right here under the current path condition and, only if proved, added to the solver's facts;
        otherwise it stays an ordinary obligation (reported with its counter-model at the end of the path).
        Natively it is an ordinary clause."""
        self.ensure(name, cond, **info)

    def canary(self, name, cond):
        """A deliberately wrong clause; the engine must refute it (vacuity guard)."""
        self.canaries.append((name, cond))

    def note(self, **kw):
        self.samples.update(kw)

    # ---- condition builders (work on SymReal/float alike)
    def eq(self, a, b): raise NotImplementedError
    def And(self, *cs): raise NotImplementedError
    def Or(self, *cs): raise NotImplementedError
    def Not(self, c): raise NotImplementedError
    def Implies(self, a, b): return self.Or(self.Not(a), b)
    def le(self, a, b): raise NotImplementedError
    def lt(self, a, b): raise NotImplementedError
    def ge(self, a, b): return self.le(b, a)
    def gt(self, a, b): return self.lt(b, a)
    def ne(self, a, b): return self.Not(self.eq(a, b))

    def all_eq(self, xs, ys):
        xs = list(xs); ys = list(ys)
        if len(xs) != len(ys):
            return self.And(False)
        return self.And(*[self.eq(a, b) for a, b in zip(xs, ys)])

    def total(self, xs):
        t = 0.
        for x in xs: t = t + x
        return t


class SymWorld(World):
    symbolic = True

    def __init__(self, cfg, c):
        super().__init__(cfg)
        self.c = c
        self.uf_apps = []      # (name, arg terms, result term)
        self._fns = {}

    def real(self, name, lo=None, hi=None, lo_strict=False, hi_strict=False, nonzero=False):
        v = self.c.real(name, lo, hi, lo_strict, hi_strict, nonzero)
        self.leaves[name] = v
        return v

    def assume(self, cond):
        self.c.assume(self._b(cond))

    def lemma(self, name, cond, timeout_ms=10000, **info):
        t = self._b(cond)
        verdict, _ = self.c.prove(t, timeout_ms)
        if verdict == 'unsat':
            self.c.assume_axiom(t)                     # proved under the path condition, which only grows from here
            self.obligations.append((name, z3.BoolVal(True), dict(info, lemma='discharged at the point of use')))
        else:
            self.obligations.append((name, cond, info))

    def fn(self, name, arity=None, positive=False):
        """Uninterpreted deterministic function of its (real) arguments (A-models)."""
        key = name
        f = self._fns.get(key)
        if f is not None:
            return f
        w = self

        def call(*args):
            args = [a for a in args]
            zf = w.c.uf(name, len(args))
            ts = [lift(a) for a in args]
            r = zf(*ts)
            w.uf_apps.append((name, ts, r))
            if positive:
                w.c.assume_axiom(r > 0)
            return SymReal(r)
        call.__name__ = name
        self._fns[key] = call
        return call

    @staticmethod
    def _b(c):
        if isinstance(c, SymBool): return c.t
        if isinstance(c, bool): return z3.BoolVal(c)
        if z3.is_expr(c): return c
        try:
            import numpy as np
            if isinstance(c, np.bool_): return z3.BoolVal(bool(c))
        except ImportError:  # pragma: no cover
            pass
        raise TypeError(f'not a condition: {c!r}')

    def eq(self, a, b):
        if isinstance(a, (str, type(None))) or isinstance(b, (str, type(None))):
            return z3.BoolVal(a == b)
        return lift(a) == lift(b)

    def le(self, a, b): return lift(a) <= lift(b)
    def lt(self, a, b): return lift(a) < lift(b)
    def And(self, *cs): return z3.And(*[self._b(c) for c in cs]) if cs else z3.BoolVal(True)
    def Or(self, *cs): return z3.Or(*[self._b(c) for c in cs]) if cs else z3.BoolVal(False)
    def Not(self, c): return z3.Not(self._b(c))


class ConcreteWorld(World):
    symbolic = False

    def __init__(self, cfg, values, tables=None):
        super().__init__(cfg)
        self.values = values            # leaf name -> float
        self.tables = tables or {}      # fn name -> {'entries': [[args], value], 'else': value}
        self.violated_assumptions = []
        # float comparisons natively: relative to the operands AND to the largest leaf/table magnitude of this run
        # (sums that nearly cancel carry the rounding error of their largest term)
        mags = [abs(float(v)) for v in values.values()]
        for t in self.tables.values():
            mags += [abs(float(e[1])) for e in t.get('entries', [])]
        self.scale = max(mags) if mags else 1.0

    def real(self, name, lo=None, hi=None, lo_strict=False, hi_strict=False, nonzero=False):
        v = float(self.values.get(name, 0.0 if lo is None else lo))
        self.leaves[name] = v
        return v

    def assume(self, cond):
        if not bool(cond):
            self.violated_assumptions.append(str(cond))

    def fn(self, name, arity=None, positive=False):
        table = self.tables.get(name, {})
        entries = table.get('entries', [])
        default = table.get('else', 1.0 if positive else 0.0)

        def call(*args):
            args = [float(a) for a in args]
            # nearest table entry within the tolerance (exact matches first): two symbolic arguments whose model values
            # differ by less than the tolerance must not be conflated
            best = None
            for eargs, val in entries:
                if len(eargs) == len(args) and all(_close(x, y) for x, y in zip(eargs, args)):
                    dist = sum(abs(x - y) for x, y in zip(eargs, args))
                    if best is None or dist < best[0]:
                        best = (dist, val)
            if best is not None:
                return best[1]
            # deterministic smooth fallback so that unseen arguments still give a *function*
            h = default
            for n, a in enumerate(args):
                h += 0.013 * (n + 1) * a
            if positive and h <= 0: h = 1.0 + abs(h)
            return h
        call.__name__ = name
        return call

    def eq(self, a, b):
        if isinstance(a, (str, type(None))) or isinstance(b, (str, type(None))):
            return a == b
        return _close(a, b) or abs(float(a) - float(b)) <= REL_TOL * self.scale

    def le(self, a, b): return float(a) <= float(b) + ABS_TOL + REL_TOL * max(abs(float(a)), abs(float(b)), self.scale)
    def lt(self, a, b): return float(a) < float(b)
    def And(self, *cs): return all(bool(c) for c in cs)
    def Or(self, *cs): return any(bool(c) for c in cs)
    def Not(self, c): return not bool(c)



class SampleWorld(ConcreteWorld):
    """Native run on SAMPLED leaf values (deterministic in `seed`): the fall-back when the symbolic engine cannot execute a
    configuration of the tree under check (EngineUnsupported, path or wall-clock budget).  A clause that was discharged
    on the baseline tree and fails here on the real code with the sampled floats is a replayable violation; a run in which
    nothing fails decides nothing (the configuration stays an engine error)."""
    POOL = (0.0, 1.0, 2.0, 0.5, 3.0, 0.25, 1.5, 0.75, 7.25, 2.5, 0.0, 1.0, -1.0, -2.5, 4.0, 0.125)

    def __init__(self, cfg, seed):
        super().__init__(cfg, {}, {})
        import random
        self._rng = random.Random(1000003 * int(seed) + 17)
        self.scale = 1.0

    def real(self, name, lo=None, hi=None, lo_strict=False, hi_strict=False, nonzero=False):
        ok = lambda v: ((lo is None or (v > lo if lo_strict else v >= lo)) and (hi is None or (v < hi if hi_strict else v <= hi))
                        and not (nonzero and v == 0.0))
        pool = [v for v in self.POOL if ok(v)]
        if pool:
            v = self._rng.choice(pool)
        else:
            a = lo if lo is not None else (hi - 2.0 if hi is not None else -1.0)
            b = hi if hi is not None else a + 2.0
            v = a + (b - a) * self._rng.choice((0.5, 0.25, 0.75, 0.1, 0.9))
        v = float(v)
        self.leaves[name] = v
        self.scale = max(self.scale, abs(v))
        return v
