#!/bin/bash
# Re-runs every claimed check (quick tier) on /repo itself and validates the evidence files; run before committing evidence.
cd "$(dirname "$0")"
rc=0
for p in $(.venv/bin/python -c "import json; print(' '.join(c['property_id'] for c in json.load(open('MANIFEST.json'))['checks']))"); do
  ./check $p --jobs ${JOBS:-12} ${CHECK_ARGS:-} 2>&1 | grep -v "^KNOWN-FINDING" | tail -1
  .venv/bin/python - "$p" <<'PY' || rc=1
import json, sys, jsonschema
p = sys.argv[1]
e = json.load(open(f'evidence/{p}.json'))
jsonschema.validate(e, json.load(open('/root/.vp/EVIDENCE.schema.json')))
c = e['coverage']
if e['level'] == 'proof' and c['obligations'] != c['discharged']:
    print(f'EVIDENCE-PROBLEM {p}: discharged {c["discharged"]} != obligations {c["obligations"]}'); sys.exit(1)
PY
done
exit $rc
