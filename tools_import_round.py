#!/usr/bin/env python3
"""Imports the deliverables of one round of seeded-change agents: <src>/out_<prop>/{a,b}/ -> seeded/<prop>_<n>, <prop>_<n+1>.
Usage: tools_import_round.py <src dir> <first index> [props...]"""
import json, os, shutil, sys
HERE = os.path.dirname(os.path.abspath(__file__))
src, first = sys.argv[1], int(sys.argv[2])
props = sys.argv[3:] or sorted(d[4:] for d in os.listdir(src) if d.startswith('out_'))
for p in props:
    for k, sub in enumerate(('a', 'b')):
        d = os.path.join(src, f'out_{p}', sub)
        if not os.path.exists(os.path.join(d, 'patch.diff')):
            print(p, sub, 'missing'); continue
        dst = os.path.join(HERE, 'seeded', f'{p}_{first + k}')
        if os.path.exists(dst):
            print(p, sub, 'already imported'); continue
        os.makedirs(dst)
        for f in ('patch.diff', 'demo.py', 'meta.json'):
            if os.path.exists(os.path.join(d, f)): shutil.copy(os.path.join(d, f), dst)
        mp = os.path.join(dst, 'meta.json')
        try: meta = json.load(open(mp))
        except Exception: meta = {}
        meta.setdefault('property', p); meta['round'] = (first + 1) // 2
        json.dump(meta, open(mp, 'w'), indent=1)
        print('imported', dst)
