#!/usr/bin/env python3
"""Rebuilds seeded/RESULTS.json from the meta.json of every seeded change (the evaluators may run in parallel; each writes only
its own meta.json reliably)."""
import json, os
HERE = os.path.dirname(os.path.abspath(__file__))
R = {}
for i in sorted(os.listdir(os.path.join(HERE, 'seeded'))):
    mp = os.path.join(HERE, 'seeded', i, 'meta.json')
    if not os.path.exists(mp): continue
    m = json.load(open(mp))
    if str(m.get('status', '')).startswith('obsolete'):
        R[i] = {'property': m.get('property'), 'status': m['status']}; continue
    R[i] = {'property': m.get('property'), 'summary': m.get('summary'), 'needs': m.get('needs'), 'round': m.get('round'),
            'demo_changed_exit': m.get('demo_changed_exit'), 'demo_unchanged_exit': m.get('demo_unchanged_exit'),
            'checks': m.get('verif_result') or {}}
json.dump(R, open(os.path.join(HERE, 'seeded', 'RESULTS.json'), 'w'), indent=1)
n = sum(1 for r in R.values() if 'checks' in r); c = sum(1 for r in R.values() if any(isinstance(v, dict) and v.get('caught') for v in r.get('checks', {}).values()))
print(f'{len(R)} changes, {n} applicable, {c} caught')
