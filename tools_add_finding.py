#!/usr/bin/env python3
"""tools_add_finding.py fixed <prop> <commit> <what>      |   tools_add_finding.py finding <prop> <id> <group glob> <config glob> <clause glob> <function> <what> [why_not_fixed]"""
import json, os, sys
HERE = os.path.dirname(os.path.abspath(__file__))
p = os.path.join(HERE, 'known_findings.json')
K = json.load(open(p))
kind, prop = sys.argv[1], sys.argv[2]
ids = [k['id'] for k in K['findings'] if k['property'] == prop]
if kind == 'fixed':
    commit, what = sys.argv[3], sys.argv[4]
    n = 1
    while f'F-{prop}-{n}' in ids or any(i.startswith(f'F-{prop}-{n}') and i[len(f'F-{prop}-{n}'):][:1].isalpha() for i in ids): n += 1
    K['findings'].append({'id': f'F-{prop}-{n}', 'status': 'fixed', 'property': prop, 'commit': commit,
                          'line': f'fixed: property={prop} {commit} {what}'})
    print('added', f'F-{prop}-{n}')
else:
    fid, g, c, cl, fn, what = sys.argv[3:9]
    why = sys.argv[9] if len(sys.argv) > 9 else ''
    K['findings'].append({'id': fid, 'status': 'finding', 'property': prop, 'commit': None, 'function': fn,
                          'match': {'group': g, 'config': c, 'clause': cl}, 'what': what, 'why_not_fixed': why})
    print('added', fid)
json.dump(K, open(p, 'w'), indent=1)
