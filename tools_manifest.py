#!/usr/bin/env python3
"""Regenerates MANIFEST.json from the table below (kept in one place so it is always valid)."""
import json, os, sys
HERE = os.path.dirname(os.path.abspath(__file__))
BASE = "cd /repo && /venv/bin/python -m pytest -ra -q -p no:cacheprovider --timeout=900 --continue-on-collection-errors"

CHECKS = {}
NA = {}

def check(pid, category, text, note, technique, design_ref):
    CHECKS[pid] = dict(property_id=pid, quick_cmd=f"./check {pid} --tier quick", thorough_cmd=f"./check {pid} --tier thorough",
                       evidence_file=f"evidence/{pid}.json", replay_cmd_template=f"./check {pid} --replay {{path}}",
                       engine="sx", level_claimed=dict(category=category, text=text, design_ref=design_ref),
                       level_note=note, technique=technique)

exec(open(os.path.join(HERE, 'manifest_table.py')).read())

props = [json.loads(l)['id'] for l in open(os.path.join(HERE, 'properties.jsonl'))]
for p in props:
    if p not in CHECKS and p not in NA:
        NA[p] = 'check not built yet in this session (planned in DESIGN.md section 4); not claimed'
m = dict(version=1, setup_cmd="./setup.sh",
         hooks=dict(guard="THERMOSTEAM_VERIF", enable="none needed: all instrumentation is run-time namespace rebinding from /verif (no hook commits in /repo)",
                    baseline_off_cmd=BASE, source_commits=[], add_only=True),
         engines=[dict(name="sx", path="engine/sx", serves_properties=sorted(CHECKS),
                       kind_free_text="contract-based deductive checking: sidecar contracts (contracts/Cxx_*.py) on the real thermosteam functions; VC generation by symbolic execution of the imported functions under CPython with z3-backed real leaves (all values, enumerated structure), VCs discharged by z3 (a sample per configuration re-checked by cvc5); native replay of counter-models"),
                  dict(name="vcg", path="engine/vcg", serves_properties=["C09", "C18"],
                       kind_free_text="AST -> SMT verification-condition generators for unbounded structure: sparse kernels (dict = domain/value arrays, pointwise loop summaries; 70 kernels, arbitrary vector size; finite-set lemma schema proved in Lean 4 + Mathlib, lemmas/FinsetCard.lean) and the flowsheet heap (Burstall-Bornat memory model, quantified well-formedness invariant, inductive loop invariants, modular application of proved contracts at call sites; 26 operations over an arbitrary heap); z3 (E-matching, MBQI), every discharged VC re-checked by cvc5 (engine/vcg/second.py); finite-domain models replayed on real objects")],
         checks=[CHECKS[p] for p in props if p in CHECKS],
         not_applicable=[dict(property_id=p, reason=NA[p]) for p in props if p in NA],
         notes="See DESIGN.md. Exit codes: 0 held, 1 violation (VIOLATION line + replay file), 2 undecided, 3 checker error. Thorough tier: wall-clock budget per phase (VERIF_THOROUGH_BUDGET_S, default 1200 s, 0 = none); what it leaves unexplored is printed (BUDGET line) and counted in the evidence (DESIGN 8.8).")
json.dump(m, open(os.path.join(HERE, 'MANIFEST.json'), 'w'), indent=1)
import jsonschema
jsonschema.validate(m, json.load(open('/root/.vp/MANIFEST.schema.json')))
print('MANIFEST ok:', len(m['checks']), 'checks,', len(m['not_applicable']), 'not claimed')
