# -*- coding: utf-8 -*-
"""
C05 (gap round) -- more of the real functions behind "reactions conserve mass and atoms and convert exactly X of the
reactant" under contract: histories (second operation on the same objects), sibling classes and alternative entry
points with their own implementation, observation channels that were never read, skipped input families.

Everything is built with the helpers of contracts/C05_reactions.py (same specification side: spec_single / spec_parallel /
spec_series / spec_apply; same requires: balanced stoichiometry as an assumption with the database MW as one conservation
row plus an abstract 2-row formula matrix F >= 0).  Every top-level ensures is a sentence of the property.

Groups (S = symbolic, all real values per structure; B = bounded, native):
  C05/gap_source_alias        S  set built from reactions, a SOURCE reaction re-based afterwards, set applied
  C05/gap_set_reset_chemicals S  ReactionSet / ReactionItem / slice .reset_chemicals, then applied (also copy on the other basis)
  C05/gap_kinetic             S  KineticReaction.__call__ / conversion (own implementation of update + feasibility check)
  C05/gap_entry_points        S  mass view of a MultiStream, the stream's own array, CHECK_FEASIBILITY = False, Reaction.conversion,
                                 item / slice of a set on a stream, nested ReactionSystem, empty reaction, no reactant in the feed,
                                 streams whose phases differ from the reaction's (refused unchanged); flows also read by name
  C05/gap_reactant_flux       S  ReactionSystem.reactant_flux ("parallel on the feed, series on the running composition" as a query)
  C05/gap_real_histories      B  real balanced chemistry, every operation sequence of length <= 2 (3) on the same objects, observed
                                 by position, by name, through the mass view, as F_mass and as formula_array @ mol

Genuine defects of the pinned tree exposed by these groups (reproducers / proposed patches /tmp/gap/C05_defect_<n>.{py,diff});
the clauses stay as the property states them:
  1  ReactionSet.__init__ shares the stoichiometry vectors with the source reactions: `r.basis = 'wt'` on a source reaction
     silently rewrites the set (mass and atoms no longer conserved)      -> gap_source_alias/*, gap_real_histories/*;ops+rebase-source
  2  ReactionSet.reset_chemicals raises TypeError for every phase-less set (also via item / slice)
                                                                         -> gap_set_reset_chemicals/plain;*, gap_real_histories/*plain*;ops+set-reset
  3  ReactionSystem.reactant_flux leaves a stream of another package on the reaction's package and raises ValueError on a
     weight basis                                                        -> gap_reactant_flux/*;s:Q3;*, gap_reactant_flux/*;wt
"""
import numpy as np
import thermosteam as tmo
from thermosteam.exceptions import InfeasibleRegion, UndefinedChemicalAlias
from engine.api import group
from engine.sx import tmo_world as W
from contracts.C05_reactions import (
    P3, Q4, PKG, PH, TOL, ASSUME, Spec, spec_series, spec_apply, all_specs,
    _mw, weights, make_spec, make_rxn, make_program, make_material, sparse_pattern, _Scaled, set_scale, row_total,
    snapshot_rxn, same_rxn, _desc, _ph, programs, _array_units)

RXN = 'thermosteam.reaction._reaction:'


# --------------------------------------------------------------------------- shared pieces

def build_set(w, kind, descs, basis, rows, mw, chems, tagged, unit=True):
    """The Reaction objects AND the set made from them (make_program hides the former)."""
    specs = [make_spec(w, f'rx{n}', d, basis, rows, mw, unit) for n, d in enumerate(descs)]
    rxns = [make_rxn(sp, chems, tagged) for sp in specs]
    if kind == 'single': obj = rxns[0]
    elif kind == 'parallel': obj = tmo.ParallelReaction(rxns)
    elif kind == 'series': obj = tmo.SeriesReaction(rxns)
    elif kind == 'system': obj = tmo.ReactionSystem(*rxns)
    else: raise AssertionError(kind)
    prog = ({'kind': kind, 'specs': specs} if kind != 'system'
            else {'kind': 'system', 'members': [{'kind': 'single', 'specs': [sp]} for sp in specs]})
    return prog, obj, rxns, specs


def two_descs(tagged):
    """a -> b and b -> c (phase-tagged: a,l -> b,g and b,g -> c,l)."""
    a, b, c = P3
    pho = (lambda ids, pat: _ph(ids, pat)) if tagged else (lambda ids, pat: None)
    return [_desc((a, b), a, pho((a, b), 'lg')), _desc((b, c), b, pho((b, c), 'gl'))]


def update_clauses(w, e, gu, rows, u, mw, by_mass_units, label=''):
    """The sentences of the property for one application with expected flows e (units of the reacted data)."""
    for k in e:
        w.ensure(f'{label}flow[{k[0]},{k[1]}] = stoichiometric update (round-off negatives >= -1e-12 zeroed)',
                 w.Or(w.eq(gu[k], e[k]), w.And(w.lt(e[k], 0.), w.ge(e[k], -TOL), w.eq(gu[k], 0.))))
    feasible = w.And(*[w.ge(e[k], 0.) for k in e])
    for name, c in rows.items():
        before = row_total(c, u, mw if by_mass_units else None)
        after = row_total(c, gu, mw if by_mass_units else None)
        w.ensure(f'{label}{name} conserved', w.Implies(feasible, w.eq(after, before)))


def negative(w, e):
    return w.Or(*[w.lt(e[k], 0.) for k in e])


def no_negative(w, got):
    """'no chemical has a negative flow' - natively the exact float comparison (the checked call zeroes or refuses every
    negative entry, so not even -1e-300 may remain; the tolerant native `ge` would accept -1e-10)."""
    if w.symbolic: return w.And(*[w.ge(got[k], 0.) for k in got])
    return all(float(got[k]) >= 0. for k in got)


# --------------------------------------------------------------------------- 1. a set after one of its source reactions was re-based

def alias_configs(tier):
    out = []
    for tagged in (False, True):
        for kind in ('parallel', 'series'):
            for which in (0, 1):
                for b0 in ('mol', 'wt'):
                    if tier == 'quick' and (tagged, kind, which, b0) not in (
                            (False, 'parallel', 0, 'mol'), (False, 'series', 1, 'mol'), (True, 'parallel', 1, 'mol'), (False, 'parallel', 1, 'wt')):
                        continue
                    out.append({'name': f'{"tagged" if tagged else "plain"};{kind};rebased={which};{b0}', 'tagged': tagged,
                                'kind': kind, 'which': which, 'b0': b0})
    return out


@group('C05/gap_source_alias', configs=alias_configs, l0=True, assumptions=ASSUME,
       functions=[RXN + 'ReactionSet.__init__', RXN + 'set_reaction_basis', RXN + 'Reaction.basis', RXN + 'Reaction._rescale',
                  RXN + 'Reaction.__call__', RXN + 'ParallelReaction._reaction', RXN + 'SeriesReaction._reaction'])
def source_alias(w, cfg):
    """History: reactions r0, r1 -> set(r0, r1) -> the basis of one SOURCE reaction is switched (both bases describe the same
    reaction) -> the set is applied.  The set still is the balanced set that was written: stoichiometric update and
    conservation."""
    W.reset_caches()
    w = _Scaled(w)
    tagged, b0 = cfg['tagged'], cfg['b0']
    b1 = 'wt' if b0 == 'mol' else 'mol'
    chems = W.thermo(P3).chemicals
    mw = _mw(P3)
    rows = weights(w, P3)
    prog, obj, rxns, specs = build_set(w, cfg['kind'], two_descs(tagged), b0, rows, mw, chems, tagged)
    pre = snapshot_rxn(obj)
    rxns[cfg['which']].basis = b1
    w.ensure('set unchanged by re-basing a reaction it was built from', same_rxn(w, pre, snapshot_rxn(obj)))
    pattern = sparse_pattern({'kind': cfg['kind'], 'rxns': two_descs(tagged)}, 'P3', tagged)
    s, read, feed, _ = make_material(w, 's', 'P3', tagged, pattern=pattern)
    by_mass = b0 == 'wt'
    u = _array_units(feed, mw, by_mass)
    e = spec_apply(prog, u)
    set_scale(w, prog, u, rows, mw)
    try:
        obj(s)
    except InfeasibleRegion:
        w.ensure('InfeasibleRegion only if a flow would be negative', negative(w, e))
        return
    gu = _array_units(read(), mw, by_mass)
    update_clauses(w, e, gu, rows, u, mw, by_mass)
    sp0 = specs[0]
    w.canary('canary: reactant consumed = X * feed + 1', w.eq(u[sp0.r] - gu[sp0.r], sp0.X * u[sp0.r] + 1))


# --------------------------------------------------------------------------- 2. reaction sets moved to another package

def setreset_configs(tier):
    out = []
    for tagged in (False, True):
        for kind in ('parallel', 'series'):
            for via in ('set', 'item', 'slice'):
                for then in ('call', 'copy-wt', 'handle'):
                    if then == 'handle' and via == 'set': continue
                    if tier == 'quick' and kind == 'series' and (via, then) not in (('set', 'call'), ('item', 'handle')): continue
                    if tier == 'quick' and then == 'copy-wt' and via != 'set': continue
                    if tier == 'quick' and kind == 'parallel' and (via, then) == ('item', 'handle'): continue
                    out.append({'name': f'{"tagged" if tagged else "plain"};{kind};via={via};then={then}', 'tagged': tagged,
                                'kind': kind, 'via': via, 'then': then})
    return out


@group('C05/gap_set_reset_chemicals', configs=setreset_configs, l0=True, assumptions=ASSUME,
       functions=[RXN + 'ReactionSet.reset_chemicals', RXN + 'ReactionItem.reset_chemicals', RXN + 'ReactionSet.__getitem__',
                  RXN + 'ReactionSet.copy', RXN + 'ReactionSet._rescale', RXN + 'ReactionSet.reactants', RXN + 'set_reaction_basis',
                  RXN + 'Reaction.__call__', RXN + 'ParallelReaction._reaction', RXN + 'SeriesReaction._reaction'])
def set_reset_chemicals(w, cfg):
    """A reaction SET moved to another package (reordered superset) - directly, through one of its items, or through a
    slice of it - still is the same set, chemical by chemical: applied to a stream of that package it is the
    stoichiometric update of the written reactions and conserves; so does its copy on the other basis."""
    W.reset_caches()
    w = _Scaled(w)
    tagged = cfg['tagged']
    chems = W.thermo(P3).chemicals
    new = W.thermo(Q4).chemicals
    mw = _mw(Q4)
    rows = weights(w, Q4)
    descs = two_descs(tagged)
    prog, obj, rxns, specs = build_set(w, cfg['kind'], descs, 'mol', rows, mw, chems, tagged)
    handle = obj if cfg['via'] == 'set' else (obj[1] if cfg['via'] == 'item' else obj[0:2])
    handle.reset_chemicals(new)
    w.ensure('set is on the new package', obj.chemicals is new and handle.chemicals is new)
    w.ensure('reactants kept', tuple(obj.reactants) == tuple(((sp.r[0], sp.r[1]) if tagged else sp.r[1]) for sp in specs))
    by_mass = cfg['then'] == 'copy-wt'
    target = obj.copy('wt') if by_mass else obj
    if cfg['then'] == 'handle':      # the item / slice through which the set was moved is the same reaction(s) as before
        target = handle
        if cfg['via'] == 'item': prog = {'kind': 'single', 'specs': [specs[1]]}
    pattern = sparse_pattern({'kind': cfg['kind'], 'rxns': descs}, 'Q4', tagged)
    s, read, feed, _ = make_material(w, 's', 'Q4', tagged, pattern=pattern)
    u = _array_units(feed, mw, by_mass)
    if by_mass:      # the written (molar) coefficients per mass: nu_k MW_k / (|nu_r| MW_r); same reaction
        prog = {'kind': prog['kind'], 'specs': [Spec({k: v * mw[k[1]] for k, v in sp.nu.items()}, sp.r, sp.X, 'wt') for sp in specs]}
    e = spec_apply(prog, u)
    set_scale(w, prog, u, rows, mw)
    try:
        target(s)
    except InfeasibleRegion:
        w.ensure('InfeasibleRegion only if a flow would be negative', negative(w, e))
        return
    w.ensure('stream keeps its package', s.chemicals.IDs == Q4 and s._imol._chemicals is s.chemicals)
    gu = _array_units(read(), mw, by_mass)
    update_clauses(w, e, gu, rows, u, mw, by_mass)
    sp0 = all_specs(prog)[0]
    w.canary('canary: reactant consumed = X * feed + 1', w.eq(u[sp0.r] - gu[sp0.r], sp0.X * u[sp0.r] + 1))


# --------------------------------------------------------------------------- 3. kinetic reactions (own __call__)

def kinetic_configs(tier):
    out = []
    for tagged in (False, True):
        for pname in ('single3[Water]', 'single3[Ethanol]', 'single2[Methanol>Water]'):
            for pkg in ('P3', 'Q3', 'Q4'):
                for named in (True, False):
                    if not named and (pkg != 'P3' or pname != 'single3[Ethanol]'): continue
                    if tier == 'quick' and pkg == 'Q4' and (tagged or pname != 'single3[Water]'): continue
                    if tier == 'quick' and pkg == 'Q3' and pname == 'single2[Methanol>Water]': continue
                    if tier == 'quick' and pname.startswith('single3') and (tagged, pname[8:-1], pkg, named) not in (
                            (False, 'Water', 'Q4', True), (False, 'Ethanol', 'Q3', True),
                            (True, 'Water', 'Q3', True), (True, 'Ethanol', 'P3', False)): continue
                    unit = tier == 'quick' and not pname.startswith('single2')
                    vol = 'leaf' if (tier == 'thorough' or pname.startswith('single2')) else '2'
                    out.append({'name': f'{"tagged" if tagged else "plain"};{pname};s:{pkg};reactant={"named" if named else "first"};volume={vol}' + (';unit' if unit else ''),
                                'tagged': tagged, 'prog': programs(tier, tagged)[pname], 'pkg': pkg, 'named': named, 'unit': unit, 'vol': vol})
    return out


@group('C05/gap_kinetic', configs=kinetic_configs, l0=True, assumptions=ASSUME,
       functions=[RXN + 'KineticReaction.__init__', RXN + 'KineticReaction.__call__', RXN + 'KineticReaction.conversion',
                  RXN + 'KineticReaction._rate', RXN + 'Reaction._rescale', RXN + 'Reaction.reset_chemicals'])
def kinetic(w, cfg):
    """KineticReaction (rate x volume of reactant reacted, any value >= 0) has its own __call__: the change is in
    stoichiometric proportion, a balanced stoichiometry conserves mass and elements, no negative flow on normal return,
    InfeasibleRegion only when a flow would be negative; also on a stream of another package."""
    W.reset_caches()
    w = _Scaled(w)
    tagged, pkg = cfg['tagged'], cfg['pkg']
    IDs = PKG[pkg]
    chems = W.thermo(P3).chemicals
    mw = _mw(IDs)
    rows = weights(w, IDs)
    desc = cfg['prog']['rxns'][0]
    sp = make_spec(w, 'rx', desc, 'mol', rows, mw, cfg['unit'])
    rate = w.real('rate', lo=0.)
    vol = w.real('volume', lo=0.) if cfg['vol'] == 'leaf' else 2.      # rate * volume with both symbolic is a nonlinear extent

    class Kinetic(tmo.KineticReaction):
        def rate(self, stream): return rate
        def volume(self, stream): return vol

    if tagged:
        d = {ID: (ph, v) for (ph, ID), v in sp.nu.items()}
        kw = {'phases': PH}
    else:
        d = {ID: v for (ph, ID), v in sp.nu.items()}
        kw = {}
    if cfg['named']:
        rxn = Kinetic(d, chems, reactant=sp.r[1], **kw)
    else:
        first = [k for k in sp.nu if k[1] == min((k[1] for k in sp.nu), key=P3.index)][0]
        w.assume(w.lt(sp.nu[first], 0.))      # the reference chemical must be consumed for "per reactant" to be defined
        sp = Spec(sp.nu, first, sp.X, 'mol')
        rxn = Kinetic(d, chems, **kw)         # the first chemical with a coefficient is taken as reference
    pattern = sparse_pattern(cfg['prog'], pkg, tagged)
    s, read, feed, _ = make_material(w, 's', pkg, tagged, pattern=pattern)
    xi = rate * vol
    e = {k: feed[k] + (xi * sp.nu[k] / (-sp.nu[sp.r]) if k in sp.nu else 0.) for k in feed}
    if not w.symbolic:
        w.scale = (1. + float(xi)) * (1. + sum(abs(float(v)) for v in sp.nu.values()) / abs(float(sp.nu[sp.r]))) * (
            1. + sum(abs(float(v)) for v in feed.values())) * (1. + max(float(v) for c in rows.values() for v in c.values()))
    change = rxn.conversion(s)          # the change as a query (on the stream's package, to which the reaction moves)
    rws = change.rows if tagged else [change]
    w.ensure('conversion() = stoichiometric change, material unchanged', w.And(
        *[w.eq(rws[i].dct.get(j, 0.), e[ph, ID] - feed[ph, ID]) for i, ph in enumerate(PH if tagged else (None,)) for j, ID in enumerate(IDs)],
        *[w.eq(v, feed[k]) for k, v in read().items()]))
    try:
        rxn(s)
    except InfeasibleRegion:
        w.ensure('InfeasibleRegion only if a flow would be negative', negative(w, e))
        return
    except UndefinedChemicalAlias:
        w.ensure('UndefinedChemical only if the reaction involves a chemical unknown to the stream', False)
        return
    got = read()
    w.ensure('stream keeps its package', s.chemicals.IDs == IDs and s._imol._chemicals is s.chemicals)
    w.ensure('no negative flow on normal return', no_negative(w, got))
    update_clauses(w, e, got, rows, feed, mw, False)
    w.canary('canary: reactant consumed = rate * volume + 1', w.eq(feed[sp.r] - got[sp.r], xi + 1))


# --------------------------------------------------------------------------- 4. histories on real chemicals (bounded)

RA = ('H2', 'O2', 'H2O', 'CH4', 'CO2', 'CO')            # the reactions' package
RB = ('CO2', 'H2O', 'CO', 'CH4', 'O2', 'H2')            # same chemicals, other order
RC = ('N2', 'CO', 'H2O', 'CH4', 'H2', 'O2', 'CO2')      # reordered superset
RPK = {'RA': RA, 'RB': RB, 'RC': RC}
W.preload([RA, RB, RC])
RPH = {'H2O': 'l'}                                        # phase of each chemical in the phase-tagged forms (default 'g')

# written (balanced) molar coefficients, reactant
REAL_RX = {
    'h2': ({'H2': -2., 'O2': -1., 'H2O': 2.}, 'H2'),
    'h2/O2': ({'H2': -2., 'O2': -1., 'H2O': 2.}, 'O2'),                   # the other choice of limiting reactant
    'ch4': ({'CH4': -1., 'O2': -2., 'CO2': 1., 'H2O': 2.}, 'CH4'),
    'co': ({'CO': -2., 'O2': -1., 'CO2': 2.}, 'CO'),
    'pox': ({'CH4': -1., 'O2': -1.5, 'CO': 1., 'H2O': 2.}, 'CH4'),        # fractional coefficient
    'wgs': ({'CO': -1., 'H2O': -1., 'CO2': 1., 'H2': 1.}, 'CO'),
    'half': ({'H2': -0.5, 'O2': -0.25, 'H2O': 0.5}, 'H2'),                # fractional, reactant coefficient not -1
}
REAL_PROGRAMS = {
    'single[h2]': ('single', ['h2']), 'single[h2/O2]': ('single', ['h2/O2']), 'single[pox]': ('single', ['pox']),
    'single[wgs]': ('single', ['wgs']), 'single[half]': ('single', ['half']),
    'parallel[ch4|h2]': ('parallel', ['ch4', 'h2']), 'parallel[ch4|pox]': ('parallel', ['ch4', 'pox']),
    'parallel[ch4|pox|h2|co]': ('parallel', ['ch4', 'pox', 'h2', 'co']),
    'series[pox;co]': ('series', ['pox', 'co']), 'series[ch4;wgs]': ('series', ['ch4', 'wgs']), 'series[pox;co;wgs]': ('series', ['pox', 'co', 'wgs']),
    'system[h2;co]': ('system', [('single', ['h2']), ('single', ['co'])]),
    'system[par(ch4|pox);ser(co;wgs)]': ('system', [('parallel', ['ch4', 'pox']), ('series', ['co', 'wgs'])]),
    'system[sys(h2;pox);co]': ('system', [('system', [('single', ['h2']), ('single', ['pox'])]), ('single', ['co'])]),   # nested
}


def _rng(*key):
    import random, zlib, os
    return random.Random(zlib.crc32(repr(key).encode()) + 7919 * int(os.environ.get('VERIF_SEED', '0') or 0))


def _real_key(tagged, ID):
    return ((RPH.get(ID, 'g') if tagged else None), ID)


def _real_reaction(name, X, basis, tagged, form, chems):
    """One real Reaction from its written coefficients; returns (Spec in mol, Reaction)."""
    nu, reactant = REAL_RX[name]
    mw = {c.ID: c.MW for c in chems}
    sp = Spec({_real_key(tagged, ID): v for ID, v in nu.items()}, _real_key(tagged, reactant), X, 'mol')
    written = {ID: (v * mw[ID] if basis == 'wt' else v) for ID, v in nu.items()}
    kw = {}
    if form == 'corrected':
        # written with unit coefficients, balanced by the library (correct_atomic_balance keeps the reactant's coefficient);
        # atoms are counted per mol, so the written form is molar and the weight basis is reached through copy('wt')
        text = {ID: (-1. if v < 0 else 1.) for ID, v in nu.items()}
        kw['correct_atomic_balance'] = True
        written = text
    if form in ('text', 'corrected'):
        term = lambda ID, v: f'{abs(v):.12g} {ID}' + (f',{RPH.get(ID, "g")}' if tagged else '')
        arg = (' + '.join(term(ID, v) for ID, v in written.items() if v < 0) + ' -> '
               + ' + '.join(term(ID, v) for ID, v in written.items() if v > 0))
    else:
        arg = {ID: ((RPH.get(ID, 'g'), v) if tagged else v) for ID, v in written.items()}
    if tagged: kw['phases'] = PH       # a text that names only one phase would otherwise give a reaction on that phase alone
    if form == 'corrected':
        rxn = tmo.Reaction(arg, reactant=reactant, X=X, chemicals=chems, **kw)
        if basis == 'wt': rxn = rxn.copy('wt')
    else:
        rxn = tmo.Reaction(arg, reactant=reactant, X=X, chemicals=chems, basis=basis, **kw)
    return sp, rxn


def _real_program(desc, rng, basis, tagged, form, chems, leaves):
    """desc = (kind, members) -> (program for spec_apply, real object); leaves collects (Spec, plain Reaction objects)."""
    kind, members = desc
    if kind == 'system':
        parts = [_real_program(m, rng, basis, tagged, form, chems, leaves) for m in members]
        return {'kind': 'system', 'members': [p for p, _ in parts]}, tmo.ReactionSystem(*[o for _, o in parts])
    made = [_real_reaction(m, rng.choice((0., 0.25, 0.5, 0.9, 1.)), basis, tagged, form, chems) for m in members]
    leaves.extend(made)
    specs = [sp for sp, _ in made]
    rxns = [r for _, r in made]
    obj = rxns[0] if kind == 'single' else (tmo.ParallelReaction(rxns) if kind == 'parallel' else tmo.SeriesReaction(rxns))
    return {'kind': kind, 'specs': specs}, obj


def _real_stream(pkg, tagged, rng, rich):
    th = W.thermo(RPK[pkg])
    keys = [(ph, ID) for ph in (PH if tagged else (None,)) for ID in RPK[pkg]]
    flows = {}
    for k in keys:
        ID = k[1]
        if ID == 'N2': v = 0.                                   # in the package, not in the stream
        elif ID == 'O2' and k[0] in (None, 'g'): v = rng.choice((400., 1000.)) if rich else rng.choice((0., 3., 400.))
        else: v = rng.choice((0., 0., 1., 7.5, 20., 120.))
        flows[k] = v
    if tagged:
        s = tmo.MultiStream(None, phases=PH, thermo=th)
        for (ph, ID), v in flows.items(): s.imol[ph, ID] = v
    else:
        s = tmo.Stream(None, thermo=th, phase='g')
        for (ph, ID), v in flows.items(): s.imol[ID] = v
    return s, flows


def _real_read(s, tagged):
    """(by position, by name, by name through the mass view / MW) as {(phase|None, ID): mol}."""
    IDs = s.chemicals.IDs
    mw = s.chemicals.MW
    pos, name, mass = {}, {}, {}
    for ph, sv in W.rows_of(s):
        for j, ID in enumerate(IDs):
            k = ((ph if tagged else None), ID)
            pos[k] = sv.dct.get(j, 0.)
            name[k] = s.imol[ph, ID] if tagged else s.imol[ID]
            mass[k] = (s.imass[ph, ID] if tagged else s.imass[ID]) / mw[j]
    return pos, name, mass


REAL_OPS = {
    'single': ['call a', 'call b', 'force a', 'views a', 'setX', 'copy-basis', 'arr a', 'conv a', 'conv b', 'reset'],
    'parallel': ['call a', 'call b', 'force b', 'views a', 'setX', 'copy-basis', 'arr a', 'item a', 'item b', 'slice a'],
    'series': ['call a', 'call b', 'force b', 'views a', 'setX', 'copy-basis', 'arr a', 'item a', 'item b', 'slice a'],
    'system': ['call a', 'call b', 'force a', 'views a', 'setX', 'arr a'],
}


def _histories(kind, L, extra):
    import itertools
    ops = REAL_OPS[kind] + ([extra] if extra else [])
    out = []
    for n in range(0, L + 1):
        for seq in itertools.product(ops, repeat=n):
            if extra and extra not in seq: continue
            if seq.count('reset') + seq.count('set-reset') > 1 or seq.count('rebase-source') > 1 or seq.count('rebase-member') > 1: continue
            out.append(list(seq) + ['call a', 'call b'])
    return out


def real_configs(tier):
    out = []
    pairs = [('RA', 'RB'), ('RB', 'RC'), ('RC', 'RA')]
    for pname, desc in REAL_PROGRAMS.items():
        kind = desc[0]
        for tagged in (False, True):
            for basis in ('mol', 'wt'):
                for n, (pa, pb) in enumerate(pairs):
                    for form in ('dict', 'text', 'corrected'):
                        for extra in (None, 'rebase-source', 'set-reset', 'rebase-member'):
                            if extra == 'rebase-member':
                                if kind != 'system': continue
                            elif extra and kind not in ('parallel', 'series'): continue
                            selected = True
                            if True:
                                # two configurations per program (phase-less on one basis, phase-tagged on the other), form and
                                # package pair rotated so that every pair of dimension values occurs; the source-aliasing and
                                # set-reset operations on one program per set class
                                i = list(REAL_PROGRAMS).index(pname)
                                if (basis == 'wt') != ((i + tagged) % 2 == 1): selected = False
                                h = i + 2 * tagged
                                if n != h % 3 or form != ('dict', 'text', 'corrected')[(h // 3 + tagged) % 3]: selected = False
                                if extra and pname not in ('parallel[ch4|h2]', 'series[pox;co]', 'system[h2;co]'): selected = False
                            if tier == 'quick' and not selected: continue
                            if not selected and form != ('dict', 'text', 'corrected')[(i + n + tagged + (basis == 'wt')) % 3]:
                                continue      # thorough: program x tagged x basis x package pair in full, the written form rotated
                            cfg = {'name': f'{pname};{"tagged" if tagged else "plain"};{basis};{form};a:{pa},b:{pb}' + (f';ops+{extra}' if extra else ''),
                                   'prog': pname, 'tagged': tagged, 'basis': basis, 'form': form, 'pa': pa, 'pb': pb, 'extra': extra, 'tier': tier, 'L': 2}
                            out.append(cfg)
                            if tier == 'thorough' and selected:       # the quick selection also with every sequence of three operations
                                out.append(dict(cfg, name=cfg['name'] + ';L=3', L=3))
    return out


@group('C05/gap_real_histories', configs=real_configs, mode='B',
       functions=[RXN + 'Reaction.__call__', RXN + 'Reaction.force_reaction', RXN + 'Reaction.conversion', RXN + 'as_material_array',
                  RXN + 'Reaction.__init__', RXN + 'Reaction.correct_atomic_balance', RXN + 'Reaction.copy', RXN + 'ReactionSet.copy',
                  RXN + 'Reaction.reset_chemicals', RXN + 'ReactionSet.reset_chemicals', RXN + 'ReactionSet.__getitem__',
                  RXN + 'ReactionItem.__init__', RXN + 'ReactionItem.X', RXN + 'Reaction.X', RXN + 'ReactionSet.X', RXN + 'ReactionSystem.X',
                  RXN + 'ReactionSystem.__init__', RXN + 'ReactionSystem._reaction', RXN + 'ParallelReaction._reaction',
                  RXN + 'SeriesReaction._reaction', RXN + 'set_reaction_basis', RXN + 'Reaction.basis',
                  'thermosteam.reaction._parse:get_stoichiometric_array', 'thermosteam.reaction._xparse:get_stoichiometric_array',
                  'thermosteam.indexer:ChemicalIndexer.reset_chemicals', 'thermosteam.indexer:MaterialIndexer.reset_chemicals',
                  'thermosteam._stream:Stream.F_mass', 'thermosteam._chemicals:CompiledChemicals.formula_array'],
       notes='bounded: 7 real balanced reactions over H2/O2/H2O/CH4/CO2/CO (+N2) combined into 14 programs (single, parallel, series, '
             'system incl. nested; 1-4 reactions) x phase-less/phase-tagged x mol/wt x written as dict / text / balanced by '
             'correct_atomic_balance x streams on the same, a reordered and a superset package; EVERY operation sequence of length '
             '<= 2 (thorough: program x tagged x basis x package pair in full with the form rotated, and length <= 3 on the quick selection) over {call, force_reaction, conversion, views, new conversions, copy on the other basis, '
             'react the stream\'s own array, item/slice of a set, reset_chemicals, re-base a source reaction} followed by a call on '
             'each stream, 2 deterministic numeric samples each (VERIF_SEED); observed after every step on every stream: flows by '
             'position, by name, through the mass view, F_mass and formula_array @ mol (the real element balance)')
def real_histories(w, cfg):
    """After every operation of a history the streams hold exactly the stoichiometric update of what they held before
    (streams not operated on: unchanged), total mass and every real element flow are unchanged, no flow is negative on a
    normal return of a call; InfeasibleRegion only when a flow would be negative."""
    desc = REAL_PROGRAMS[cfg['prog']]
    kind, tagged, form = desc[0], cfg['tagged'], cfg['form']
    chemsA = W.thermo(RA).chemicals
    n_hist = n_steps = 0
    failed = set()

    def ensure(name, cond, **info):
        # one obligation per clause name and configuration (the first failing history is kept as the witness)
        if not cond and name not in failed:
            failed.add(name)
            w.ensure(name, False, **{k: str(v)[:400] for k, v in info.items()})

    for hist in _histories(kind, cfg['L'], cfg['extra']):
        for sample in range(2 if (cfg['tier'] != 'quick' or len(hist) <= 3) else 1):
            W.reset_caches() if sample == 0 and n_hist % 7 == 0 else None     # most histories also inherit the caches of earlier ones
            rng = _rng(cfg['name'], tuple(hist), sample)
            leaves = []
            basis = cfg['basis']
            prog, obj = _real_program(desc, rng, basis, tagged, form, chemsA, leaves)
            specs = [sp for sp, _ in leaves]
            streams = {'a': _real_stream(cfg['pa'], tagged, rng, sample == 0), 'b': _real_stream(cfg['pb'], tagged, rng, True)}
            state = {n: dict(f) for n, (s, f) in streams.items()}
            rpkg = 'RA'
            info = dict(history=hist, sample=sample)
            n_hist += 1
            alive = True
            member_rebased = False
            for step_no, op in enumerate(hist):
                if not alive: break
                what, _, sn = op.partition(' ')
                info['step'] = f'{step_no}:{op}'
                before = {n: (s.F_mass, s.chemicals.formula_array @ s.mol) for n, (s, f) in streams.items()}
                expect_change = None
                try:
                    if what in ('call', 'force', 'item', 'slice', 'arr'):
                        s = streams[sn][0]
                        target, p = obj, prog
                        if what == 'item': target, p = obj[0], {'kind': 'single', 'specs': [specs[0]]}
                        if what == 'slice': target, p = obj[1:], {'kind': kind, 'specs': specs[1:]}
                        e = spec_apply(p, state[sn])
                        if what == 'arr':
                            if basis != 'mol' or s.chemicals.IDs != RPK[rpkg]: continue      # arrays are reacted as they are
                            target(s.imol.data)
                        elif what == 'force': target.force_reaction(s)
                        else: target(s)
                        state[sn] = e
                        expect_change = sn
                    elif what == 'conv':
                        s = streams[sn][0]
                        e = spec_apply(prog, state[sn])
                        change = obj.conversion(s)
                        cIDs = RPK[rpkg]
                        mwr = W.thermo(cIDs).chemicals.MW
                        dense = np.asarray(change.to_array() if hasattr(change, 'to_array') else change, float).reshape(len(PH) if tagged else 1, len(cIDs))
                        for i, ph in enumerate(PH if tagged else (None,)):
                            for j, ID in enumerate(cIDs):
                                got = dense[i, j] / (mwr[j] if basis == 'wt' else 1.)
                                ensure('conversion() returns the stoichiometric change', w.eq(got, e.get((ph, ID), 0.) - state[sn].get((ph, ID), 0.)),
                                       **info, key=(ph, ID), got=got)
                    elif what == 'views':
                        _real_read(streams[sn][0], tagged)
                    elif what == 'setX':
                        newX = [rng.choice((0., 0.1, 0.6, 1.)) for _ in specs]
                        if kind == 'single': obj.X = newX[0]
                        elif kind == 'system': obj.X = _nestX(desc, iter(newX))
                        else:
                            obj[0].X = newX[0]                         # through an item
                            arr = obj.X.copy(); arr[1:] = newX[1:]
                            obj.X = arr                                # through the set
                        for sp, X in zip(specs, newX): sp.X = X
                    elif what == 'copy-basis':
                        basis = 'wt' if basis == 'mol' else 'mol'
                        obj = obj.copy(basis)
                    elif what in ('reset', 'set-reset'):
                        rpkg = cfg['pb'] if cfg['pb'] != rpkg else cfg['pa']      # always another package than the current one
                        obj.reset_chemicals(W.thermo(RPK[rpkg]).chemicals)
                    elif what == 'rebase-source':
                        leaves[-1][1].basis = 'wt' if leaves[-1][1]._basis == 'mol' else 'mol'
                    elif what == 'rebase-member':
                        # a member reaction of a ReactionSystem is re-based in place after the system was built (added after seeded
                        # change C05_7): the system must either still act as its members do or refuse, never react on mixed bases
                        leaves[-1][1].basis = 'wt' if leaves[-1][1]._basis == 'mol' else 'mol'
                        member_rebased = True
                    else:
                        raise AssertionError(op)
                except InfeasibleRegion:
                    ensure('InfeasibleRegion only if a flow would be negative', what in ('call', 'item', 'slice', 'arr') and min(e.values()) < 0., **info)
                    alive = False
                    continue
                except RuntimeError as err:
                    if not (member_rebased and 'basis' in str(err)): raise
                    alive = False       # a refusal (the property constrains normal returns only; the state after the error is not specified)
                    continue
                n_steps += 1
                for n, (s, f) in streams.items():
                    pos, byname, bymass = _real_read(s, tagged)
                    exp = state[n]
                    scale = 1. + max(abs(v) for v in f.values())
                    close = lambda x, y: abs(x - y) <= 1e-9 * scale
                    L = 'after a reaction: ' if n == expect_change else 'stream not operated on: '
                    ensure('stream keeps its package', s.chemicals.IDs == RPK[cfg['pa' if n == 'a' else 'pb']] and s._imol._chemicals is s.chemicals, **info, stream=n)
                    bad = [k for k in exp if not close(pos[k], exp[k])]
                    ensure(L + 'flows = stoichiometric update', not bad, **info, stream=n, key=bad[:1], got=[pos[k] for k in bad[:1]], expected=[exp[k] for k in bad[:1]])
                    bad = [k for k in exp if not close(byname[k], exp[k])]
                    ensure(L + 'flows read by name = stoichiometric update', not bad, **info, stream=n, key=bad[:1], got=[byname[k] for k in bad[:1]], expected=[exp[k] for k in bad[:1]])
                    bad = [k for k in exp if not close(bymass[k], exp[k])]
                    ensure(L + 'mass flows read by name = MW * stoichiometric update', not bad, **info, stream=n, key=bad[:1])
                    if n == expect_change and what != 'force':
                        ensure('no negative flow on normal return', all(v >= 0. for v in pos.values()), **info, stream=n)
                    F0, el0 = before[n]
                    el1 = s.chemicals.formula_array @ s.mol
                    ensure(L + 'F_mass unchanged', abs(s.F_mass - F0) <= 1e-9 * 50. * scale, **info, stream=n, before=F0, after=s.F_mass)
                    ensure(L + 'every element flow (formula_array @ mol) unchanged', bool(np.all(np.abs(el1 - el0) <= 1e-9 * 10. * scale)), **info, stream=n)
    w.ensure('histories were run', n_hist > 0 and n_steps > 0)
    for name in ('stream keeps its package', 'after a reaction: flows = stoichiometric update', 'no negative flow on normal return',
                 'after a reaction: F_mass unchanged', 'after a reaction: every element flow (formula_array @ mol) unchanged'):
        if name not in failed: w.ensure(name, True)
    w.note(histories=n_hist, steps=n_steps)


def _nestX(desc, it):
    """Conversions in the nesting of a ReactionSystem (what its X property reads and accepts)."""
    kind, members = desc
    if kind == 'system': return [_nestX(m, it) for m in members]
    xs = [next(it) for _ in members]
    return xs[0] if kind == 'single' else np.array(xs)


# --------------------------------------------------------------------------- 5. alternative entry points and skipped input families (symbolic)

def entry_configs(tier):
    out = []
    def add(case, tagged, pname, basis, pkg='P3', **kw):
        unit = not pname.startswith('single2') and not (tier == 'thorough' and pname.startswith('single'))
        out.append(dict({'name': f'{case};{"tagged" if tagged else "plain"};{pname};{basis};{pkg}' + (';unit' if unit else ''), 'case': case,
                         'tagged': tagged, 'pname': pname, 'basis': basis, 'pkg': pkg, 'unit': unit}, **kw))
    T = tier == 'thorough'
    # the mass view of a MultiStream (2-d data wrapped in dictionary views)
    add('massview', True, 'single2[Water>Ethanol]', 'wt')
    add('massview', True, 'parallel[a>b|b>c]', 'wt')
    if T: add('massview', True, 'single3[Water]', 'wt'); add('massview', True, 'series[a>b;b>c]', 'wt'); add('massview', True, 'system[par(a>b|b>c);c>a]', 'wt')
    # the stream's own molar data handed over as an array, observed through the stream
    add('own-array', False, 'single3[Ethanol]', 'mol')
    add('own-array', True, 'single3[Water]', 'mol')
    if T: add('own-array', False, 'series[a>b;b>c]', 'mol'); add('own-array', True, 'parallel[a>b|b>c]', 'mol')
    # __call__ with the feasibility check switched off (the branch shared with force_reaction)
    add('unchecked', False, 'single2[Methanol>Water]', 'mol', 'Q3')
    add('unchecked', False, 'single2[Water>Ethanol]', 'wt')
    add('unchecked', True, 'single2[Water>Ethanol]', 'mol')
    if T:
        add('unchecked', False, 'single3[Water]', 'mol', 'Q3'); add('unchecked', True, 'single3[Water]', 'mol')
        add('unchecked', False, 'parallel[a>b|b>c]', 'wt', 'Q3'); add('unchecked', True, 'series[a>b;b>c]', 'mol', 'Q3')
    # Reaction.conversion: the change, without changing the material
    add('conversion', False, 'single3[Water]', 'mol')
    add('conversion', False, 'single3[Ethanol]', 'wt', 'Q3')
    add('conversion', True, 'single3[Water]', 'mol', 'Q3')
    add('conversion-array', False, 'single3[Methanol]', 'mol')
    if T: add('conversion', True, 'single3[Ethanol]', 'wt'); add('conversion-array', True, 'single3[Water]', 'mol')
    # an item / a slice of a set applied to a stream
    add('item', False, 'parallel[a>b|b>c]', 'wt', 'Q3')
    add('item', True, 'series[a>b;b>c]', 'mol')
    add('slice', False, 'series[a>b;b>c]', 'mol', 'Q3')
    if T: add('slice', True, 'parallel[a>b|b>c]', 'wt'); add('item', False, 'series[a>b;a>bc]', 'mol')
    # a reaction system inside a reaction system
    add('nested', False, 'series[a>b;b>c]', 'mol')
    if T: add('nested', True, 'series[a>b;b>c]', 'wt', 'Q3')
    # exact zeros: no stoichiometry at all, no reactant in the feed
    add('empty-reaction', False, 'single3[Water]', 'mol', 'Q3')
    add('empty-reaction', False, 'single3[Water]', 'wt')
    add('no-reactant-in-feed', False, 'single3[Water]', 'wt', 'Q3')
    add('no-reactant-in-feed', True, 'parallel[a>b|b>c]', 'mol')
    # materials the reaction must refuse unchanged
    add('phases-differ', True, 'single3[Water]', 'mol')
    add('phases-differ', True, 'parallel[a>b|b>c]', 'wt')
    return out


def _flat(prog):
    return {'kind': prog['kind'], 'rxns': prog['rxns']} if prog['kind'] != 'system' else prog


@group('C05/gap_entry_points', configs=entry_configs, l0=True, assumptions=ASSUME,
       functions=[RXN + 'Reaction.__call__', RXN + 'Reaction.conversion', RXN + 'as_material_array', RXN + 'ReactionSet.__getitem__',
                  RXN + 'ReactionItem.__init__', RXN + 'ReactionItem.X', RXN + 'ReactionSystem.__init__', RXN + 'ReactionSystem._reaction',
                  RXN + 'Reaction.__init__', 'thermosteam.functional:remove_negligible_negative_values',
                  'thermosteam.base.dictionary_view:MassFlowDict', 'thermosteam.indexer:ChemicalIndexer.__getitem__',
                  'thermosteam.indexer:MaterialIndexer.__getitem__'])
def entry_points(w, cfg):
    """The property's sentences at the entry points and on the input families the first round did not reach."""
    W.reset_caches()
    w = _Scaled(w)
    case, tagged, basis, pkg = cfg['case'], cfg['tagged'], cfg['basis'], cfg['pkg']
    IDs = PKG[pkg]
    chems = W.thermo(P3).chemicals
    mw = _mw(IDs)
    rows = weights(w, IDs)
    cfgprog = programs('thorough', tagged)[cfg['pname']]
    by_mass = basis == 'wt'

    if case in ('item', 'slice', 'nested'):
        prog, obj, rxns, specs = build_set(w, cfgprog['kind'], cfgprog['rxns'], basis, rows, mw, chems, tagged, unit=cfg['unit'])
        if case == 'item': obj, prog = obj[1], {'kind': 'single', 'specs': [specs[1]]}
        elif case == 'slice': obj, prog = obj[1:], {'kind': prog['kind'], 'specs': specs[1:]}
        else:
            third = make_spec(w, 'rx2', _desc((P3[2], P3[0]), P3[2], _ph((P3[2], P3[0]), 'll') if tagged else None), basis, rows, mw, cfg['unit'])
            inner = tmo.ReactionSystem(obj, make_rxn(third, chems, tagged))
            obj = tmo.ReactionSystem(inner, make_rxn(specs[0], chems, tagged))
            prog = {'kind': 'system', 'members': [{'kind': 'system', 'members': [prog, {'kind': 'single', 'specs': [third]}]},
                                                  {'kind': 'single', 'specs': [specs[0]]}]}
    elif case == 'empty-reaction':
        X = w.real('rx.X', lo=0., hi=1.)
        obj = tmo.Reaction(None, reactant='Water', X=X, chemicals=chems, basis=basis)
        prog = {'kind': 'single', 'specs': [Spec({(None, 'Water'): -1.}, (None, 'Water'), 0., basis)]}      # nothing is written: no change
    else:
        prog, obj = make_program(w, cfgprog, basis, rows, mw, chems, tagged, unit_reactant=cfg['unit'])
    pattern = sparse_pattern(_flat(cfgprog), pkg, tagged)
    if case == 'no-reactant-in-feed':
        for d in (cfgprog['rxns']):
            ph = dict(map(tuple, d['nu']))[d['reactant']]
            pattern[(ph if tagged else None, d['reactant'])] = 'zero'
    if case == 'phases-differ':
        # a stream with other phases than the reaction's, and a single-phase stream
        th = W.thermo(IDs)
        pre = snapshot_rxn(obj)
        for n, s in enumerate((tmo.MultiStream(None, phases=('g', 'l', 's'), thermo=th), tmo.Stream(None, thermo=th, phase='l'))):
            leaves = W.plant_flows(w, s, f'm{n}', present={'default': 'zero', ('l', 'Water'): 'pos', ('l', 'Ethanol'): 'maybe'})
            before = W.snapshot(s)
            try:
                obj(s)
                w.ensure(f'[{n}] a stream with other phases than the reaction is refused', False)
            except ValueError:
                w.ensure(f'[{n}] refused: stream unchanged', W.same_snapshot(w, before, W.snapshot(s)))
        w.ensure('reaction object unchanged', same_rxn(w, pre, snapshot_rxn(obj)))
        w.canary('canary: never refused', False)
        return
    kind = {'massview': 'massview', 'conversion-array': 'sv'}.get(case, 's')
    mat, read, feed, stream = make_material(w, kind, pkg, tagged, pattern=pattern)
    stream_by_mass = (kind == 's' and by_mass) or kind == 'massview'
    if case == 'own-array':
        mat = stream.imol.data if tagged else stream.mol
        stream_by_mass = False
    u = _array_units(feed, mw, stream_by_mass)
    e = spec_apply(prog, u)
    set_scale(w, prog, u, rows, mw)
    pre = snapshot_rxn(obj)
    sp0 = all_specs(prog)[0]

    if case in ('conversion', 'conversion-array'):
        change = obj.conversion(mat)
        after = read()
        w.ensure('material unchanged by conversion()', w.And(*[w.eq(after[k], feed[k]) for k in feed]))
        if stream is not None:
            w.ensure('stream keeps its package', stream.chemicals.IDs == IDs and stream._imol._chemicals is stream.chemicals)
        rws = (change.rows if hasattr(change, 'rows') else list(change)) if tagged else [change]
        # (natively conversion() hands back a dense array on a weight basis, a sparse one otherwise: read both the same way)
        at = lambda row, j: row.dct.get(j, 0.) if hasattr(row, 'dct') else row[j]
        for i, ph in enumerate(PH if tagged else (None,)):
            for j, ID in enumerate(P3):      # the change is on the reaction's own package
                w.ensure(f'conversion()[{ph},{ID}] = stoichiometric change', w.eq(at(rws[i], j), e[ph, ID] - u[ph, ID]))
        w.ensure('reaction object unchanged', same_rxn(w, pre, snapshot_rxn(obj)))
        w.canary('canary: conversion() of the reactant = -X * feed + 1', w.eq(at(rws[PH.index(sp0.r[0]) if tagged else 0], P3.index(sp0.r[1])), -sp0.X * u[sp0.r] + 1))
        return

    if case == 'unchecked':
        import thermosteam.reaction as _r
        old = _r.CHECK_FEASIBILITY
        _r.CHECK_FEASIBILITY = False
        try: obj(mat)
        finally: _r.CHECK_FEASIBILITY = old
        gu = _array_units(read(), mw, stream_by_mass)
        S = sum([abs(e[k]) for k in e], 0.)
        for k in e:
            negligible = w.And(w.lt(e[k], 0.), w.eq(gu[k], 0.), w.Or(w.le(-e[k], 1e-16 * S), w.le(-e[k], 1e-16)))
            w.ensure(f'flow[{k[0]},{k[1]}] = stoichiometric update (negligible negatives zeroed)', w.Or(w.eq(gu[k], e[k]), negligible))
        feasible = w.And(*[w.ge(e[k], 0.) for k in e])
        for name, c in rows.items():
            w.ensure(f'{name} conserved', w.Implies(feasible, w.eq(row_total(c, gu, mw if by_mass else None), row_total(c, u, mw if by_mass else None))))
        w.ensure('stream keeps its package', stream.chemicals.IDs == IDs and stream._imol._chemicals is stream.chemicals)
        w.ensure('reaction object unchanged', same_rxn(w, pre, snapshot_rxn(obj)))
        w.canary('canary: reactant consumed = X * feed + 1', w.eq(u[sp0.r] - gu[sp0.r], sp0.X * u[sp0.r] + 1))
        return

    try:
        obj(mat)
    except InfeasibleRegion:
        w.ensure('InfeasibleRegion only if a flow would be negative', negative(w, e))
        return
    got = read()
    gu = _array_units(got, mw, stream_by_mass)
    w.ensure('reaction object unchanged', same_rxn(w, pre, snapshot_rxn(obj)))
    w.ensure('stream keeps its package', stream.chemicals.IDs == IDs and stream._imol._chemicals is stream.chemicals)
    w.ensure('no negative flow on normal return', no_negative(w, got))
    update_clauses(w, e, gu, rows, u, mw, stream_by_mass or by_mass)
    byname = _array_units(_named(stream, tagged, IDs), mw, stream_by_mass)
    w.ensure('flows read by name = flows read by position', w.And(*[w.eq(byname[k], gu[k]) for k in gu]))
    if case in ('empty-reaction', 'no-reactant-in-feed'):
        w.ensure('nothing to react: stream unchanged', w.And(*[w.eq(got[k], feed[k]) for k in feed]))
        _k0 = ([k for k in feed if not isinstance(feed[k], float)] or list(feed))[0]      # (natively every flow is a float)
        w.canary('canary: the inert flow changes', w.ne(got[_k0], feed[_k0]))
    else:
        w.canary('canary: reactant consumed = X * feed + 1', w.eq(u[sp0.r] - gu[sp0.r], sp0.X * u[sp0.r] + 1))


def _named(s, tagged, IDs, view='imol'):
    """Flows read BY NAME through the stream's indexer."""
    ix = getattr(s, view)
    if tagged:
        return {(ph, ID): ix[ph, ID] for ph in PH for ID in IDs}
    return {(None, ID): ix[ID] for ID in IDs}


# --------------------------------------------------------------------------- 6. ReactionSystem.reactant_flux: "parallel on the feed, series on the running composition" as a query

FLUX_SYSTEMS = {
    # name: (members as (kind, [indices into the three reactions a>b, b>c, c>a]), index, subindex, number of members applied before)
    'sys[a>b;b>c]@1': ([('single', [0]), ('single', [1])], 1, None),
    'sys[par(a>b|b>c);c>a]@0': ([('parallel', [0, 1]), ('single', [2])], 0, None),
    'sys[par(a>b|b>c);c>a]@0.1': ([('parallel', [0, 1]), ('single', [2])], 0, 1),
    'sys[par(a>b|b>c);c>a]@1': ([('parallel', [0, 1]), ('single', [2])], 1, None),
    'sys[a>b;ser(b>c;c>a)]@1.1': ([('single', [0]), ('series', [1, 2])], 1, 1),
}


def flux_configs(tier):
    out = []
    for name in FLUX_SYSTEMS:
        for tagged in (False, True):
            for mat, pkg, basis in (('s', 'P3', 'mol'), ('s', 'Q3', 'mol'), ('s', 'P3', 'wt'), ('sv', 'P3', 'mol'), ('s', 'Q3', 'wt')):
                if tier == 'quick':
                    if tagged and (name, mat, pkg, basis) not in (('sys[a>b;b>c]@1', 's', 'P3', 'mol'), ('sys[par(a>b|b>c);c>a]@0.1', 's', 'Q3', 'mol')): continue
                    if not tagged and (name, mat, pkg, basis) not in (
                            ('sys[a>b;b>c]@1', 's', 'P3', 'mol'), ('sys[a>b;b>c]@1', 's', 'Q3', 'mol'), ('sys[a>b;b>c]@1', 's', 'P3', 'wt'),
                            ('sys[par(a>b|b>c);c>a]@0', 'sv', 'P3', 'mol'), ('sys[par(a>b|b>c);c>a]@1', 's', 'P3', 'mol'),
                            ('sys[a>b;ser(b>c;c>a)]@1.1', 's', 'P3', 'mol')): continue
                out.append({'name': f'{"tagged" if tagged else "plain"};{name};{mat}:{pkg};{basis}', 'tagged': tagged, 'sys': name,
                            'mat': mat, 'pkg': pkg, 'basis': basis})
    return out


@group('C05/gap_reactant_flux', configs=flux_configs, l0=True, assumptions=ASSUME,
       functions=[RXN + 'ReactionSystem.reactant_flux', RXN + 'as_material_array', RXN + 'Reaction.__call__', RXN + 'ReactionSet.__getitem__',
                  RXN + 'ReactionSet.__iter__', RXN + 'ReactionItem.__init__'])
def reactant_flux(w, cfg):
    """The amount of reactant a member of a reaction system reacts is its conversion times the composition it acts on:
    the feed of the system after the earlier members (series: the running composition; parallel: all on the same
    composition); asking for it changes neither the material nor the system."""
    W.reset_caches()
    w = _Scaled(w)
    tagged, basis, kind, pkg = cfg['tagged'], cfg['basis'], cfg['mat'], cfg['pkg']
    members, index, subindex = FLUX_SYSTEMS[cfg['sys']]
    IDs = PKG[pkg]
    chems = W.thermo(P3).chemicals
    mw = _mw(IDs)
    rows = weights(w, IDs)
    a, b, c = P3
    pho = (lambda ids, pat: _ph(ids, pat)) if tagged else (lambda ids, pat: None)
    descs = [_desc((a, b), a, pho((a, b), 'lg')), _desc((b, c), b, pho((b, c), 'gl')), _desc((c, a), c, pho((c, a), 'll'))]
    specs = [make_spec(w, f'rx{n}', d, basis, rows, mw, True) for n, d in enumerate(descs)]
    objs, progs = [], []
    for mkind, idx in members:
        rx = [make_rxn(specs[i], chems, tagged) for i in idx]
        objs.append(rx[0] if mkind == 'single' else (tmo.ParallelReaction(rx) if mkind == 'parallel' else tmo.SeriesReaction(rx)))
        progs.append({'kind': mkind, 'specs': [specs[i] for i in idx]})
    system = tmo.ReactionSystem(*objs)
    pattern = sparse_pattern({'kind': 'parallel', 'rxns': descs}, pkg, tagged)
    mat, read, feed, stream = make_material(w, kind, pkg, tagged, pattern=pattern)
    by_mass = kind == 's' and basis == 'wt'
    u = _array_units(feed, mw, by_mass)
    # the composition the member acts on
    running = u
    for p in progs[:index]: running = spec_apply(p, running)
    member = progs[index]
    if subindex is not None and member['kind'] == 'series':
        running = spec_series(member['specs'][:subindex], running)
    acting = member['specs'] if subindex is None else [member['specs'][subindex]]
    expected = sum([sp.X * running[sp.r] for sp in acting], 0.)
    set_scale(w, {'kind': 'system', 'members': progs}, u, rows, mw)
    pre = snapshot_rxn(system)
    try:
        flux = system.reactant_flux(mat, index, subindex)
    except InfeasibleRegion:
        w.ensure('InfeasibleRegion only if a flow would be negative', negative(w, running))
        return
    after = read()
    w.ensure('material unchanged by reactant_flux', w.And(*[w.eq(after[k], feed[k]) for k in feed]))
    if stream is not None:
        w.ensure('stream keeps its package', stream.chemicals.IDs == IDs and stream._imol._chemicals is stream.chemicals
                 and all(sv.size == len(IDs) for _, sv in W.rows_of(stream)))
    w.ensure('reaction system unchanged', same_rxn(w, pre, snapshot_rxn(system)))
    licence = w.Or(*[w.And(w.lt(running[k], 0.), w.ge(running[k], -TOL)) for k in running])      # a round-off negative was zeroed on the way
    w.ensure('flux = conversion x the composition the member acts on', w.Or(w.eq(flux, expected), licence))
    w.canary('canary: flux = conversion x composition + 1', w.eq(flux, expected + 1))


# --------------------------------------------------------------------------- 7. calls after a FAILED call (added after seeded change C05_8)

def failed_call_configs(tier):
    out = []
    for first in ('force_reaction: phase-less reaction on a two-phase stream', 'call: phase-less reaction on a two-phase stream',
                  'force_reaction: stream of a package that lacks a product', 'call: infeasible conversion', 'conversion(): phase-less on two-phase'):
        for obj in ('single', 'parallel', 'series', 'system'):
            if tier == 'quick' and obj in ('series',) and not first.startswith('force'): continue
            out.append({'name': f'{first};then={obj}', 'first': first, 'obj': obj})
    return out


@group('C05/gap_B_after_failed_call', configs=failed_call_configs, mode='B',
       functions=[RXN + 'Reaction.__call__', RXN + 'Reaction.force_reaction', RXN + 'Reaction.conversion', RXN + 'ReactionSystem._reaction',
                  RXN + 'ParallelReaction._reaction', RXN + 'SeriesReaction._reaction'],
       notes='bounded: 5 kinds of call that RAISE for an ordinary reason and are handled by the caller (a phase-less reaction handed a two-phase stream, '
             'a stream whose package lacks a product, an infeasible conversion, through __call__, force_reaction and conversion()) x 4 kinds of object '
             '(single, parallel, series, system; H2 combustion with 1 kmol/hr O2 for 10 kmol/hr H2 at X = 0.9) used afterwards on a stream, a bare array and '
             'a stream of another package: a call that returns normally leaves no negative flow and conserves mass; otherwise it raises InfeasibleRegion')
def after_failed_call(w, cfg):
    W.reset_caches()
    th = W.thermo(RPK['RA'])
    chems = th.chemicals
    mk = lambda X: tmo.Reaction('2H2 + O2 -> 2H2O', reactant='H2', X=X, chemicals=chems)
    rxn = mk(0.9)
    first = cfg['first']
    two_phase = tmo.MultiStream(None, phases=('g', 'l'), thermo=th)
    two_phase.imol['g', 'H2'] = 10.; two_phase.imol['g', 'O2'] = 20.; two_phase.imol['l', 'H2O'] = 5.
    raised = None
    try:
        if first.startswith('force_reaction: phase-less'): rxn.force_reaction(two_phase)
        elif first.startswith('call: phase-less'): rxn(two_phase)
        elif first.startswith('conversion()'): rxn.conversion(two_phase)
        elif first.startswith('force_reaction: stream of a package'):
            small = tmo.Stream(None, thermo=W.thermo(['H2', 'O2']), H2=10., O2=20., phase='g')
            rxn.force_reaction(small)
        else:
            poor = tmo.Stream(None, thermo=th, H2=10., O2=1., phase='g')
            rxn(poor)
    except Exception as e:
        raised = e
    w.note(first_call=f'{type(raised).__name__}: {raised}'[:120])
    if raised is None:
        w.ensure('vacuity guard: the first call of the history raises', False); return
    target = {'single': lambda: mk(0.9), 'parallel': lambda: tmo.ParallelReaction([mk(0.9)]), 'series': lambda: tmo.SeriesReaction([mk(0.9)]),
              'system': lambda: tmo.ReactionSystem(mk(0.9))}[cfg['obj']]
    for fresh_object in (False, True):
        obj = target() if fresh_object or cfg['obj'] != 'single' else rxn
        materials = {
            'stream': tmo.Stream(None, thermo=th, H2=10., O2=1., H2O=3., phase='g'),
            'stream of a superset package': tmo.Stream(None, thermo=W.thermo(RPK['RC']), H2=10., O2=1., H2O=3., phase='g'),
        }
        for mname, s in materials.items():
            F0 = s.F_mass
            try:
                obj(s)
            except InfeasibleRegion:
                continue
            flows = s.mol.to_array()
            tag = f'{"new" if fresh_object else "same"} object on a {mname}'
            w.ensure(f'{tag}: a call that returns normally leaves no negative flow (9 kmol/hr H2 need 4.5 kmol/hr O2, 1 is fed)', bool((flows >= 0.).all()), flows=str(flows))
            w.ensure(f'{tag}: a call that returns normally conserves mass', abs(s.F_mass - F0) <= 1e-9 * F0, before=F0, after=s.F_mass)
    w.ensure('the history was run', True)
