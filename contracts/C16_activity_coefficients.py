# -*- coding: utf-8 -*-
"""
C16 — activity-coefficient models are normalised, consistent and side-effect free.

Mode S (symbolic, all real values per enumerated structure) on the Python source of the njit functions
`gamma_UNIFAC` / `gamma_modified_UNIFAC` (real `psi_*`, `fill_group_psis`), on `GroupActivityCoefficients.__new__/__call__/
.f/.args/.activity_coefficients` of the three real model classes built on real chemicals, and on the ideal models.
The two numerical kernels `group_activity_coefficients` and `loggammacs_*` are uninterpreted deterministic functions of
everything they are handed in these groups (so a stale or foreign argument changes the result), except in
`C16/vertex_value_sym`, where they run as real code (down to exp/log) for symbolic T and interaction parameters.

Mode B (bounded run-time contracts, never counted as proved) on the REAL compiled models with real group data:
gamma_i -> 1 as x_i -> 1, Gibbs-Duhem by central differences, permutation invariance, members without groups = 1,
caller's array unchanged, functional form == object call.
"""
import os
import sys
import json
import math
import random
import itertools
import subprocess

import numpy as np
import thermosteam as tmo
from engine.api import group

AC = sys.modules['thermosteam.equilibrium.activity_coefficients']
FC = sys.modules['thermosteam.equilibrium.fugacity_coefficients']
PC = sys.modules['thermosteam.equilibrium.poyinting_correction_factors']

SEED = int(os.environ.get('VERIF_SEED', '0') or 0)

# --------------------------------------------------------------------------- chemicals (own instances: NIST groups are set here)

NIST_GROUPS = {
    'Water': {'H2O': 1},
    'Ethanol': {'CH3': 1, 'CH2': 1, 'OH prim': 1},
    'Methanol': {'CH3OH': 1},
    'Acetone': {'CH3': 1, 'CH3CO': 1},
    'Hexane': {'CH3': 2, 'CH2': 4},
    'Toluene': {'ACH': 5, 'ACCH3': 1},
}
WITH_GROUPS = ('Water', 'Ethanol', 'Methanol', 'Acetone', 'Hexane', 'Toluene')
WITHOUT_GROUPS = ('O2', 'N2')          # no UNIFAC / Dortmund / NIST groups in the data base
_CHEM = {}


def chem(ID):
    c = _CHEM.get(ID)
    if c is None:
        c = _CHEM[ID] = tmo.Chemical(ID)
        if ID in NIST_GROUPS:
            c.NIST.set_group_counts_by_name(NIST_GROUPS[ID])
    return c


for _ID in WITH_GROUPS + WITHOUT_GROUPS:
    chem(_ID)

MODELS = {'UNIFAC': AC.UNIFACActivityCoefficients, 'Dortmund': AC.DortmundActivityCoefficients,
          'NIST': AC.NISTActivityCoefficients, 'Ideal': AC.IdealActivityCoefficients}
GROUP_FIELD = {'UNIFAC': 'UNIFAC', 'Dortmund': 'Dortmund', 'NIST': 'NIST'}


def has_groups(model, ID):
    return model != 'Ideal' and bool(getattr(chem(ID), GROUP_FIELD[model]))


def build_model(model, IDs, fresh=False):
    cls = MODELS[model]
    if fresh and hasattr(cls, '_cached'):
        cls._cached.clear()
    return cls(tuple(chem(i) for i in IDs))


def _py(f):
    return getattr(f, 'py_func', f)


# --------------------------------------------------------------------------- callee contracts (uninterpreted kernels)

class Stubs:
    """
    While active, `group_activity_coefficients` and `loggammacs_*` in the module under check are uninterpreted
    deterministic functions of ALL numbers they receive (symbolically: z3 functions; natively: table driven), and every
    call is recorded.  Natively the names `gamma_UNIFAC` / `gamma_modified_UNIFAC` are bound to the Python source of the
    njit functions (what the engine does in symbolic mode anyway), so that the source is what calls the stubs.
    """
    NAMES = ('group_activity_coefficients', 'loggammacs_UNIFAC', 'loggammacs_modified_UNIFAC',
             'gamma_UNIFAC', 'gamma_modified_UNIFAC')

    def __init__(self, w):
        self.w = w
        self.calls = []
        self.lgc_calls = []
        self.saved = None

    def arr(self, vals):
        return np.array(list(vals), dtype=object if self.w.symbolic else float)

    def lngc(self, kind, i, x):
        return self.w.fn(f'lngammac.{kind}.{len(x)}[{i}]')(*x)

    def gsub(self, i, args, nx):
        return self.w.fn(f'gamma_sub.{nx}.{len(args)}[{i}]', positive=True)(*args)

    def _lgc(self, kind):
        def loggammacs(qs, rs, x):
            vals = [self.lngc(kind, i, list(x)) for i in range(len(x))]
            self.lgc_calls.append({'kind': kind, 'qs': qs, 'rs': rs, 'x': list(x), 'ret': vals})
            return self.arr(vals)
        return loggammacs

    def _gac(self, x, chemgroups, loggammacs, Qs, psis, cQfs, gpsis):
        args = list(x) + list(loggammacs) + list(psis.flat) + list(gpsis.flat)
        vals = [self.gsub(i, args, len(x)) for i in range(len(x))]
        self.calls.append({'x': list(x), 'lgc': list(loggammacs), 'psis': psis.copy(), 'gpsis': gpsis.copy(),
                           'chemgroups': chemgroups, 'Qs': Qs, 'cQfs': cQfs, 'ret': vals})
        return self.arr(vals)

    def __enter__(self):
        self.saved = {n: getattr(AC, n) for n in self.NAMES}
        AC.group_activity_coefficients = self._gac
        AC.loggammacs_UNIFAC = self._lgc('UNIFAC')
        AC.loggammacs_modified_UNIFAC = self._lgc('modified')
        AC.gamma_UNIFAC = _py(self.saved['gamma_UNIFAC'])
        AC.gamma_modified_UNIFAC = _py(self.saved['gamma_modified_UNIFAC'])
        return self

    def __exit__(self, *exc):
        for n, v in self.saved.items():
            setattr(AC, n, v)
        return False


STUB_ASSUMPTION = ('group_activity_coefficients and loggammacs_UNIFAC / loggammacs_modified_UNIFAC are uninterpreted '
                   'deterministic functions of all their numerical arguments in this group (their values are checked on the '
                   'real compiled functions in the mode-B groups and at the vertices in C16/vertex_value_sym)')


def _simplex(w, n, name='x'):
    xl = [w.real(f'{name}{j}', lo=0., hi=1.) for j in range(n)]
    w.assume(w.eq(w.total(xl), 1.))
    return xl


def _all_eq_arrays(w, a, b):
    a = np.asarray(a, dtype=object); b = np.asarray(b, dtype=object)
    if a.shape != b.shape:
        return w.And(False)
    return w.And(*[w.eq(p, q) for p, q in zip(a.flat, b.flat)])


# =========================================================================== S: scatter / gather of gamma_UNIFAC, gamma_modified_UNIFAC

def scatter_configs(tier):
    out = []
    nmax = 4 if tier == 'quick' else 5      # (n = 6: z3 occasionally fails to produce a model of the path for the canary)
    for kind in ('UNIFAC', 'modified'):
        for n in range(1, nmax + 1):
            for k in range(0, n + 1):
                for index in itertools.combinations(range(n), k):
                    variants = [(2, 'diag')]
                    if n <= 3: variants.append((2, 'full'))
                    if tier != 'quick' and n <= 4: variants.append((3, 'band'))
                    for M, mask in variants:
                        out.append({'name': f'{kind};n={n};index={"".join(map(str, index)) or "-"};groups={M};mask={mask}',
                                    'kind': kind, 'n': n, 'index': list(index), 'M': M, 'mask': mask})
    return out


def _mask(M, kind):
    m = np.zeros((M, M), dtype=bool)
    for i in range(M):
        for j in range(M):
            m[i, j] = {'diag': i == j, 'full': True, 'band': abs(i - j) <= 1}[kind]
    return m


@group('C16/gamma_scatter_gather', configs=scatter_configs,
       functions=['thermosteam.equilibrium.activity_coefficients:gamma_UNIFAC',
                  'thermosteam.equilibrium.activity_coefficients:gamma_modified_UNIFAC',
                  'thermosteam.equilibrium.activity_coefficients:psi_UNIFAC',
                  'thermosteam.equilibrium.activity_coefficients:psi_modified_UNIFAC',
                  'thermosteam.equilibrium.activity_coefficients:fill_group_psis'],
       assumptions=[STUB_ASSUMPTION])
def gamma_scatter_gather(w, cfg):
    """The functional form used by the flash solvers: gathers x[index]/sum, evaluates, scatters back, others = 1;
    modifies nothing reachable from its arguments except the scratch array group_psis (which it fully overwrites)."""
    kind, n, M = cfg['kind'], cfg['n'], cfg['M']
    index = np.array(cfg['index'], dtype=int)
    k = len(index)
    dt = object if w.symbolic else float
    xl = _simplex(w, n)
    T = w.real('T', lo=250., hi=450.)
    x = np.array(xl, dtype=dt)
    if kind == 'UNIFAC':
        inter = np.array([[w.real(f'a{i}{j}', lo=-2000., hi=2000.) for j in range(M)] for i in range(M)], dtype=dt)
    else:
        inter = np.array([[[w.real(f'a{i}{j}', lo=-2000., hi=2000.), w.real(f'b{i}{j}', lo=-5., hi=5.),
                            w.real(f'c{i}{j}', lo=-0.01, hi=0.01)] for j in range(M)] for i in range(M)], dtype=dt)
    # scratch array with arbitrary stale content from "earlier calls"
    gpsis = np.array([[w.real(f'stale{i}{j}', lo=-10., hi=10.) for j in range(M)] for i in range(M)], dtype=dt)
    mask = _mask(M, cfg['mask'])
    qs = np.array([1.4 + 0.37 * i for i in range(k)])
    rs = np.array([0.92 + 0.61 * i for i in range(k)])
    Qs = np.array([0.848 + 0.3 * m for m in range(M)])
    cg = np.array([[float((i + m) % 3) + (1. if m == i % M else 0.) for m in range(M)] for i in range(k)]).reshape(k, M)
    cQ = cg * Qs
    cQfs = cQ / np.where(cQ.sum(1, keepdims=True) == 0, 1., cQ.sum(1, keepdims=True)) if k else cQ
    pre = {'inter': inter.copy(), 'mask': mask.copy(), 'qs': qs.copy(), 'rs': rs.copy(), 'Qs': Qs.copy(), 'cg': cg.copy(),
           'cQfs': cQfs.copy(), 'index': index.copy()}
    st = Stubs(w)
    with st:
        f = AC.gamma_UNIFAC if kind == 'UNIFAC' else AC.gamma_modified_UNIFAC
        psi = AC.psi_UNIFAC if kind == 'UNIFAC' else AC.psi_modified_UNIFAC
        psi_ref = psi(T, inter.copy())            # the real psi on a private copy: what must be handed on
        gamma = f(x, T, inter, gpsis, mask, qs, rs, Qs, cg, cQfs, index)
    # ---- frame
    for j in range(n):
        w.ensure(f"caller's x[{j}] unchanged", w.eq(x[j], xl[j]))
    w.ensure('interaction parameters unchanged', _all_eq_arrays(w, inter, pre['inter']))
    w.ensure('group mask, q, r, Q, group counts, Q fractions, index unchanged',
             bool(np.array_equal(mask, pre['mask']) and np.array_equal(qs, pre['qs']) and np.array_equal(rs, pre['rs'])
                  and np.array_equal(Qs, pre['Qs']) and np.array_equal(cg, pre['cg']) and np.array_equal(cQfs, pre['cQfs'])
                  and np.array_equal(index, pre['index'])))
    # ---- result
    w.ensure('one coefficient per chemical', len(gamma) == n)
    inside = set(int(j) for j in index)
    for j in range(n):
        if j not in inside:
            w.ensure(f'gamma[{j}] = 1 (member without groups)', w.eq(gamma[j], 1.))
    if k <= 1:
        for j in inside:
            w.ensure(f'gamma[{j}] = 1 (only member with groups)', w.eq(gamma[j], 1.))
        w.ensure('kernel not evaluated with <= 1 member with groups', len(st.calls) == 0)
        w.canary('canary: a coefficient differs from one although <= 1 member has groups', w.eq(gamma[0], 2.))
        return
    S = w.total([xl[j] for j in index])
    if len(st.calls) == 0:
        # none of the members with groups is present: the statement only fixes the members without groups (above)
        w.ensure('kernel skipped only when the members with groups are all absent', w.eq(S, 0.))
        w.canary('canary: skipped although members with groups are present', w.gt(S, 0.))
        return
    w.ensure('kernel evaluated exactly once', len(st.calls) == 1 and len(st.lgc_calls) == 1)
    c = st.calls[0]; lc = st.lgc_calls[0]
    for i, j in enumerate(index):
        w.ensure(f'sub-composition[{i}] = x[{j}] / sum(x[index])', w.eq(c['x'][i] * S, xl[j]))
        w.ensure(f'gamma[{j}] = value of the kernel for member {i}', w.eq(gamma[j], c['ret'][i]))
    w.ensure('sub-composition sums to one', w.eq(w.total(c['x']), 1.))
    w.ensure('combinatorial term is evaluated for the same sub-composition, with the q and r given',
             w.And(w.all_eq(lc['x'], c['x']), w.all_eq(c['lgc'], lc['ret']), lc['qs'] is qs, lc['rs'] is rs,
                   lc['kind'] == kind))
    w.ensure('psis handed on = psi(T, interaction parameters)', _all_eq_arrays(w, c['psis'], psi_ref))
    expect_g = [[(psi_ref[i, j] if mask[i, j] else 0.) for j in range(M)] for i in range(M)]
    w.ensure('group psis handed on = psis under the mask, 0 elsewhere (nothing stale)', _all_eq_arrays(w, c['gpsis'], expect_g))
    w.ensure('group counts, Q, Q fractions handed on are the ones given',
             c['chemgroups'] is cg and c['Qs'] is Qs and c['cQfs'] is cQfs)
    j0 = int(index[0])
    w.canary('canary: members with groups also get exactly one', w.eq(gamma[j0], 1.))
    w.note(x=xl, gamma=list(gamma), sub=c['x'])


# =========================================================================== S: object call == functional form, on the real classes

def call_configs(tier):
    sets = [('Water', 'Ethanol'), ('Water', 'O2', 'Ethanol')]
    if tier != 'quick':
        sets += [('Acetone', 'Methanol', 'Water'), ('O2', 'Water', 'N2', 'Ethanol'), ('Hexane', 'Toluene', 'Ethanol', 'Water')]
    out = []
    for model in ('UNIFAC', 'Dortmund', 'NIST'):
        for IDs in sets:
            for xkind in ('ndarray', 'list', 'tuple'):
                if xkind == 'tuple' and (tier == 'quick' and len(IDs) > 2):
                    continue
                out.append({'name': f'{model};{"+".join(IDs)};x={xkind}', 'model': model, 'IDs': list(IDs), 'xkind': xkind})
    return out


FIELDS = ('_interactions', '_group_mask', '_qs', '_rs', '_Qs', '_chemgroups', '_chem_Qfractions', '_index')


@group('C16/object_call_is_functional_form', configs=call_configs,
       functions=['thermosteam.equilibrium.activity_coefficients:GroupActivityCoefficients.__new__',
                  'thermosteam.equilibrium.activity_coefficients:GroupActivityCoefficients.__call__',
                  'thermosteam.equilibrium.activity_coefficients:GroupActivityCoefficients.args',
                  'thermosteam.equilibrium.activity_coefficients:GroupActivityCoefficients.activity_coefficients',
                  'thermosteam.equilibrium.activity_coefficients:UNIFACActivityCoefficients.f',
                  'thermosteam.equilibrium.activity_coefficients:DortmundActivityCoefficients.f',
                  'thermosteam.equilibrium.activity_coefficients:NISTActivityCoefficients.f',
                  'thermosteam.equilibrium.activity_coefficients:gamma_UNIFAC',
                  'thermosteam.equilibrium.activity_coefficients:gamma_modified_UNIFAC',
                  'thermosteam.equilibrium.activity_coefficients:get_chemgroups',
                  'thermosteam.equilibrium.activity_coefficients:chemgroup_array'],
       assumptions=[STUB_ASSUMPTION, 'real group data of the data base for the chemicals of the configuration'])
def object_call_is_functional_form(w, cfg):
    model, IDs = cfg['model'], tuple(cfg['IDs'])
    n = len(IDs)
    cls = MODELS[model]
    dt = object if w.symbolic else float
    xl = _simplex(w, n)
    T = w.real('T', lo=250., hi=450.)
    T2 = w.real('T2', lo=250., hi=450.)
    mk = {'ndarray': lambda v: np.array(v, dtype=dt), 'list': list, 'tuple': tuple}[cfg['xkind']]
    st = Stubs(w)
    try:
        with st:
            G = build_model(model, IDs, fresh=True)     # built under the same rebinding as it is used
            pre = {f: np.array(getattr(G, f), dtype=object).copy() for f in FIELDS}
            x_in = mk(xl)
            r1 = G(x_in, T)
            x_f = np.array(xl, dtype=dt)
            rf = G.f(x_f, T, *G.args)
            rT2 = G(mk(xl), T2)                             # an unrelated evaluation in between (other temperature)
            G(mk([1. / n] * n), T2)                         # ... and another composition
            r3 = G(mk(xl), T)
            n_calls = len(st.calls)
            method = None
            if all(has_groups(model, i) for i in IDs):
                method = G.activity_coefficients(np.array(xl, dtype=dt), T)
            gp = np.array(G._group_psis, dtype=object).copy()
            post = {f: np.array(getattr(G, f), dtype=object).copy() for f in FIELDS}
    finally:
        cls._cached.clear()
    w.ensure('a model of the requested class is returned', type(G) is cls)
    w.ensure('one coefficient per chemical', len(r1) == n and len(rf) == n)
    for j, ID in enumerate(IDs):
        w.ensure(f'functional form[{j}] = object call[{j}]', w.eq(rf[j], r1[j]))
        w.ensure(f'same arguments later give the same value[{j}] (no hidden state)', w.eq(r3[j], r1[j]))
        w.ensure(f"caller's x[{j}] unchanged by the object call", w.eq(x_in[j], xl[j]))
        w.ensure(f"caller's x[{j}] unchanged by the functional form", w.eq(x_f[j], xl[j]))
        if not has_groups(model, ID):
            w.ensure(f'gamma[{j}] = 1 ({ID} has no groups)', w.eq(r1[j], 1.))
    for f in FIELDS:
        w.ensure(f'model parameter {f} unchanged by evaluations', _all_eq_arrays(w, post[f], pre[f]))
    mask = np.array(G._group_mask, dtype=bool)
    w.ensure('scratch group psis are zero outside the mask after evaluations',
             w.And(*[w.eq(v, 0.) for v, m in zip(gp.flat, mask.flat) if not m]))
    if method is not None:
        for j in range(n):
            w.ensure(f'activity_coefficients(x, T)[{j}] = object call[{j}] for a normalised composition of members with groups',
                     w.eq(method[j], r1[j]))
    jg = next(j for j, ID in enumerate(IDs) if has_groups(model, ID))
    w.canary('canary: members with groups get exactly one', w.eq(r1[jg], 1.))
    w.note(gamma=list(r1), functional=list(rf), kernel_calls=n_calls)


# =========================================================================== S: ideal models return one

def ideal_configs(tier):
    out = []
    ns = (1, 2, 3) if tier == 'quick' else (1, 2, 3, 4, 5, 6)
    allIDs = ('Water', 'O2', 'Ethanol', 'N2', 'Methanol', 'Acetone')
    for n in ns:
        for what in ('IdealActivityCoefficients', 'IdealFugacityCoefficients', 'MockPoyintingCorrectionFactors'):
            for xkind in ('ndarray', 'list'):
                if what == 'MockPoyintingCorrectionFactors' and xkind == 'list': continue
                out.append({'name': f'{what};n={n};x={xkind}', 'what': what, 'IDs': list(allIDs[:n]), 'xkind': xkind})
    # group-contribution classes asked for a set with <= 1 member with groups hand out the ideal model
    for model in ('UNIFAC', 'Dortmund', 'NIST'):
        for IDs in [('Water',), ('O2',), ('O2', 'Water'), ('Water', 'N2', 'O2'), ('O2', 'N2')]:
            if tier == 'quick' and len(IDs) == 3 and model != 'Dortmund': continue
            out.append({'name': f'fallback:{model};{"+".join(IDs)}', 'what': 'fallback', 'model': model, 'IDs': list(IDs),
                        'xkind': 'ndarray'})
    out.append({'name': 'IdealThermo;Water+Ethanol', 'what': 'IdealThermo', 'IDs': ['Water', 'Ethanol'], 'xkind': 'ndarray'})
    return out


_IDEAL_THERMO = tmo.Thermo([chem('Water'), chem('Ethanol')])


@group('C16/ideal_models_return_one', configs=ideal_configs, loop_free=True,
       functions=['thermosteam.equilibrium.activity_coefficients:IdealActivityCoefficients.__call__',
                  'thermosteam.equilibrium.fugacity_coefficients:IdealFugacityCoefficients.__call__',
                  'thermosteam.equilibrium.poyinting_correction_factors:MockPoyintingCorrectionFactors.__call__',
                  'thermosteam.equilibrium.ideal:ideal', 'thermosteam.equilibrium.ideal:_ideal_coefficient',
                  'thermosteam.equilibrium.activity_coefficients:GroupActivityCoefficients.__new__',
                  'thermosteam._thermo:Thermo.ideal'])
def ideal_models_return_one(w, cfg):
    IDs = tuple(cfg['IDs']); n = len(IDs)
    chems = tuple(chem(i) for i in IDs)
    dt = object if w.symbolic else float
    xl = _simplex(w, n)
    T = w.real('T', lo=250., hi=450.)
    P = w.real('P', lo=1e3, hi=1e7)
    mk = {'ndarray': lambda v: np.array(v, dtype=dt), 'list': list}[cfg['xkind']]
    x = mk(xl)
    what = cfg['what']
    if what == 'IdealThermo':
        th = _IDEAL_THERMO.ideal()
        w.ensure('the ideal package uses the ideal activity, fugacity and Poynting models',
                 th.Gamma is AC.IdealActivityCoefficients and th.Phi is FC.IdealFugacityCoefficients
                 and th.PCF is PC.MockPoyintingCorrectionFactors and th.ideal() is th)
        what_list = [('IdealActivityCoefficients', th.Gamma(chems)), ('IdealFugacityCoefficients', th.Phi(chems)),
                     ('MockPoyintingCorrectionFactors', th.PCF(chems))]
    elif what == 'fallback':
        cls = MODELS[cfg['model']]
        cls._cached.clear()
        obj = cls(chems)
        w.ensure('<= 1 member with groups: the ideal model is handed out', type(obj) is AC.IdealActivityCoefficients)
        what_list = [('IdealActivityCoefficients', obj)]
    else:
        cls = {'IdealActivityCoefficients': AC.IdealActivityCoefficients, 'IdealFugacityCoefficients': FC.IdealFugacityCoefficients,
               'MockPoyintingCorrectionFactors': PC.MockPoyintingCorrectionFactors}[what]
        what_list = [(what, cls(chems))]
    for kind, obj in what_list:
        w.ensure(f'{kind}: chemicals kept in order', tuple(obj.chemicals) == chems)
        if kind == 'IdealActivityCoefficients':
            r = obj(x, T)
            w.ensure(f'{kind}: one coefficient per chemical', len(r) == n)
            for j in range(n):
                w.ensure(f'{kind}: gamma[{j}] = 1', w.eq(r[j], 1.))
            fv = obj.f(np.array(xl, dtype=dt), T, *obj.args)
            w.ensure(f'{kind}: functional form = 1 = object call', w.eq(fv, 1.))
            w.canary(f'canary: {kind} returns 2', w.eq(r[0], 2.))
        elif kind == 'IdealFugacityCoefficients':
            r = obj(x, T, P)
            fv = obj.f(np.array(xl, dtype=dt), T, P, *obj.args)
            w.ensure(f'{kind}: phi = 1', w.eq(r, 1.))
            w.ensure(f'{kind}: functional form = 1 = object call', w.eq(fv, 1.))
            w.canary(f'canary: {kind} returns 2', w.eq(r, 2.))
        else:
            Psl = [w.real(f'Psat{j}', lo=0., lo_strict=True) for j in range(n)]
            Psats = np.array(Psl, dtype=dt)
            r = obj(T, P)
            r2 = obj(T, P, Psats)
            w.ensure(f'{kind}: factor = 1', w.And(w.eq(r, 1.), w.eq(r2, 1.)))
            w.ensure(f'{kind}: saturation pressures unchanged', w.all_eq(list(Psats), Psl))
            w.canary(f'canary: {kind} returns 2', w.eq(r, 2.))
        for j in range(n):
            w.ensure(f"{kind}: caller's x[{j}] unchanged", w.eq(x[j], xl[j]))


# =========================================================================== S: value at the vertices with the REAL kernels

def vertex_configs(tier):
    # group-count matrices (rows: chemicals, columns: groups); every chemical has at least one group
    structs = {'2x2-disjoint': [[1, 0], [0, 1]], '2x2-shared': [[1, 1], [0, 2]], '2x3': [[1, 1, 0], [0, 0, 1]],
               '3x3': [[1, 0, 0], [1, 1, 0], [0, 0, 2]]}
    if tier != 'quick':
        structs.update({'3x4': [[1, 0, 0, 0], [0, 1, 1, 0], [1, 0, 0, 1]], '4x3': [[1, 0, 0], [0, 1, 0], [0, 0, 1], [2, 1, 0]]})
    out = []
    for kind in ('UNIFAC', 'modified'):
        for sname, cg in structs.items():
            for v in range(len(cg)):
                for RQ in ('rat', 'sym'):
                    if RQ == 'sym' and sname != '2x2-disjoint': continue
                    out.append({'name': f'{kind};groups={sname};RQ={RQ};vertex={v}', 'kind': kind, 'cg': cg, 'vertex': v, 'RQ': RQ})
    return out


@group('C16/vertex_value_sym', configs=vertex_configs,
       functions=['thermosteam.equilibrium.activity_coefficients:gamma_UNIFAC',
                  'thermosteam.equilibrium.activity_coefficients:gamma_modified_UNIFAC',
                  'thermosteam.equilibrium.activity_coefficients:group_activity_coefficients',
                  'thermosteam.equilibrium.activity_coefficients:loggammacs_UNIFAC',
                  'thermosteam.equilibrium.activity_coefficients:loggammacs_modified_UNIFAC',
                  'thermosteam.equilibrium.activity_coefficients:psi_UNIFAC',
                  'thermosteam.equilibrium.activity_coefficients:psi_modified_UNIFAC',
                  'thermosteam.equilibrium.activity_coefficients:fill_group_psis'],
       assumptions=['exp, log and r**0.75 are uninterpreted functions with exp(0) = 1, log(1) = 0, log(a/b) = log a - log b, exp > 0, '
                    'r**0.75 > 0 for r > 0 (ground instances over the occurring terms)',
                    'the derived arrays r, q, Q fractions and the mask are built from the group counts and R, Q in the contract '
                    'the way GroupActivityCoefficients.__new__ builds them (that construction itself is exercised on real data in '
                    'C16/object_call_is_functional_form and the mode-B groups)'])
def vertex_value_sym(w, cfg):
    """gamma_i = 1 at x = e_i for ALL temperatures and interaction parameters (per group structure; group volumes/areas R, Q
    exact rationals, or symbolic for the smallest structure), everything real code (Python source of the njit functions)
    down to exp/log."""
    kind = cfg['kind']
    cgl = cfg['cg']; k = len(cgl); M = len(cgl[0]); v = cfg['vertex']
    dt = object if w.symbolic else float
    T = w.real('T', lo=250., hi=450.)
    if cfg['RQ'] == 'sym':
        Ql = [w.real(f'Q{m}', lo=0.1, hi=5.) for m in range(M)]
        Rl = [w.real(f'R{m}', lo=0.1, hi=5.) for m in range(M)]
    else:
        # exact rationals in symbolic mode (no rounding inside the Q fractions), the same numbers as floats natively
        from fractions import Fraction
        num = Fraction if w.symbolic else (lambda a, b: a / b)
        Ql = [num(8 + 3 * m, 10) for m in range(M)]
        Rl = [num(9 + 7 * m, 10) for m in range(M)]
    if kind == 'UNIFAC':
        inter = np.array([[(0. if i == j else w.real(f'a{i}{j}', lo=-2000., hi=2000.)) for j in range(M)] for i in range(M)], dtype=dt)
    else:
        inter = np.array([[([0., 0., 0.] if i == j else [w.real(f'a{i}{j}', lo=-2000., hi=2000.), w.real(f'b{i}{j}', lo=-5., hi=5.),
                                                         w.real(f'c{i}{j}', lo=-0.01, hi=0.01)]) for j in range(M)] for i in range(M)], dtype=dt)
    cg = np.array([[float(c) for c in row] for row in cgl], dtype=dt)
    Qs = np.array(Ql, dtype=dt)
    rs = np.array([w.total([cgl[i][m] * Rl[m] for m in range(M) if cgl[i][m]]) for i in range(k)], dtype=dt)
    qs = np.array([w.total([cgl[i][m] * Ql[m] for m in range(M) if cgl[i][m]]) for i in range(k)], dtype=dt)
    cQfs = np.array([[(cgl[i][m] * Ql[m] / qs[i] if cgl[i][m] else 0.) for m in range(M)] for i in range(k)], dtype=dt)
    mask = np.zeros((M, M), dtype=bool)
    for i in range(k):
        members = [m for m in range(M) if cgl[i][m]]
        for a in members:
            for b in members:
                mask[a, b] = True
    gpsis = np.array([[0.] * M for _ in range(M)], dtype=dt)
    x = np.array([1. if j == v else 0. for j in range(k)], dtype=dt)
    index = np.arange(k, dtype=int)
    f = AC.gamma_UNIFAC if kind == 'UNIFAC' else AC.gamma_modified_UNIFAC
    if w.symbolic and kind == 'modified':
        # r**0.75 is an uninterpreted `pow` term: ground instances of  base > 0 => pow(base, 3/4) > 0  for the r that occur
        from engine.sx.sym import ctx, lift
        for r in rs:
            if cfg['RQ'] == 'sym': w.assume(ctx().uf('pow', 2)(lift(r), lift(0.75)) > 0)
    gamma = f(x, T, inter, gpsis, mask, qs, rs, Qs, cg, cQfs, index)
    if w.symbolic:
        # ground instance of the declared law exp(0) = 1 for the one exp term in question (DESIGN 2.2: laws of
        # uninterpreted functions are instantiated over the argument terms that occur, never quantified)
        import z3
        t = getattr(gamma[v], 't', None)
        if t is not None and z3.is_app(t) and t.decl().name() == 'exp' and t.num_args() == 1:
            w.assume(z3.Implies(t.arg(0) == 0, t == 1))
    w.ensure(f'gamma[{v}] = 1 at the vertex x[{v}] = 1', w.eq(gamma[v], 1.))
    for j in range(k):
        w.ensure(f"caller's x[{j}] unchanged", w.eq(x[j], 1. if j == v else 0.))
    w.canary('canary: the coefficient at the vertex is two', w.eq(gamma[v], 2.))
    w.note(gamma=list(gamma))


# =========================================================================== B: the real compiled models on real group data

class Tally:
    def __init__(self):
        self.n = {}
        self.bad = {}

    def check(self, name, ok, **info):
        self.n[name] = self.n.get(name, 0) + 1
        if not ok and name not in self.bad:
            self.bad[name] = info

    def declare(self, *names):
        for n in names: self.n.setdefault(n, 0)

    def flush(self, w):
        for name, cnt in self.n.items():
            w.ensure(name, name not in self.bad, evaluations=cnt, **{k: str(v) for k, v in self.bad.get(name, {}).items()})


def b_sets(tier):
    sets = [('Water', 'Ethanol'), ('Acetone', 'Methanol', 'Water'), ('Water', 'O2', 'Ethanol'),
            ('Hexane', 'Toluene', 'Ethanol', 'Water'), ('N2', 'Water', 'Ethanol', 'Methanol', 'Acetone'),
            ('Water', 'Ethanol', 'Methanol', 'Acetone', 'Hexane', 'Toluene')]
    if tier != 'quick':
        sets += [p for p in itertools.combinations(WITH_GROUPS, 2) if p != ('Water', 'Ethanol')]
        sets += list(itertools.combinations(WITH_GROUPS, 3))
        sets += [('O2', 'Hexane', 'N2', 'Toluene'), ('Methanol', 'Acetone', 'Hexane', 'Toluene', 'Water'),
                 ('O2', 'Water', 'Ethanol', 'Methanol', 'Acetone', 'N2')]
    return sets


def b_temperatures(tier):
    return (250., 350., 450.) if tier == 'quick' else tuple(250. + 25. * i for i in range(9))


def b_configs(tier, models=('UNIFAC', 'Dortmund', 'NIST', 'Ideal')):
    out = []
    for model in models:
        for IDs in b_sets(tier):
            if model == 'Ideal' and len(IDs) not in (2, 5): continue
            temps = b_temperatures(tier)
            for T in temps:
                out.append({'name': f'{model};{"+".join(IDs)};T={T:g}', 'model': model, 'IDs': list(IDs), 'T': T,
                            'out_of_process': T == temps[len(temps) // 2]})
    return out


def _rng(cfg, salt):
    return random.Random(f"{SEED}/{salt}/{cfg['name']}")


def _random_points(rng, n, count, floor=0.):
    pts = []
    for _ in range(count):
        e = [-math.log(1. - rng.random()) + floor for _ in range(n)]
        s = sum(e)
        pts.append([i / s for i in e])
    return pts


def _normalised(v):
    s = sum(v)
    return [i / s for i in v]


def _ev(G, x, T):
    """Evaluate on a private copy (the caller's array is the subject of the frame clauses, not of this helper)."""
    return np.asarray(G(np.array(x, dtype=float), T), dtype=float)


def _degenerate(model, IDs, x):
    """All members with groups are absent (only relevant when the set has members without groups)."""
    return model != 'Ideal' and not any(xi != 0. for xi, ID in zip(x, IDs) if has_groups(model, ID))


B_NOTE = ('sets of 2-6 of Water, Ethanol, Methanol, Acetone, Hexane, Toluene (+ O2, N2 as members without groups), real data base '
          'groups (NIST groups assigned by name in the contract); T in {250, 350, 450} (quick) / 250..450 step 25 (thorough); '
          'compositions: all vertices, edge midpoints, centroid, trace amounts 1e-6..1e-12, seeded (VERIF_SEED) random points; ')


# ---- gamma_i -> 1 as x_i -> 1

@group('C16/B_limit_pure', configs=b_configs, mode='B',
       functions=['thermosteam.equilibrium.activity_coefficients:UNIFACActivityCoefficients',
                  'thermosteam.equilibrium.activity_coefficients:DortmundActivityCoefficients',
                  'thermosteam.equilibrium.activity_coefficients:NISTActivityCoefficients',
                  'thermosteam.equilibrium.activity_coefficients:IdealActivityCoefficients',
                  'thermosteam.equilibrium.activity_coefficients:group_activity_coefficients',
                  'thermosteam.equilibrium.activity_coefficients:loggammacs_UNIFAC',
                  'thermosteam.equilibrium.activity_coefficients:loggammacs_modified_UNIFAC'],
       notes=B_NOTE + 'for every member i: the vertex x_i = 1 and x_i = 1 - eps for eps in 1e-2 .. 1e-10 with the rest spread '
                      'evenly, on one other member each, and randomly; |gamma_i - 1| <= 10 eps (+1e-12)')
def B_limit_pure(w, cfg):
    model, IDs, T = cfg['model'], cfg['IDs'], cfg['T']
    n = len(IDs)
    G = build_model(model, IDs)
    rng = _rng(cfg, 'limit')
    t = Tally()
    c_vertex = 'gamma_i = 1 at the vertex x_i = 1'
    c_near = '|gamma_i - 1| <= 10 eps at x_i = 1 - eps (gamma_i tends to one)'
    c_mono = 'the deviation from one does not grow as eps shrinks (1e-2 -> 1e-4 -> 1e-6)'
    t.declare(c_vertex, c_near, c_mono)
    nonideal = 0
    for i in range(n):
        e = [0.] * n; e[i] = 1.
        if not _degenerate(model, IDs, e):      # the degenerate vertices are evaluated out of process in C16/B_frame_and_form
            g = _ev(G, e, T)
            t.check(c_vertex, abs(g[i] - 1.) <= 1e-12, member=IDs[i], gamma=g[i])
        others = [j for j in range(n) if j != i]
        dirs = [[1. / len(others)] * len(others)]
        dirs += [[1. if j == o else 0. for j in others] for o in others]
        dirs += _random_points(rng, len(others), 2)
        for d in dirs:
            devs = {}
            for eps in (1e-2, 1e-4, 1e-6, 1e-8, 1e-10):
                x = [0.] * n
                x[i] = 1. - eps
                for j, dj in zip(others, d): x[j] = eps * dj
                if _degenerate(model, IDs, x): continue
                g = _ev(G, x, T)
                devs[eps] = abs(g[i] - 1.)
                t.check(c_near, devs[eps] <= 10. * eps + 1e-12, member=IDs[i], x=x, gamma=g[i], eps=eps)
            if len(devs) >= 3:
                t.check(c_mono, devs[1e-2] + 1e-12 >= devs[1e-4] and devs[1e-4] + 1e-12 >= devs[1e-6], member=IDs[i], devs=devs)
    # vacuity guard: the models are not identically one away from the vertices
    centre = [1. / n] * n
    gc = _ev(G, centre, T)
    is_ideal = type(G) is AC.IdealActivityCoefficients
    if not is_ideal:
        w.ensure('canary refuted: "every coefficient is one at the equimolar point" is rejected for a non-ideal model',
                 bool(np.max(np.abs(gc - 1.)) > 1e-6))
    w.canary('canary: every coefficient is one at the equimolar point', bool(np.max(np.abs(gc - 1.)) <= 1e-6) and not is_ideal)
    t.flush(w)
    w.note(equimolar=list(gc))


# ---- Gibbs-Duhem

def _gd_points(cfg, n, rng):
    pts = [[1. / n] * n]
    for a, b in itertools.combinations(range(n), 2):            # edge midpoints (the other members absent)
        p = [0.] * n; p[a] = p[b] = 0.5; pts.append(p)
    for a in range(n):                                          # one member in trace amount, one dilute
        p = [1.] * n; p[a] = 1e-9 * n; pts.append(_normalised(p))
        p = [1.] * n; p[a] = 1e-3 * n; pts.append(_normalised(p))
        p = [1e-2] * n; p[a] = 1.; pts.append(_normalised(p))  # one member dominant
    pts += _random_points(rng, n, 6)
    pts += _random_points(rng, n, 3, floor=0.2)
    return pts


@group('C16/B_gibbs_duhem', configs=lambda tier: b_configs(tier, ('UNIFAC', 'Dortmund', 'NIST')), mode='B',
       functions=['thermosteam.equilibrium.activity_coefficients:UNIFACActivityCoefficients',
                  'thermosteam.equilibrium.activity_coefficients:DortmundActivityCoefficients',
                  'thermosteam.equilibrium.activity_coefficients:NISTActivityCoefficients',
                  'thermosteam.equilibrium.activity_coefficients:GroupActivityCoefficients.activity_coefficients',
                  'thermosteam.equilibrium.activity_coefficients:group_activity_coefficients',
                  'thermosteam.equilibrium.activity_coefficients:loggammacs_UNIFAC',
                  'thermosteam.equilibrium.activity_coefficients:loggammacs_modified_UNIFAC'],
       notes=B_NOTE + 'sum_i x_i dln(gamma_i)/ds by central differences (h = min(1e-5, x_a/10, x_b/10)) along every simplex '
                      'direction e_a - e_b between members present with x >= 1e-6 (all pairs for <= 4 members, 8 seeded pairs '
                      'otherwise); |sum| <= 1e-6 (1 + max_i |dln gamma_i/ds|)')
def B_gibbs_duhem(w, cfg):
    model, IDs, T = cfg['model'], cfg['IDs'], cfg['T']
    n = len(IDs)
    G = build_model(model, IDs)
    rng = _rng(cfg, 'gd')
    t = Tally()
    c_gd = 'Gibbs-Duhem: sum_i x_i dln(gamma_i) = 0 along simplex directions at constant T'
    c_gdm = c_gd + ' [GroupActivityCoefficients.activity_coefficients]'
    t.declare(c_gd)
    routes = [(c_gd, lambda x: _ev(G, x, T))]
    if type(G) is not AC.IdealActivityCoefficients and all(has_groups(model, i) for i in IDs):
        # the method that evaluates the kernel directly for a normalised composition of members with groups
        routes.append((c_gdm, lambda x: np.asarray(G.activity_coefficients(np.array(x, dtype=float), T), dtype=float)))
        t.declare(c_gdm)
    biggest = 0.; slope = 0.
    for x in _gd_points(cfg, n, rng):
        present = [j for j in range(n) if x[j] >= 1e-6]
        pairs = list(itertools.combinations(present, 2))
        if n > 4:
            rng.shuffle(pairs); pairs = pairs[:8]
        for a, b in pairs:
            h = min(1e-5, x[a] / 10., x[b] / 10.)
            xp = list(x); xm = list(x)
            xp[a] += h; xp[b] -= h; xm[a] -= h; xm[b] += h
            if _degenerate(model, IDs, xp) or _degenerate(model, IDs, xm): continue
            for clause, ev in routes:
                dl = (np.log(ev(xp)) - np.log(ev(xm))) / (2. * h)
                s = float(np.dot(np.array(x), dl))
                scale = 1. + float(np.max(np.abs(dl)))
                if clause is c_gd:
                    biggest = max(biggest, abs(s) / scale); slope = max(slope, float(np.max(np.abs(dl))))
                t.check(clause, abs(s) <= 1e-6 * scale, x=x, direction=(IDs[a], IDs[b]), residual=s, dlngamma_ds=list(dl))
    is_ideal = type(G) is AC.IdealActivityCoefficients
    if not is_ideal:
        w.ensure('canary refuted: "no coefficient changes along any direction" is rejected for a non-ideal model', slope > 1e-3)
    w.canary('canary: no coefficient changes along any direction', slope <= 1e-3 and not is_ideal)
    t.flush(w)
    w.note(largest_relative_residual=biggest, largest_slope=slope)


# ---- permutation invariance

def _perms(n, rng):
    if n <= 4:
        return list(itertools.permutations(range(n)))
    base = list(range(n))
    out = [tuple(base), tuple(reversed(base))] + [tuple(base[r:] + base[:r]) for r in range(1, n)]
    for _ in range(10):
        p = base[:]; rng.shuffle(p); out.append(tuple(p))
    return list(dict.fromkeys(out))


@group('C16/B_permutation', configs=b_configs, mode='B',
       functions=['thermosteam.equilibrium.activity_coefficients:GroupActivityCoefficients.__new__',
                  'thermosteam.equilibrium.activity_coefficients:GroupActivityCoefficients.__call__',
                  'thermosteam.equilibrium.activity_coefficients:get_chemgroups',
                  'thermosteam.equilibrium.activity_coefficients:chemgroup_array',
                  'thermosteam.equilibrium.activity_coefficients:get_interaction'],
       notes=B_NOTE + 'every permutation of the chemical list for <= 4 members, identity/reverse/rotations/10 seeded otherwise; '
                      'gamma(perm chemicals)(perm x)[k] = gamma(chemicals)(x)[perm[k]] to 1e-10 relative')
def B_permutation(w, cfg):
    model, IDs, T = cfg['model'], cfg['IDs'], cfg['T']
    n = len(IDs)
    rng = _rng(cfg, 'perm')
    G = build_model(model, IDs)
    pts = [[1. / n] * n] + _random_points(rng, n, 4)
    p = [1.] * n; p[0] = 1e-9; pts.append(_normalised(p))
    p = [0.] * n; p[0] = 0.3; p[-1] = 0.7; pts.append(p)
    pts = [x for x in pts if not _degenerate(model, IDs, x)]
    base = [_ev(G, x, T) for x in pts]
    t = Tally()
    c_perm = 'the value for a chemical does not depend on its position in the chemical list'
    t.declare(c_perm)
    moved = 0
    for perm in _perms(n, rng):
        Gp = build_model(model, [IDs[q] for q in perm])
        for x, g0 in zip(pts, base):
            gp = _ev(Gp, [x[q] for q in perm], T)
            for kpos, q in enumerate(perm):
                ok = abs(gp[kpos] - g0[q]) <= 1e-10 * max(1., abs(g0[q]))
                t.check(c_perm, ok, order=[IDs[q] for q in perm], x=x, member=IDs[q], value=gp[kpos], reference=g0[q])
            if perm != tuple(range(n)) and np.max(np.abs(gp - g0)) > 1e-6: moved += 1
    is_ideal = type(G) is AC.IdealActivityCoefficients
    if not is_ideal:
        w.ensure('canary refuted: "the coefficient vector is the same for every order of the list" is rejected', moved > 0)
    w.canary('canary: the coefficient vector is the same for every order of the list', moved == 0 and not is_ideal)
    t.flush(w)


# ---- frame, members without groups, functional form, degenerate compositions (out of process)

_SUB_SCRIPT = r"""
import sys, json
import numpy as np
import thermosteam as tmo
from thermosteam.equilibrium import activity_coefficients as ac
req = json.load(sys.stdin)
chems = []
for ID in req['IDs']:
    c = tmo.Chemical(ID)
    if ID in req['nist']: c.NIST.set_group_counts_by_name(req['nist'][ID])
    chems.append(c)
G = getattr(ac, req['cls'])(tuple(chems))
out = []
for x in req['xs']:
    xa = np.array(x, dtype=float)
    r = G(xa, req['T'])
    xf = np.array(x, dtype=float)
    rf = np.ones(len(x)) * G.f(xf, req['T'], *G.args)
    out.append({'gamma': [float(i) for i in r], 'x_after': [float(i) for i in xa], 'f': [float(i) for i in rf]})
sys.stdout.write('\nRESULT' + json.dumps(out) + '\n')
"""


def _eval_out_of_process(model, IDs, xs, T):
    """Child process (same interpreter, same PYTHONPATH, nothing of the framework imported): a composition that crashes the
    interpreter must not take the checker down with it."""
    req = json.dumps({'cls': MODELS[model].__name__, 'IDs': list(IDs), 'xs': xs, 'T': T, 'nist': NIST_GROUPS})
    try:
        p = subprocess.run([sys.executable, '-W', 'ignore', '-c', _SUB_SCRIPT], input=req, capture_output=True, text=True,
                           timeout=600)
    except subprocess.TimeoutExpired:
        return None, 'timeout'
    for line in p.stdout.splitlines():
        if line.startswith('RESULT'):
            return json.loads(line[6:]), None
    tail = (p.stderr or '').strip().splitlines()[-1:] or ['']
    return None, f'exit code {p.returncode} ({"killed by signal %d" % -p.returncode if p.returncode < 0 else tail[0][:200]})'


@group('C16/B_frame_and_form', configs=b_configs, mode='B',
       functions=['thermosteam.equilibrium.activity_coefficients:GroupActivityCoefficients.__call__',
                  'thermosteam.equilibrium.activity_coefficients:UNIFACActivityCoefficients.f',
                  'thermosteam.equilibrium.activity_coefficients:DortmundActivityCoefficients.f',
                  'thermosteam.equilibrium.activity_coefficients:NISTActivityCoefficients.f',
                  'thermosteam.equilibrium.activity_coefficients:gamma_UNIFAC',
                  'thermosteam.equilibrium.activity_coefficients:gamma_modified_UNIFAC',
                  'thermosteam.equilibrium.activity_coefficients:IdealActivityCoefficients.__call__'],
       notes=B_NOTE + 'compiled functions; float64 array, list and tuple inputs; the compositions in which only members without '
                      'groups are present are evaluated in a child process (a crash of the interpreter is a failed clause)')
def B_frame_and_form(w, cfg):
    model, IDs, T = cfg['model'], cfg['IDs'], cfg['T']
    n = len(IDs)
    rng = _rng(cfg, 'frame')
    G = build_model(model, IDs)
    pts = [[1. / n] * n]
    for i in range(n):
        e = [0.] * n; e[i] = 1.; pts.append(e)
    for a, b in itertools.combinations(range(n), 2):
        p = [0.] * n; p[a] = p[b] = 0.5; pts.append(p)
    for a in range(n):
        for tr in (1e-6, 1e-12):
            p = [1.] * n; p[a] = tr * n; pts.append(_normalised(p))
    pts += _random_points(rng, n, 8)
    degenerate = [x for x in pts if _degenerate(model, IDs, x)]
    pts = [x for x in pts if not _degenerate(model, IDs, x)]
    t = Tally()
    c_frame = "the caller's composition array is unchanged by the object call"
    c_frame_f = "the caller's composition array is unchanged by the functional form"
    c_seq = 'list / tuple input: unchanged, same values as for the array'
    c_form = 'functional form f(x, T, *args) = object call (same values)'
    c_one = 'members without groups get exactly one'
    c_pos = 'every coefficient is finite and positive'
    c_rep = 'same arguments after an unrelated evaluation give the same values'
    c_deg = 'only members without groups present: the model evaluates, they get exactly one, the array is unchanged'
    t.declare(c_frame, c_frame_f, c_seq, c_form, c_one, c_pos, c_rep)
    nog = [j for j, ID in enumerate(IDs) if not has_groups(model, ID)]
    for x in pts:
        xa = np.array(x, dtype=float); x0 = xa.copy()
        r = np.asarray(G(xa, T), dtype=float)
        t.check(c_frame, np.array_equal(xa, x0), x=x, after=list(xa))
        xf = x0.copy()
        rf = np.ones(n) * G.f(xf, T, *G.args)
        t.check(c_frame_f, np.array_equal(xf, x0), x=x, after=list(xf))
        t.check(c_form, np.array_equal(rf, r), x=x, object_call=list(r), functional=list(rf))
        xl = list(x); xt = tuple(x)
        rl = np.asarray(G(xl, T), dtype=float); rt = np.asarray(G(xt, T), dtype=float)
        t.check(c_seq, xl == list(x) and xt == tuple(x) and np.array_equal(rl, r) and np.array_equal(rt, r), x=x,
                from_list=list(rl), from_array=list(r))
        t.check(c_one, all(r[j] == 1. for j in nog), x=x, gamma=list(r))
        t.check(c_pos, bool(np.all(np.isfinite(r)) and np.all(r > 0.)), x=x, gamma=list(r))
        G(np.array([1. / n] * n, dtype=float), 250. + (T + 77.) % 200.)      # never degenerate (see _degenerate)
        r2 = np.asarray(G(x0.copy(), T), dtype=float)
        t.check(c_rep, np.array_equal(r2, r), x=x, first=list(r), second=list(r2))
    if degenerate and cfg.get('out_of_process', True):
        t.declare(c_deg)
        res, err = _eval_out_of_process(model, IDs, degenerate, T)
        if res is None:
            t.check(c_deg, False, x=degenerate[0], outcome=err)
        else:
            for x, o in zip(degenerate, res):
                ok = (o['x_after'] == x and all(o['gamma'][j] == 1. for j in nog) and all(o['f'][j] == 1. for j in nog)
                      and all(math.isfinite(v) for v in o['gamma']))
                t.check(c_deg, ok, x=x, outcome=o)
    is_ideal = type(G) is AC.IdealActivityCoefficients
    gc = _ev(G, [1. / n] * n, T)
    if not is_ideal:
        w.ensure('canary refuted: "members with groups get exactly one" is rejected', bool(np.max(np.abs(gc - 1.)) > 1e-6))
    w.canary('canary: members with groups get exactly one', bool(np.max(np.abs(gc - 1.)) <= 1e-6) and not is_ideal)
    t.flush(w)
