# -*- coding: utf-8 -*-
"""
C20 (gap round) -- separation helpers: histories, alternative entry points, input families and observation channels
that the groups of C20_separations.py do not look at.  Same sentences of the property, other places:

  * phase_split after the feed's phase representation / contents changed (remembered phase views of the feed);
  * the VLE / LLE wrappers on a MULTI-PHASE feed (feed.copy() of a MultiStream, multi_stream.copy_like(MultiStream),
    feed.mol as a read-only total) -- equilibrium by its C03 contract, faithfully: only the two rows in equilibrium move;
  * partition: multi-phase feed, forced chemical given as a plain string on the top side, feed without any chemical in
    equilibrium, one chemical in equilibrium, the guess handed to the solver, a second call on the same outlets with
    other chemicals, and the achieved K read back through partition_coefficients / vle_ / lle_partition_coefficients
    and through the keyed (by name) and positional public accessors of the outlets;
  * mix_and_split: split given as a python list / tuple (doctest form), inlets as tuple / generator, the BOTTOM outlet
    among the inlets (recycle), a second call on the same outlets, multi-phase top in the quick tier;
  * chemical_splits read by name, and used (splits times the mixed flow, by Stream.split_to) to give back stream a;
  * material_balance: least-squares variant (is_exact=False) on invertible systems, and the real numpy solver (mode B);
  * partition on the REAL Rachford-Rice solver for 1..6 chemicals in equilibrium with forced top/bottom (mode B);
  * adjust_moisture_content / mix_and_split_with_moisture_content on streams with a past (views read, representation
    changed, an earlier run), list split, permeate among the inlets; phase_fraction on the feeds/forms of the partition group.

Findings on the tree (reproducers and proposed patches /tmp/gap/C20_defect_<n>.py / .diff):
  1. separations.vle drops the material a feed holds in a phase other than g/l (group gap_vle_feed_with_solid_phase);
  2. material_balance(is_exact=False) zips over the tuple returned by numpy.linalg.lstsq (group gap_material_balance_lstsq);
  3. (regression of /repo eaa58b2) MultiStream.split_to empties s1/s2 even when one of them is the stream itself:
     mix_and_split with a multi-phase top loses everything (group gap_mix_and_split_variants, top=gl configurations).
Groups 1 and 2 fail on the unchanged tree until the defects are repaired or listed as known findings; no clause was weakened.
"""
import os
import sys
import random
import warnings
import numpy as np
import thermosteam as tmo
from thermosteam.exceptions import InfeasibleRegion
from engine.api import group
from engine.sx import tmo_world as W
from contracts import C20_separations as C

sep = C.sep
PKG, KINDS = C.PKG, C.KINDS
_tot, _row, _dense, _nonneg, _rep_ok, _state, _same_state, _arr, _rows, _present = (
    C._tot, C._row, C._dense, C._nonneg, C._rep_ok, C._state, C._same_state, C._arr, C._rows, C._present)
WATER = C.WATER


def _cas(pkg):
    return {i: W.chemical(i).CAS for i in PKG[pkg]}


# --------------------------------------------------------------------------- phase_split: histories of the feed

def _check_phase_split(w, feed, outs, tag):
    """One call of phase_split and the sentences of the property about it (outlet i = phase i, sum = feed)."""
    phases = tuple(feed.phases)
    pre = _state(feed)
    rows = {ph: _row(feed, ph) for ph in phases}
    sep.phase_split(feed, outs)
    w.ensure(f'{tag}: feed unchanged (flows, phases, T, P)', _same_state(w, pre, feed))
    total = {c: 0. for c in feed.chemicals.CASs}
    for n, (ph, o) in enumerate(zip(phases, outs)):
        got = _tot(o)
        for cas, v in got.items():
            w.ensure(f'{tag}: outlet {n}[{cas}] = feed[{ph},{cas}]', w.eq(v, rows[ph].get(cas, 0.)))
            total[cas] = total[cas] + v
        w.ensure(f'{tag}: outlet {n} is a single-phase stream in phase {ph}',
                 (not isinstance(o, tmo.MultiStream)) and o.phase == ph)
        w.ensure(f'{tag}: outlet {n} rep_ok, no negative flows', w.And(_rep_ok(w, o), _nonneg(w, o)))
        # the same through the public keyed accessor (by name)
        w.ensure(f'{tag}: outlet {n} read by name = feed phase {ph}',
                 w.And(*[w.eq(o.imol[ID], rows[ph][W.chemical(ID).CAS]) for ID in feed.chemicals.IDs]))
    ft = _tot(feed)
    for cas in total:
        w.ensure(f'{tag}: sum of outlets[{cas}] = feed', w.eq(total[cas], ft[cas]))
    return rows


def psh_configs(tier):
    hs = ['set-flows', 'add-phase', 'stream-to-multi', 'multi-to-stream', 'drop-phase', 'view-then-copy_like',
          'view-then-mix_from', 'swap-rows']
    return [{'name': f'history={h}', 'h': h} for h in hs]


@group('C20/gap_phase_split_history', configs=psh_configs,
       functions=['thermosteam.separations:phase_split', 'thermosteam._multi_stream:MultiStream.__getitem__',
                  'thermosteam._multi_stream:MultiStream.__iter__', 'thermosteam._multi_stream:MultiStream.phases',
                  'thermosteam._multi_stream:MultiStream.phase', 'thermosteam._stream:Stream.phases',
                  'thermosteam._multi_stream:MultiStream.copy_like', 'thermosteam._stream:Stream.copy_like'])
def phase_split_history(w, cfg):
    """phase_split, then the feed changes (contents, phase set, class, in-place growth), then phase_split again on the
    same objects: outlet i = phase i of the feed as it is NOW."""
    W.reset_caches()
    h = cfg['h']
    IDs = PKG['P2']
    mk = lambda nm, kind, mode='pos': W.make_stream(w, nm, IDs, KINDS[kind], present=_present('P2', kind, mode))[0]
    outs = [mk(f'o{n}', 'l' if n % 2 else 'g') for n in range(3)]
    leaf = lambda nm: w.real(nm, lo=0, lo_strict=True)
    if h == 'stream-to-multi':
        feed = mk('feed', 'l', 'two-maybe')
        _check_phase_split(w, feed, outs[:1], 'first call')
        feed.phases = ('g', 'l')
        feed.imol['g', 'Ethanol'] = leaf('new.g.Ethanol')
        _check_phase_split(w, feed, outs[:2], 'second call')
    elif h == 'multi-to-stream':
        feed = mk('feed', 'gl', 'pos')
        _check_phase_split(w, feed, outs[:2], 'first call')
        feed.imol['g'] = 0.
        feed.phase = 'l'
        feed.imol['Ethanol'] = leaf('new.l.Ethanol')
        _check_phase_split(w, feed, outs[:1], 'second call')
    elif h == 'set-flows':
        feed = mk('feed', 'gl', 'two-maybe')
        _check_phase_split(w, feed, outs[:2], 'first call')
        feed.imol['g', 'Water'] = leaf('new.g.Water')
        feed.imol['l', 'Ethanol'] = 0.
        _check_phase_split(w, feed, outs[:2], 'second call')
    elif h == 'add-phase':
        feed = mk('feed', 'gl', 'maybe')
        _check_phase_split(w, feed, outs[:2], 'first call')
        feed.phases = ('g', 'l', 's')
        feed.imol['s', 'Water'] = leaf('new.s.Water')
        _check_phase_split(w, feed, outs, 'second call')
    elif h == 'drop-phase':
        feed = mk('feed', 'gls', 'pos')
        _check_phase_split(w, feed, outs, 'first call')
        feed.imol['g'] = 0.
        feed.phases = ('l', 's')
        _check_phase_split(w, feed, outs[:2], 'second call')
    elif h == 'view-then-copy_like':
        feed = mk('feed', 'gl', 'pos')
        _check_phase_split(w, feed, outs[:2], 'first call')      # remembers the views feed['g'], feed['l']
        other = mk('other', 'gls', 'pos')
        feed.copy_like(other)                                    # the feed's phase set grows in place
        _check_phase_split(w, feed, outs[:len(feed.phases)], 'second call')
    elif h == 'view-then-mix_from':
        feed = mk('feed', 'gl', 'pos')
        _check_phase_split(w, feed, outs[:2], 'first call')
        a, b = mk('a', 'ls', 'pos'), mk('b', 'g', 'maybe')
        feed.mix_from([a, b], energy_balance=False)
        _check_phase_split(w, feed, outs[:len(feed.phases)], 'second call')
    elif h == 'swap-rows':
        feed = mk('feed', 'gl', 'pos')
        rows1 = _check_phase_split(w, feed, outs[:2], 'first call')
        g, l = feed.imol['g'].copy(), feed.imol['l'].copy()
        feed.imol['g'] = l
        feed.imol['l'] = g
        rows2 = _check_phase_split(w, feed, outs[:2], 'second call')
    else:
        raise ValueError(h)
    c0 = feed.chemicals.CASs[0]
    w.canary('canary: outlet 0 = feed phase 0 + 1', w.eq(_tot(outs[0])[c0], _row(feed, feed.phases[0])[c0] + 1))


# --------------------------------------------------------------------------- lle / vle wrappers on a multi-phase feed

class _EquilibriumStubRows(C._EquilibriumStub):
    """
    C03 contract of the equilibrium objects, row-faithful: the two rows in equilibrium (a, b) hold ARBITRARY non-negative
    flows afterwards whose per-chemical sum is what these two rows held before; every other row is left as it is
    (`l' + g' = l + g`, DESIGN section 4 / C03).  T is the given one or an arbitrary positive value.
    """
    def __call__(self, T=None, P=None, **kw):
        w, ms = self.w, self.ms
        n = f'{self.prefix}.{len(self.log)}'
        rows = dict(W.rows_of(ms))
        size = rows[self.a].size
        tot = [x + y for x, y in zip(_dense(rows[self.a]), _dense(rows[self.b]))]
        ya = []
        for k in range(size):
            if tot[k].__class__ in (int, float) and tot[k] == 0:
                ya.append(0.); continue
            y = w.real(f'eq{n}.{self.a}.{k}', lo=0.)
            w.assume(w.le(y, tot[k]))
            ya.append(y)
        yb = [t - y for t, y in zip(tot, ya)]
        C._write_dense(rows[self.a], ya)
        C._write_dense(rows[self.b], yb)
        ms.T = T if T is not None else w.real(f'eq{n}.T', lo=0., lo_strict=True)
        if P is not None: ms.P = P
        self.log.append({'T': T, 'P': P, 'kw': kw, self.a: ya, self.b: yb, 'total': tot, 'phases': tuple(rows)})


class _equilibrium_rows_stubbed:
    """Rebinds MultiStream.vle / .lle (phase expansion exactly as in the real properties)."""
    def __init__(self, w, log, prefix=''): self.w, self.log, self.prefix = w, log, prefix
    def __enter__(self):
        self.saved = (tmo.MultiStream.__dict__['vle'], tmo.MultiStream.__dict__['lle'])
        w, log, prefix = self.w, self.log, self.prefix

        def stub(ms, a, b):
            e = _EquilibriumStubRows(w, ms, a, b, log)
            e.prefix = prefix
            return e

        def vle(ms):
            phases = ms.phases
            if 'l' not in phases or 'g' not in phases: ms.phases = [*phases, 'l', 'g']
            return stub(ms, 'g', 'l')

        def lle(ms):
            phases = ms.phases
            if 'l' not in phases or 'L' not in phases: ms.phases = [*phases, 'l', 'L']
            return stub(ms, 'L', 'l')
        tmo.MultiStream.vle = property(vle)
        tmo.MultiStream.lle = property(lle)
        return self
    def __exit__(self, *exc):
        tmo.MultiStream.vle, tmo.MultiStream.lle = self.saved
        return False


def _feed_present(pkg, kind):
    """Two strictly positive entries (one per row, different chemicals) and two that may be zero."""
    IDs = PKG[pkg]
    rows = _rows(kind)
    p = {'default': 'zero'}
    for n, ph in enumerate(rows):
        p[ph, IDs[n % len(IDs)]] = 'pos'
        p[ph, IDs[(n + 1) % len(IDs)]] = 'maybe'
    return p


def wmf_configs(tier):
    quick = tier == 'quick'
    out = []
    lle = [('P3', 'Ll', 'Octane', 'leaf', None, 1), ('P3', 'Ll', None, 'one', 'Ll', 1), ('P3', 'Ll', 'Octane', 'leaf', 'Ll', 2)]
    vle = [('P3', 'gl', 'V', None, 1), ('P3', 'gl', 'TP', 'gl', 1), ('P3', 'gl', 'Q', None, 1), ('P3', 'gl', 'V', 'gl', 2),
           ('P3', 'gl', 'TP', 'gls', 1)]      # multi_stream with one phase more than the feed (emptied, not carried over)
    if not quick:
        lle += [('P3', 'Ll', None, 'leaf', None, 1), ('Q4', 'Ll', 'Water', 'leaf', 'Ll', 1), ('P2', 'Ll', None, 'leaf', 'Ll', 2),
                ('P3', 'l', 'Octane', 'leaf', 'Ll', 2)]
        vle += [('Q4', 'gl', 'TP', 'gl', 2), ('P2', 'gl', 'Q', 'gl', 1), ('P3', 'g', 'V', 'gl', 2), ('P3', 'l', 'Q', 'gl', 2)]
    for pkg, fk, tc, eff, ms, calls in lle:
        out.append({'name': f'lle;pkg={pkg};feed={fk};top_chemical={tc};efficiency={eff};multi_stream={ms};calls={calls}',
                    'what': 'lle', 'pkg': pkg, 'fk': fk, 'tc': tc, 'eff': eff, 'ms': ms, 'calls': calls})
    for pkg, fk, spec, ms, calls in vle:
        out.append({'name': f'vle;pkg={pkg};feed={fk};spec={spec};multi_stream={ms};calls={calls}', 'what': 'vle', 'pkg': pkg,
                    'fk': fk, 'spec': spec, 'ms': ms, 'calls': calls})
    return out


def _wrapper_call(w, cfg, th, feed, o1, o2, ms, tag, n):
    """One call of sep.lle / sep.vle on the stubbed equilibrium and the sentences of the property about it."""
    pre = _state(feed)
    f = _tot(feed)
    CASs = feed.chemicals.CASs
    log = []
    with _equilibrium_rows_stubbed(w, log, f'c{n}'):
        if cfg['what'] == 'lle':
            eff = 1.0 if cfg['eff'] == 'one' else w.real(f'efficiency{n}', lo=0, hi=1)
            kw = {} if cfg['eff'] == 'one' else {'efficiency': eff}
            sep.lle(feed, o1, o2, top_chemical=cfg['tc'], multi_stream=ms, **kw)
        else:
            kw = {'P': w.real(f'P{n}', lo=0, lo_strict=True)}
            if cfg['spec'] == 'V': kw['V'] = w.real(f'V{n}', lo=0, hi=1)
            elif cfg['spec'] == 'TP': kw['T'] = w.real(f'T{n}', lo=0, lo_strict=True)
            else: kw['Q'] = w.real(f'Q{n}')
            sep.vle(feed, o1, o2, multi_stream=ms, **kw)
    t1, t2 = _tot(o1), _tot(o2)
    for c in CASs:
        w.ensure(f'{tag}: outlet 1[{c}] + outlet 2[{c}] = feed', w.eq(t1[c] + t2[c], f[c]))
    w.ensure(f'{tag}: no negative flows', _nonneg(w, o1, o2))
    w.ensure(f'{tag}: feed unchanged (flows, phases, T, P)', _same_state(w, pre, feed))
    w.ensure(f'{tag}: equilibrium ran exactly once', len(log) == 1)
    e = log[0]
    if cfg['what'] == 'lle':
        L, l = e['L'], e['l']
        half = [(1. - eff) / 2. * f[c] for c in CASs]
        asL = lambda t: w.And(*[w.eq(t[c], eff * L[k] + half[k]) for k, c in enumerate(CASs)])
        asl = lambda t: w.And(*[w.eq(t[c], eff * l[k] + half[k]) for k, c in enumerate(CASs)])
        if cfg['tc']:
            w.ensure(f'{tag}: top = efficiency * extract phase (L) + half of the rest of the feed; bottom likewise with l',
                     w.And(asL(t1), asl(t2)))
        else:
            w.ensure(f'{tag}: outlets = efficiency * one liquid phase each + half of the rest of the feed',
                     w.Or(w.And(asL(t1), asl(t2)), w.And(asl(t1), asL(t2))))
        w.ensure(f'{tag}: equilibrium at the temperature of the feed; outlets at T, P of the feed',
                 w.And(w.eq(e['T'], pre[1]), w.eq(o1.T, pre[1]), w.eq(o2.T, pre[1]), w.eq(o1.P, pre[2]), w.eq(o2.P, pre[2])))
    else:
        w.ensure(f'{tag}: vapor outlet = g phase, liquid outlet = l phase of the equilibrated stream',
                 w.And(*[w.eq(t1[c], e['g'][k]) for k, c in enumerate(CASs)], *[w.eq(t2[c], e['l'][k]) for k, c in enumerate(CASs)]))
        w.ensure(f"{tag}: outlets are single-phase 'g' and 'l'", (not isinstance(o1, tmo.MultiStream)) and o1.phase == 'g'
                 and (not isinstance(o2, tmo.MultiStream)) and o2.phase == 'l')
        w.ensure(f'{tag}: outlets at the same T and P', w.And(w.eq(o1.T, o2.T), w.eq(o1.P, o2.P), w.eq(o1.P, kw['P'])))
    # what went into the equilibrium is the material of the feed (all of it, each chemical)
    w.ensure(f'{tag}: the equilibrated stream held the material of the feed',
             w.And(*[w.eq(e['total'][k], f[c]) for k, c in enumerate(CASs)]))
    if ms is not None:
        m = _tot(ms)
        w.ensure(f'{tag}: multi_stream holds the material of the feed', w.And(*[w.eq(m[c], f[c]) for c in CASs]))
    return t1, t2, f


@group('C20/gap_wrappers_multiphase_feed', configs=wmf_configs,
       functions=['thermosteam.separations:lle', 'thermosteam.separations:vle', 'thermosteam._stream:Stream.copy',
                  'thermosteam._multi_stream:MultiStream.copy_like', 'thermosteam._multi_stream:MultiStream.mol'],
       assumptions=['A-equilibrium-C03 (stream.vle / stream.lle: the two rows in equilibrium keep their per-chemical sum, '
                    'non-negative flows, other rows untouched)', 'A-models'], l0=True)
def wrappers_multiphase_feed(w, cfg):
    """The wrappers on a feed that is itself multi-phase (phases within those of the equilibrium), once or twice on the same
    outlets / multi_stream with another feed: outlets sum to the feed, are non-negative, replace what the outlets held."""
    W.reset_caches()
    th = C._Stubs(w)
    pkg = cfg['pkg']
    IDs = PKG[pkg]
    o1, _ = W.stream_on(w, 'o1', th(pkg), 'l', present={'default': 'zero', ('l', IDs[-1]): 'pos'})
    o2, _ = W.stream_on(w, 'o2', th(pkg), 'g', present={'default': 'zero', ('g', IDs[0]): 'pos'})
    ms = None
    if cfg['ms']:
        ms, _ = W.stream_on(w, 'ms', th(pkg), KINDS[cfg['ms']], present=_present(pkg, cfg['ms'], 'pos'))   # something in every row
    for n in range(cfg['calls']):
        kind = cfg['fk'] if n == 0 else {'gl': 'l', 'Ll': 'l', 'l': 'gl' if cfg['what'] == 'vle' else 'Ll', 'g': 'gl'}[cfg['fk']]
        feed, _ = W.stream_on(w, f'feed{n}', th(pkg), KINDS[kind], present=_feed_present(pkg, kind))
        t1, t2, f = _wrapper_call(w, cfg, th, feed, o1, o2, ms, f'call {n + 1}', n)
    c0 = feed.chemicals.CASs[0]
    w.canary('canary: outlet 1 + outlet 2 = feed + 1', w.eq(t1[c0] + t2[c0], f[c0] + 1))
    w.canary('canary: everything ends in outlet 1', w.eq(t2[c0], 0.))


def vof_configs(tier):
    # feeds that hold material in a phase that takes no part in the vapour-liquid equilibrium: a solid, or a second liquid 'L' (the
    # latter added after seeded change C20_8)
    fams = [('P3', 'ls', 'V', None), ('P3', 'gls', 'TP', 'gl'), ('P3', 'Ll', 'V', None), ('P3', 'Ll', 'TP', 'gl')]
    if tier != 'quick':
        fams += [('P2', 'ls', 'Q', 'gl'), ('P3', 's', 'V', None), ('P3', 'gls', 'V', None)]
    return [{'name': f'vle;pkg={p};feed={fk};spec={spec};multi_stream={ms};calls=1', 'what': 'vle', 'pkg': p, 'fk': fk, 'spec': spec,
             'ms': ms, 'calls': 1} for p, fk, spec, ms in fams]


@group('C20/gap_vle_feed_with_solid_phase', configs=vof_configs,
       functions=['thermosteam.separations:vle', 'thermosteam._stream:Stream.copy', 'thermosteam._multi_stream:MultiStream.copy_like'],
       assumptions=['A-equilibrium-C03 (stream.vle: l + g keep their per-chemical sum, non-negative flows, other rows untouched)',
                    'A-models'], l0=True)
def vle_feed_with_solid_phase(w, cfg):
    """The VLE wrapper on a feed that also holds a solid phase: the two outlets still sum to the feed, chemical by chemical."""
    W.reset_caches()
    th = C._Stubs(w)
    pkg = cfg['pkg']
    IDs = PKG[pkg]
    o1, _ = W.stream_on(w, 'o1', th(pkg), 'l', present={'default': 'zero', ('l', IDs[-1]): 'pos'})
    o2, _ = W.stream_on(w, 'o2', th(pkg), 'g', present={'default': 'zero', ('g', IDs[0]): 'pos'})
    ms = None
    if cfg['ms']:
        ms, _ = W.stream_on(w, 'ms', th(pkg), KINDS[cfg['ms']], present={'default': 'zero', (KINDS[cfg['ms']][0], IDs[1]): 'pos'})
    feed, _ = W.stream_on(w, 'feed', th(pkg), KINDS[cfg['fk']], present=_feed_present(pkg, cfg['fk']))
    pre = _state(feed)
    f = _tot(feed)
    log = []
    with _equilibrium_rows_stubbed(w, log, 'c0'):
        kw = {'P': w.real('P', lo=0, lo_strict=True)}
        if cfg['spec'] == 'V': kw['V'] = w.real('V', lo=0, hi=1)
        elif cfg['spec'] == 'TP': kw['T'] = w.real('T', lo=0, lo_strict=True)
        else: kw['Q'] = w.real('Q')
        sep.vle(feed, o1, o2, multi_stream=ms, **kw)
    t1, t2 = _tot(o1), _tot(o2)
    for c in feed.chemicals.CASs:
        w.ensure(f'outlet 1[{c}] + outlet 2[{c}] = feed', w.eq(t1[c] + t2[c], f[c]))
    w.ensure('no negative flows', _nonneg(w, o1, o2))
    w.ensure('feed unchanged (flows, phases, T, P)', _same_state(w, pre, feed))
    c0 = feed.chemicals.CASs[0]
    w.canary('canary: outlet 1 + outlet 2 = feed + 1', w.eq(t1[c0] + t2[c0], f[c0] + 1))


# --------------------------------------------------------------------------- partition: other feeds, forms, histories, channels

def _phi_stub(w, calls, prefix):
    """`compute_phase_fraction` -> any real number (fresh leaf, name unique per call of the helper)."""
    def compute_phase_fraction(zs, Ks, guess=None, za=0., zb=0.):
        phi = w.real(f'{prefix}phi{len(calls)}')
        calls.append({'zs': list(zs), 'Ks': list(Ks), 'guess': guess, 'za': za, 'zb': zb, 'phi': phi})
        return phi
    return compute_phase_fraction


def _partition_clauses(w, tag, pkg, feed, top, bottom, IDs, K, tc, bc, strict, phi_guess=None):
    """One call of sep.partition (solver havoc'ed) and every sentence of the property about it.  Returns what is needed
    for further observations."""
    Karr = _arr(w, K)
    pre = _state(feed)
    f = _tot(feed)
    calls = []
    kw = {} if phi_guess is None else {'phi': phi_guess}
    with C._rebound(compute_phase_fraction=_phi_stub(w, calls, tag.replace(' ', '') + '.')), C._Reports() as rep:
        try:
            phi = sep.partition(feed, top, bottom, tuple(IDs), Karr, top_chemicals=tc, bottom_chemicals=bc, strict=strict, **kw)
        except InfeasibleRegion:
            w.ensure(f'{tag}: InfeasibleRegion never raised for positive partition coefficients', False)
            return None
    t, b = _tot(top), _tot(bottom)
    cas = _cas(pkg)
    for ID, c in cas.items():
        w.ensure(f'{tag}: top[{ID}] + bottom[{ID}] = feed', w.eq(t[c] + b[c], f[c]))
        # the same through the public accessors: by name (all phases of the feed) and by position
        i = feed.chemicals.index(ID)
        w.ensure(f'{tag}: top[{ID}] + bottom[{ID}] = feed, read by name and by position',
                 w.And(w.eq(top.imol[ID] + bottom.imol[ID], feed.imol[ID]), w.eq(top.mol[i] + bottom.mol[i], feed.mol[i])))
    w.ensure(f'{tag}: no negative flows', _nonneg(w, top, bottom))
    w.ensure(f'{tag}: no infeasibility reported', rep.n == 0)
    for n, i in enumerate(IDs):
        for m, j in enumerate(IDs):
            if m > n:
                w.ensure(f'{tag}: K reproduced up to a common factor [{i},{j}]: top_i * bottom_j * K_j = top_j * bottom_i * K_i',
                         w.eq(t[cas[i]] * b[cas[j]] * K[m], t[cas[j]] * b[cas[i]] * K[n]))
    for ID in C._as_list(tc):
        w.ensure(f'{tag}: top chemical [{ID}] entirely in top', w.And(w.eq(t[cas[ID]], f[cas[ID]]), w.eq(b[cas[ID]], 0.)))
    for ID in C._as_list(bc):
        w.ensure(f'{tag}: bottom chemical [{ID}] entirely in bottom', w.And(w.eq(b[cas[ID]], f[cas[ID]]), w.eq(t[cas[ID]], 0.)))
    for ID in cas:
        if ID not in IDs and ID not in C._as_list(tc) and ID not in C._as_list(bc):
            w.ensure(f'{tag}: chemical not in equilibrium [{ID}] ends up in top', w.And(w.eq(t[cas[ID]], f[cas[ID]]), w.eq(b[cas[ID]], 0.)))
    p0 = calls[0]['phi']
    w.ensure(f'{tag}: returned phase fraction is the solved one clipped into [0, 1]',
             w.And(w.Implies(w.le(p0, 0.), w.eq(phi, 0.)), w.Implies(w.ge(p0, 1.), w.eq(phi, 1.)),
                   w.Implies(w.And(w.gt(p0, 0.), w.lt(p0, 1.)), w.eq(phi, p0))))
    # the Rachford-Rice problem handed to the solver: fractions of the feed over equilibrium + forced chemicals
    Fa = w.total([f[cas[i]] for i in C._as_list(tc)])
    Fb = w.total([f[cas[i]] for i in C._as_list(bc)])
    F = w.total([f[cas[i]] for i in IDs]) + Fa + Fb
    a = calls[0]
    w.ensure(f'{tag}: solver is given z = feed fractions, the K array, and the forced top/bottom fractions',
             w.And(len(calls) == 1, len(a['zs']) == len(IDs), *[w.eq(z * F, f[cas[i]]) for z, i in zip(a['zs'], IDs)],
                   w.all_eq(a['Ks'], K), w.eq(a['za'] * F, Fa), w.eq(a['zb'] * F, Fb)))
    w.ensure(f'{tag}: feed unchanged (flows, phases, T, P)', _same_state(w, pre, feed))
    w.ensure(f'{tag}: K array unchanged', w.all_eq(list(Karr), K))
    w.ensure(f'{tag}: outlets rep_ok', _rep_ok(w, top, bottom))
    return {'t': t, 'b': b, 'f': f, 'phi': phi, 'p0': p0, 'cas': cas, 'calls': calls}


def _pv_feed(w, name, pkg, kind, pos, maybe):
    p = {'default': 'zero'}
    for k in pos: p[tuple(k)] = 'pos'
    for k in maybe: p[tuple(k)] = 'maybe'
    return W.make_stream(w, name, PKG[pkg], KINDS[kind], present=p)[0]


def pv_configs(tier):
    quick = tier == 'quick'
    L = lambda *xs: [['l', x] for x in xs]
    fams = [
        # name, package, feed kind, strictly positive entries, maybe-zero entries, IDs, top_chemicals, bottom_chemicals, guess
        ('multi-phase-feed', 'P3', 'gl', [['l', 'Water'], ['g', 'Ethanol']], [['g', 'Water'], ['l', 'Octane']], ['Water', 'Ethanol'], None, None, False),
        ('multi-phase-feed-forced', 'P3', 'gl', [['g', 'Water'], ['l', 'Octane']], [['l', 'Ethanol'], ['g', 'Octane']],
         ['Ethanol', 'Water'], None, 'Octane', False),
        ('top-chemical-as-string', 'P3', 'l', L('Ethanol'), L('Water', 'Octane'), ['Ethanol', 'Water'], 'Octane', None, False),
        ('nothing-in-equilibrium', 'P4', 'l', L('Octane'), L('Methanol'), ['Water', 'Ethanol'], ['Octane'], ['Methanol'], False),
        ('nothing-in-equilibrium-bottom', 'P4', 'l', L('Methanol'), L('Octane'), ['Water', 'Ethanol'], None, 'Methanol', False),
        ('one-chemical-in-equilibrium', 'P3', 'l', L('Water'), L('Ethanol', 'Octane'), ['Water'], None, None, False),
        ('one-chemical-in-equilibrium-forced', 'P3', 'l', L('Ethanol'), L('Water', 'Octane'), ['Ethanol'], ['Water'], ['Octane'], True),
        ('guess-given', 'P3', 'l', L('Water'), L('Ethanol', 'Octane'), ['Water', 'Ethanol'], None, None, True),
    ]
    if not quick:
        fams += [
            ('multi-phase-feed-forced', 'P4', 'gl', [['g', 'Water'], ['l', 'Octane']], [['l', 'Ethanol'], ['g', 'Methanol'], ['g', 'Octane']],
             ['Ethanol', 'Water'], ['Octane'], 'Methanol', False),
            ('multi-phase-feed', 'Q4', 'gls', [['s', 'Water'], ['g', 'Ethanol']], [['l', 'Water'], ['l', 'Octane'], ['s', 'Methanol']],
             ['Water', 'Ethanol', 'Octane'], None, ['Methanol'], False),
            ('top-chemical-as-string', 'Q4', 'l', L('Water'), L('Ethanol', 'Methanol', 'Octane'), ['Water', 'Ethanol'], 'Methanol', 'Octane', True),
            ('one-chemical-in-equilibrium', 'P2', 'gl', [['g', 'Ethanol']], [['l', 'Ethanol'], ['l', 'Water']], ['Ethanol'], None, None, False),
            ('nothing-in-equilibrium', 'P3', 'l', L('Octane'), [], ['Water', 'Ethanol'], 'Octane', None, True),
        ]
    out = []
    for nm, pkg, kind, pos, maybe, IDs, tc, bc, guess in fams:
        for strict in ([False] if quick else [False, True]):
            out.append({'name': f'{nm};pkg={pkg};feed={kind};IDs={"+".join(IDs)};top={tc};bottom={bc};strict={strict}', 'pkg': pkg,
                        'kind': kind, 'pos': pos, 'maybe': maybe, 'IDs': IDs, 'tc': tc, 'bc': bc, 'guess': guess, 'strict': strict})
    return out


@group('C20/gap_partition_variants', configs=pv_configs,
       functions=['thermosteam.separations:partition', 'thermosteam.separations:handle_infeasible_flow_rates',
                  'thermosteam._multi_stream:MultiStream.mol', 'thermosteam.indexer:MaterialIndexer.__getitem__'],
       assumptions=['A-phase-fraction-havoc'], l0=True)
def partition_variants(w, cfg):
    """partition on feeds and argument forms the first group does not build: multi-phase feed, forced top chemical given as
    a plain string, a feed that holds none of the chemicals in equilibrium, a single chemical in equilibrium, a guess."""
    W.reset_caches()
    pkg = cfg['pkg']
    allIDs = PKG[pkg]
    feed = _pv_feed(w, 'feed', pkg, cfg['kind'], cfg['pos'], cfg['maybe'])
    top, _ = W.make_stream(w, 'top', allIDs, 'l', present={'default': 'zero', ('l', allIDs[0]): 'pos'})
    bottom, _ = W.make_stream(w, 'bot', allIDs, 'l', present={'default': 'zero', ('l', allIDs[-1]): 'pos', ('l', cfg['IDs'][0]): 'pos'})
    K = [w.real(f'K.{i}', lo=1e-3, hi=1e3) for i in cfg['IDs']]
    tc, bc = C._forced(cfg)
    guess = w.real('guess', lo=0, hi=1) if cfg['guess'] else None
    r = _partition_clauses(w, 'call', pkg, feed, top, bottom, cfg['IDs'], K, tc, bc, cfg['strict'], guess)
    if r is None: return
    c0 = r['cas'][cfg['IDs'][0]]
    w.canary('canary: top + bottom = feed + 1', w.eq(r['t'][c0] + r['b'][c0], r['f'][c0] + 1))
    if cfg['pos'][0][1] in cfg['IDs']:
        w.canary('canary: everything in equilibrium goes to top', w.eq(r['b'][c0], 0.))


def ph_configs(tier):
    quick = tier == 'quick'
    fams = [  # (package, [call: (IDs, top_chemicals, bottom_chemicals)])
        ('P4', [(['Water', 'Ethanol'], ['Octane'], ['Methanol']), (['Methanol', 'Octane'], None, None)]),
        ('P3', [(['Water', 'Ethanol', 'Octane'], None, None), (['Water', 'Ethanol'], None, 'Octane'), (['Ethanol', 'Water'], None, 'Octane')]),
    ]
    if not quick:
        fams += [('P3', [(['Water', 'Ethanol'], None, 'Octane'), (['Ethanol', 'Octane'], ['Water'], None)]),
                 ('P3', [(['Water', 'Ethanol', 'Octane'], None, None), (['Octane', 'Water'], None, ['Ethanol'])]),
                 ('Q4', [(['Water', 'Ethanol'], None, None), (['Water', 'Ethanol'], ['Octane'], 'Methanol'), (['Ethanol', 'Water'], None, None)])]
    out = []
    for pkg, calls in fams:
        nm = ' then '.join(f'IDs={"+".join(i)},top={t},bottom={b}' for i, t, b in calls)
        out.append({'name': f'pkg={pkg};{nm}', 'pkg': pkg, 'calls': calls})
    return out


@group('C20/gap_partition_history', configs=ph_configs,
       functions=['thermosteam.separations:partition', 'thermosteam.separations:handle_infeasible_flow_rates'],
       assumptions=['A-phase-fraction-havoc'], l0=True)
def partition_history(w, cfg):
    """partition again on the SAME outlets (as a unit does on every simulation) with another feed, other chemicals in
    equilibrium and other forced chemicals: every sentence holds for the later call, nothing is carried over."""
    W.reset_caches()
    pkg = cfg['pkg']
    allIDs = PKG[pkg]
    top, _ = W.make_stream(w, 'top', allIDs, 'l', present={'default': 'zero', ('l', allIDs[0]): 'pos'})
    bottom, _ = W.make_stream(w, 'bot', allIDs, 'l', present={'default': 'zero', ('l', allIDs[-1]): 'pos'})
    last = len(cfg['calls']) - 1
    for n, (IDs, tc, bc) in enumerate(cfg['calls']):
        tcc, bcc = C._forced({'tc': tc, 'bc': bc})
        if n < last:
            # earlier calls: concrete numbers (their own sentences are the business of the one-call groups); what matters
            # here is what they leave behind in the outlets, the feed's package and its memo tables
            feed = tmo.Stream(None, thermo=W.thermo(allIDs), **{i: 1. + k + n for k, i in enumerate(allIDs)})
            with C._rebound(compute_phase_fraction=lambda zs, Ks, guess=None, za=0., zb=0.: [0.375, 1.5, -0.25][n % 3]):
                sep.partition(feed, top, bottom, tuple(IDs), np.array([0.5 + k for k in range(len(IDs))]), top_chemicals=tcc,
                              bottom_chemicals=bcc)
            continue
        p = {'default': 'maybe', ('l', IDs[0]): 'pos'}
        for i in C._as_list(tc) + C._as_list(bc): p['l', i] = 'pos'
        feed, _ = W.make_stream(w, f'feed{n}', allIDs, 'l', present=p)
        K = [w.real(f'K{n}.{i}', lo=1e-3, hi=1e3) for i in IDs]
        r = _partition_clauses(w, f'call {n + 1}', pkg, feed, top, bottom, IDs, K, tcc, bcc, False)
        if r is None: return
    c0 = r['cas'][IDs[0]]
    w.canary('canary: top + bottom = feed + 1 after the last call', w.eq(r['t'][c0] + r['b'][c0], r['f'][c0] + 1))


def pak_configs(tier):
    quick = tier == 'quick'
    fams = [('plain', 'P3', ['Water', 'Ethanol'], None, None), ('vle', 'P3', ['Ethanol', 'Water'], None, None),
            ('lle', 'P3', ['Water', 'Ethanol'], None, None)]
    if not quick:
        fams += [('lle', 'P3', ['Water', 'Ethanol'], None, 'Octane'), ('plain', 'P4', ['Water', 'Ethanol'], ['Octane'], ['Methanol']), ('vle', 'P3', ['Water', 'Ethanol'], None, 'Octane'),
                 ('lle', 'Q4', ['Ethanol', 'Water'], ['Methanol'], None), ('plain', 'P3', ['Water', 'Ethanol', 'Octane'], None, None)]
    return [{'name': f'read={how};pkg={pkg};IDs={"+".join(IDs)};top={tc};bottom={bc}', 'how': how, 'pkg': pkg, 'IDs': IDs, 'tc': tc, 'bc': bc}
            for how, pkg, IDs, tc, bc in fams]


@group('C20/gap_partition_achieved_K', configs=pak_configs,
       functions=['thermosteam.separations:partition', 'thermosteam.separations:partition_coefficients',
                  'thermosteam.separations:vle_partition_coefficients', 'thermosteam.separations:lle_partition_coefficients',
                  'thermosteam._stream:Stream.get_normalized_mol', 'thermosteam._stream:Stream.vle_chemicals',
                  'thermosteam._stream:Stream.lle_chemicals'],
       assumptions=['A-phase-fraction-havoc'], l0=True)
def partition_achieved_K(w, cfg):
    """The partition coefficients READ BACK from the two outlets by the library's own helpers reproduce the given ones up
    to one common factor (when both outlets are non-empty)."""
    W.reset_caches()
    pkg, IDs = cfg['pkg'], cfg['IDs']
    allIDs = PKG[pkg]
    p = {'default': 'zero'}
    for i in IDs: p['l', i] = 'pos'
    for i in C._as_list(cfg['tc']) + C._as_list(cfg['bc']): p['l', i] = 'pos'
    feed, _ = W.make_stream(w, 'feed', allIDs, 'l', present=p)
    top, _ = W.make_stream(w, 'top', allIDs, 'l', present={'default': 'zero', ('l', allIDs[0]): 'pos'})
    bottom, _ = W.make_stream(w, 'bot', allIDs, 'l', present={'default': 'zero', ('l', allIDs[-1]): 'pos'})
    K = [w.real(f'K.{i}', lo=1e-3, hi=1e3) for i in IDs]
    tc, bc = C._forced(cfg)
    calls = []
    with C._rebound(compute_phase_fraction=_phi_stub(w, calls, '')), C._Reports():
        sep.partition(feed, top, bottom, tuple(IDs), _arr(w, K), top_chemicals=tc, bottom_chemicals=bc)
    t, b = _tot(top), _tot(bottom)
    cas = _cas(pkg)
    pre = _state(top), _state(bottom)
    try:
        if cfg['how'] == 'plain':
            rIDs, Kach = tuple(IDs), sep.partition_coefficients(tuple(IDs), top, bottom)
        elif cfg['how'] == 'vle':
            rIDs, Kach = sep.vle_partition_coefficients(top, bottom)
        else:
            rIDs, Kach = sep.lle_partition_coefficients(top, bottom)
    except RuntimeError:
        # the readers refuse an outlet that holds none of the chemicals asked for
        w.ensure('coefficients refused only when an outlet holds none of the chemicals in equilibrium',
                 w.Or(w.eq(w.total([t[cas[i]] for i in IDs]), 0.), w.eq(w.total([b[cas[i]] for i in IDs]), 0.)))
        return
    w.ensure('streams unchanged by reading the coefficients', w.And(_same_state(w, pre[0], top), _same_state(w, pre[1], bottom)))
    rIDs = list(rIDs)
    w.ensure('one coefficient per chemical', len(Kach) == len(rIDs))
    Bsum = w.total([b[cas[i]] for i in rIDs])
    both = [i for i in IDs if i in rIDs]
    for n, i in enumerate(both):
        for j in both[n + 1:]:
            # no flooring of a vanishing bottom fraction (x < 1e-24 is replaced by 1e-24 by the reader)
            # (natively the antecedent must hold by a margin: at the boundary itself rounding decides what the reader does)
            regular = w.And(w.ge(b[cas[i]], 1e-24 * Bsum), w.ge(b[cas[j]], 1e-24 * Bsum)) if w.symbolic else bool(
                b[cas[i]] / Bsum >= 2e-24 and b[cas[j]] / Bsum >= 2e-24)
            ki, kj = Kach[rIDs.index(i)], Kach[rIDs.index(j)]
            w.ensure(f'achieved K reproduces the given K up to a common factor [{i},{j}]',
                     w.Implies(regular, w.eq(ki * K[IDs.index(j)], kj * K[IDs.index(i)])))
    if both:
        w.canary('canary: achieved K = given K exactly', w.eq(Kach[rIDs.index(both[0])], K[IDs.index(both[0])] + 1.))


# --------------------------------------------------------------------------- mix_and_split: argument forms, receiver among the inlets, second call

def masv_configs(tier):
    quick = tier == 'quick'
    I = lambda kind, pkg='P2', mode='pos+maybe': [kind, pkg, mode]
    fams = [  # (name, [inlets per call], top package, top kind, bottom package, split form, ins form)
        ('split-as-list', [[I('l'), I('g', 'Q2', 'pos')]], 'P2', 'l', 'P2', 'list', 'list'),
        ('split-as-tuple-ins-as-tuple', [[I('l', 'P2', 'pos'), I('l', 'Q2')]], 'P2', 'l', 'P3', 'tuple', 'tuple'),
        ('ins-as-generator', [[I('l', 'P3', 'two-maybe'), I('g', 'Q2', 'maybe')]], 'P3', 'l', 'P3', 'scalar', 'generator'),
        ('bottom-among-inlets', [[I('l', 'P2', 'pos'), I('BOT')]], 'P2', 'l', 'P2', 'vector', 'list'),
        ('bottom-and-top-among-inlets', [[I('TOP'), I('BOT'), I('l', 'Q2', 'pos')]], 'P3', 'l', 'P3', 'scalar', 'list'),
        ('second-call-same-outlets', [[I('l', 'P3', 'pos'), I('g', 'Q2', 'pos')], [I('l', 'Q3', 'pos+maybe')]], 'P3', 'l', 'P3', 'scalar', 'list'),
        ('second-call-same-outlets-vector', [[I('l', 'P2', 'pos')], [I('g', 'Q2', 'pos')]], 'P2', 'l', 'P2', 'vector', 'list'),
        ('recycle-bottom-into-second-call', [[I('l', 'P3', 'pos')], [I('BOT'), I('g', 'Q2', 'pos')]], 'P3', 'l', 'P3', 'scalar', 'list'),
        ('multi-phase-top', [[I('l', 'P3', 'pos'), I('g', 'Q2', 'pos')]], 'P3', 'gl', 'P3', 'scalar', 'list'),
        ('multi-phase-inlet-and-top', [[I('gl', 'P2', 'maybe'), I('l', 'Q2', 'pos')]], 'P2', 'gl', 'P2', 'scalar', 'list'),
    ]
    if not quick:
        fams += [
            ('split-as-list', [[I('l', 'P3', 'two-maybe'), I('g', 'Q2', 'two-maybe')]], 'P3', 'l', 'P3', 'list', 'list'),
            ('split-as-tuple-ins-as-tuple', [[I('l', 'P3', 'two-maybe'), I('l', 'Q3')]], 'P3', 'l', 'Q4', 'tuple', 'tuple'),
            ('split-as-list', [[I('gl', 'P3', 'pos'), I('TOP')]], 'P3', 'gl', 'P3', 'list', 'tuple'),
            ('bottom-among-inlets', [[I('BOT'), I('BOT')]], 'P3', 'l', 'Q3', 'list', 'generator'),      # same chemicals, other order
            ('second-call-same-outlets', [[I('gl', 'P3', 'maybe')], [I('l', 'P3', 'pos'), I('TOP')], [I('BOT')]], 'P3', 'l', 'P3', 'vector', 'list'),
            ('second-call-same-outlets', [[I('l', 'P3', 'pos')], [I('gl', 'P3', 'pos')]], 'P3', 'gl', 'P3', 'scalar', 'list'),
            ('multi-phase-top', [[I('l', 'P3', 'two-maybe'), I('g', 'Q2', 'pos')]], 'P3', 'gl', 'P3', 'vector', 'list'),
        ]
    out = []
    for nm, calls, tpkg, top, bpkg, split, ins in fams:
        desc = ' then '.join('+'.join(f'{k}{p}:{m}' for k, p, m in inl) for inl in calls)
        out.append({'name': f'{nm};in={desc};top={top}{tpkg};bottom={bpkg};split={split};ins={ins}', 'calls': calls, 'tpkg': tpkg, 'top': top,
                    'bpkg': bpkg, 'split': split, 'ins': ins})
    return out


@group('C20/gap_mix_and_split_variants', configs=masv_configs,
       functions=['thermosteam.separations:mix_and_split', 'thermosteam._stream:Stream.mix_from', 'thermosteam._stream:Stream.split_to',
                  'thermosteam._multi_stream:MultiStream.split_to'],
       assumptions=['A-models', 'A-root'])
def mix_and_split_variants(w, cfg):
    """top = split * (sum of inlets), bottom = the rest -- with the split given as a python list / tuple, the inlets as a tuple
    or generator, the bottom outlet (and the top) among the inlets, and again on the same outlets."""
    W.reset_caches()
    th = C._Stubs(w)
    tk = cfg['top']
    top, _ = W.stream_on(w, 'top', th(cfg['tpkg']), KINDS[tk], present=_present(cfg['tpkg'], tk, 'pos+maybe'))
    bottom, _ = W.stream_on(w, 'bot', th(cfg['bpkg']), 'l', present=_present(cfg['bpkg'], 'l', 'pos+maybe'))
    for n, inl in enumerate(cfg['calls']):
        tag = f'call {n + 1}'
        inlets = []
        for m, (k, p, mode) in enumerate(inl):
            if k == 'TOP': inlets.append((top, None))
            elif k == 'BOT': inlets.append((bottom, None))
            else:
                s, _ = W.stream_on(w, f'c{n}i{m}', th(p), KINDS[k], present=_present(p, k, mode))
                inlets.append((s, _state(s)))
        if cfg['split'] == 'scalar':
            x = w.real(f'split{n}', lo=0, hi=1)
            split, xs = x, {cas: x for cas in top.chemicals.CASs}
        else:
            vals = [w.real(f'split{n}.{ID}', lo=0, hi=1) for ID in top.chemicals.IDs]
            xs = dict(zip(top.chemicals.CASs, vals))
            split = {'vector': _arr(w, vals), 'list': list(vals), 'tuple': tuple(vals)}[cfg['split']]
        expected = {c: 0. for c in top.chemicals.CASs}
        for s, _ in inlets:
            for cas, v in _tot(s).items():
                expected[cas] = expected.get(cas, 0.) + v
        streams = [s for s, _ in inlets]
        ins = {'list': streams, 'tuple': tuple(streams), 'generator': (s for s in streams)}[cfg['ins']]
        sep.mix_and_split(ins, top, bottom, split)
        t, b = _tot(top), _tot(bottom)
        for cas in top.chemicals.CASs:
            w.ensure(f'{tag}: top[{cas}] + bottom[{cas}] = sum of inlets', w.eq(t[cas] + b.get(cas, 0.), expected[cas]))
            w.ensure(f'{tag}: top[{cas}] = split * mixed feed', w.eq(t[cas], xs[cas] * expected[cas]))
        for cas in b:
            if cas not in t:
                w.ensure(f'{tag}: bottom[{cas}] = 0 (chemical not in the feed)', w.eq(b[cas], 0.))
        w.ensure(f'{tag}: no negative flows', _nonneg(w, top, bottom))
        w.ensure(f'{tag}: outlets rep_ok', _rep_ok(w, top, bottom))
        for m, (s, st) in enumerate(inlets):
            if st is not None:
                w.ensure(f'{tag}: inlet {m} unchanged (flows, phases, T, P)', _same_state(w, st, s))
        if cfg['split'] != 'scalar':
            w.ensure(f'{tag}: split unchanged', w.all_eq(list(split), vals))
    c0 = top.chemicals.CASs[0]
    w.canary('canary: top + bottom = sum of inlets + 1', w.eq(t[c0] + b.get(c0, 0.), expected[c0] + 1))


# --------------------------------------------------------------------------- chemical_splits: read by name, and used

def csc_configs(tier):
    fams = [('ab', 'P3', 'l', 'g', 'name'), ('mixed', 'P3', 'l', 'l', 'name'), ('ab', 'P2', 'l', 'g', 'use'), ('mixed-multi', 'P2', 'g', 'gl', 'use'),
            ('ab-multi', 'P2', 'l', 'gl', 'name'),
            # both a second stream AND the mixed stream are handed over (the mixture holds more than a + b, e.g. two outlets of a feed split
            # three ways): the mixed flow is the reference (added after seeded change C20_10)
            ('ab+mixed', 'P3', 'l', 'l', 'name'), ('ab+mixed', 'P2', 'l', 'g', 'name')]
    if tier != 'quick':
        fams += [('ab', 'Q4', 'g', 'l', 'name'), ('mixed-multi', 'P3', 'L', 'Ll', 'name'), ('ab', 'P3', 'l', 'l', 'use'), ('mixed', 'P3', 'l', 'g', 'use'),
                 ('ab-multi', 'P3', 'g', 'ls', 'use')]
    return [{'name': f'{how};pkg={p};a={a};other={o};observe={obs}', 'how': how, 'pkg': p, 'a': a, 'o': o, 'obs': obs} for how, p, a, o, obs in fams]


@group('C20/gap_chemical_splits_channels', configs=csc_configs,
       functions=['thermosteam.separations:chemical_splits', 'thermosteam.indexer:ChemicalIndexer.from_data',
                  'thermosteam.indexer:ChemicalIndexer.__getitem__', 'thermosteam._stream:Stream.split_to',
                  'thermosteam._multi_stream:MultiStream.mol'])
def chemical_splits_channels(w, cfg):
    """splits * mixed flow = flow of the first stream -- the splits read BY NAME, and the splits USED: handing them to the
    library's own splitter on the mixed stream gives back the first stream (and the rest)."""
    W.reset_caches()
    pkg, how = cfg['pkg'], cfg['how']
    IDs = PKG[pkg]
    tmo.settings.set_thermo(W.thermo(IDs))
    two = _present(pkg, 'l', 'two-maybe') if cfg['obs'] == 'use' else None
    if how in ('ab', 'ab-multi'):
        a, _ = W.make_stream(w, 'a', IDs, cfg['a'], present=None if two is None else _present(pkg, cfg['a'], 'two-maybe'))
        b, _ = W.make_stream(w, 'b', IDs, KINDS[cfg['o']], present=_present(pkg, cfg['o'], 'maybe' if how == 'ab-multi' else 'two-maybe')
                             if (two is not None or how == 'ab-multi') else None)
        args, kw = (a, b), {}
        ta, tb = _tot(a), _tot(b)
        mixed_t = {c: ta[c] + tb[c] for c in ta}
        a_t = ta
    elif how == 'ab+mixed':
        a, _ = W.make_stream(w, 'a', IDs, cfg['a'])
        b, _ = W.make_stream(w, 'b', IDs, cfg['o'])
        m, _ = W.make_stream(w, 'm', IDs, cfg['o'])
        ta, tb, tm = _tot(a), _tot(b), _tot(m)
        for c in ta: w.assume(w.le(ta[c] + tb[c], tm[c]))    # requires: `a` and `b` are parts of the mixed stream
        args, kw = (a, b), {'mixed': m}
        mixed_t, a_t = tm, ta
    elif how == 'mixed':
        a, _ = W.make_stream(w, 'a', IDs, cfg['a'], present=None if two is None else _present(pkg, cfg['a'], 'two-maybe'))
        m, _ = W.make_stream(w, 'm', IDs, cfg['o'], present=None if two is None else _present(pkg, cfg['o'], 'two-maybe'))
        ta, tm = _tot(a), _tot(m)
        for c in ta: w.assume(w.le(ta[c], tm[c]))            # requires: `a` is part of the mixed stream
        args, kw = (a,), {'mixed': m}
        mixed_t, a_t = tm, ta
    else:
        m, _ = W.make_stream(w, 'm', IDs, KINDS[cfg['o']], present=_present(pkg, cfg['o'], 'two-maybe'))
        a = m[cfg['a']]
        args, kw = (a,), {'mixed': m}
        mixed_t, a_t = _tot(m), _row(m, cfg['a'])
    splits = sep.chemical_splits(*args, **kw)
    CASs = a.chemicals.CASs
    if cfg['obs'] == 'name':
        for ID, c in zip(IDs, CASs):
            w.ensure(f'split read by name [{ID}] * mixed = a', w.eq(splits[ID] * mixed_t[c], a_t[c]))
        many = splits[tuple(IDs[::-1])]
        w.ensure('splits read by a tuple of names (other order) * mixed = a',
                 w.And(len(many) == len(IDs), *[w.eq(x * mixed_t[W.chemical(ID).CAS], a_t[W.chemical(ID).CAS]) for x, ID in zip(many, IDs[::-1])]))
        w.canary('canary: split by name * mixed = a + 1', w.eq(splits[IDs[0]] * mixed_t[CASs[0]], a_t[CASs[0]] + 1))
        return
    # use: mixed stream (all phases together) split by the computed splits
    mix = tmo.Stream(None, thermo=W.thermo(IDs))
    if how in ('ab', 'ab-multi'): mix.mix_from([a, b], energy_balance=False)
    else: mix.mol[:] = m.mol
    s1, _ = W.make_stream(w, 's1', IDs, 'l', present=_present(pkg, 'l', 'pos'))
    s2, _ = W.make_stream(w, 's2', IDs, 'l', present=_present(pkg, 'l', 'pos'))
    mix.split_to(s1, s2, splits.data, energy_balance=False)
    t1, t2 = _tot(s1), _tot(s2)
    for c in CASs:
        w.ensure(f'splitting the mixed stream by the computed splits gives back a [{c}]', w.eq(t1[c], a_t[c]))
        w.ensure(f'... and the rest [{c}]', w.eq(t2[c], mixed_t[c] - a_t[c]))
    w.ensure('no negative flows', _nonneg(w, s1, s2))
    w.canary('canary: split stream = a + 1', w.eq(t1[CASs[0]], a_t[CASs[0]] + 1))


# --------------------------------------------------------------------------- material_balance: least-squares variant, real solver

class _NPProxyLstsq(C._NPProxy):
    """`np` of thermosteam.separations with linalg.solve AND linalg.lstsq replaced by the assumed contract (A-linsolve; on an
    invertible system the least-squares solution is the solution: (x, residuals, rank, singular values))."""
    def __init__(self, base, solve):
        C._NPProxy.__init__(self, base, solve)
        def lstsq(A, b, rcond=None):
            x = solve(A, b)
            return x, base.array([]), len(b), base.ones(len(b))
        self.linalg.lstsq = lstsq


def mbl_configs(tier):
    out = []
    for cfg in C.mb_configs(tier):
        out.append(dict(cfg, name='is_exact=False;' + cfg['name']))
    return out


@group('C20/gap_material_balance_lstsq', configs=mbl_configs,
       functions=['thermosteam.separations:material_balance'], assumptions=['A-linsolve'])
def material_balance_lstsq(w, cfg):
    """balance='flow' with is_exact=False (least squares) on an invertible system: the variable inlets are scaled and
    afterwards inlets - outlets = 0 on the chosen chemicals, exactly as with the exact solver."""
    W.reset_caches()
    IDs = tuple(cfg['IDs'])
    mk = lambda nm, k, p, m: W.make_stream(w, nm, PKG[p], KINDS[k], present=_present(p, k, m))[0]
    var = [mk(f'v{n}', *t) for n, t in enumerate(cfg['var'])]
    cin = [mk(f'ci{n}', *t) for n, t in enumerate(cfg['cin'])]
    cout = [mk(f'co{n}', *t) for n, t in enumerate(cfg['cout'])]
    cas = [W.chemical(i).CAS for i in IDs]
    v0 = [_tot(s) for s in var]
    w.assume(w.ne(C._det([[v0[j][c] for j in range(len(var))] for c in cas]), 0.))
    pre_rows = [[[x for x in _dense(sv)] for _, sv in W.rows_of(s)] for s in var]
    pre_const = [_state(s) for s in cin + cout]
    calls = []
    base_np = sep.__dict__['np']
    with C._rebound(np=_NPProxyLstsq(base_np, C._linsolve_stub(w, calls))):
        sep.material_balance(IDs, var, cin, cout, is_exact=False)
    w.ensure('one linear solve', len(calls) == 1)
    x = calls[0]['x']
    for c, ID in zip(cas, IDs):
        inn = w.total([_tot(s)[c] for s in var + cin])
        out = w.total([_tot(s)[c] for s in cout])
        w.ensure(f'inlets - outlets = 0 for [{ID}]', w.eq(inn - out, 0.))
    for n, s in enumerate(var):
        rows = [[v for v in _dense(sv)] for _, sv in W.rows_of(s)]
        w.ensure(f'variable inlet {n} is scaled by its factor (every chemical, every phase)',
                 w.And(len(rows) == len(pre_rows[n]),
                       *[w.eq(a, x[n] * b) for r, r0 in zip(rows, pre_rows[n]) for a, b in zip(r, r0)]))
    w.ensure('constant inlets and outlets unchanged', w.And(*[_same_state(w, st, s) for st, s in zip(pre_const, cin + cout)]))
    w.canary('canary: variable inlet 0 unchanged', w.eq(_tot(var[0])[cas[0]], v0[0][cas[0]] + 1))


def mbr_configs(tier):
    rng = random.Random(20 + int(os.environ.get('VERIF_SEED', '0')))
    out = [{'name': 'doctest', 'pkg': 'P2', 'IDs': ['Water', 'Ethanol'], 'var': [[1., 0.], [0., 1.]], 'cin': [[100., 0.]],
            'cout': [[200., 2.], [0., 100.]]}]
    n_cases = 12 if tier == 'quick' else 60
    for k in range(n_cases):
        pkg = ['P2', 'P3', 'P4', 'Q4'][k % 4]
        allIDs = PKG[pkg]
        n = 1 + k % min(len(allIDs), 4 if tier != 'quick' else 3)
        IDs = rng.sample(list(allIDs), n)
        while True:
            var = [[round(rng.choice([0., 0., 1.]) * rng.uniform(0.1, 10.), 3) for _ in allIDs] for _ in range(n)]
            A = np.array([[v[allIDs.index(i)] for v in var] for i in IDs])
            if abs(np.linalg.det(A)) > 0.05 * max(1., abs(A).max()) ** n: break
        mk = lambda: [round(rng.choice([0., 1., 1.]) * rng.uniform(0., 50.), 3) for _ in allIDs]
        out.append({'name': f'case{k};pkg={pkg};IDs={"+".join(IDs)}', 'pkg': pkg, 'IDs': IDs, 'var': var,
                    'cin': [mk() for _ in range(k % 3)], 'cout': [mk() for _ in range((k // 3) % 3)]})
    return out


@group('C20/gap_material_balance_real', configs=mbr_configs, mode='B',
       functions=['thermosteam.separations:material_balance'],
       notes='real numpy.linalg.solve; the doctest plus pseudo-random (VERIF_SEED) well-conditioned systems: 1-3 (thorough: 1-4) '
             'variable inlets on 2-4 chemical packages, 0-2 constant inlets and outlets, flows 0..50 kmol/hr')
def material_balance_real(w, cfg):
    W.reset_caches()
    th = W.thermo(PKG[cfg['pkg']])
    allIDs = PKG[cfg['pkg']]
    mk = lambda flows: tmo.Stream(None, thermo=th, **{i: v for i, v in zip(allIDs, flows) if v})
    var, cin, cout = [mk(f) for f in cfg['var']], [mk(f) for f in cfg['cin']], [mk(f) for f in cfg['cout']]
    pre_var = [_dense(s.mol) for s in var]
    pre_const = [_state(s) for s in cin + cout]
    sep.material_balance(tuple(cfg['IDs']), var, cin, cout)
    for ID in cfg['IDs']:
        c = W.chemical(ID).CAS
        inn = w.total([_tot(s)[c] for s in var + cin])
        out = w.total([_tot(s)[c] for s in cout])
        w.ensure(f'inlets - outlets = 0 for [{ID}]', w.eq(inn - out, 0.))
    for n, (s, r0) in enumerate(zip(var, pre_var)):
        r = _dense(s.mol)
        k = max(range(len(r0)), key=lambda i: abs(r0[i]))
        factor = r[k] / r0[k]
        w.ensure(f'variable inlet {n} is scaled (composition kept)', w.And(*[w.eq(a, factor * b) for a, b in zip(r, r0)]))
    w.ensure('constant inlets and outlets unchanged', w.And(*[_same_state(w, st, s) for st, s in zip(pre_const, cin + cout)]))
    c0 = W.chemical(cfg['IDs'][0]).CAS
    w.canary('canary: variable inlet 0 unchanged', w.eq(_tot(var[0])[c0], pre_var[0][allIDs.index(cfg['IDs'][0])] + 1))


# --------------------------------------------------------------------------- mode B: partition on the REAL Rachford-Rice solver, 1..6 chemicals

P6 = ('Water', 'Ethanol', 'Octane', 'Methanol', 'Propanol', 'Butanol')
W.preload([P6])


def prn_configs(tier):
    rng = random.Random(7 + int(os.environ.get('VERIF_SEED', '0')))
    out = []
    per = 24 if tier == 'quick' else 96        # (a run costs milliseconds; 4 per size missed the forced-chemical x one-sided-K combinations)
    for n_eq in range(1, 7):
        for k in range(per):
            n_top = rng.choice([0, 0, 1, 2]) if n_eq <= 4 else (rng.choice([0, 1]) if n_eq == 5 else 0)
            n_bot = rng.choice([0, 0, 1]) if n_eq + n_top < 6 else 0
            ids = rng.sample(list(P6), n_eq + n_top + n_bot)
            IDs, tc, bc = ids[:n_eq], ids[n_eq:n_eq + n_top], ids[n_eq + n_top:]
            style = [0, 1, 1, 2, 1, 3][k % 6]
            if style == 0: K = [round(10 ** rng.uniform(-3, 3), 4) for _ in IDs]            # the whole range 1e-3..1e3
            elif style == 1: K = [round(10 ** rng.uniform(-0.5, 0.5), 4) for _ in IDs]       # around 1: two-phase solutions
            elif style == 2: K = [round(10 ** rng.uniform(-3, -0.01), 4) for _ in IDs]       # all below 1
            else: K = [round(10 ** rng.uniform(0.01, 3), 4) for _ in IDs]                    # all above 1
            feed = {i: round(rng.choice([0., 1., 1., 1.]) * 10 ** rng.uniform(-2, 2), 4) for i in P6}
            if not any(feed[i] for i in ids): feed[ids[0]] = 1.
            out.append({'name': f'N={n_eq};case{k};IDs={"+".join(IDs)};top={"+".join(tc) or None};bottom={"+".join(bc) or None}',
                        'IDs': IDs, 'tc': tc, 'bc': bc, 'K': K, 'feed': feed, 'bc_as_str': bool(bc) and k % 2 == 0})
    return out


@group('C20/gap_partition_real_solver_1to6', configs=prn_configs, mode='B',
       functions=['thermosteam.separations:partition', 'thermosteam.separations:phase_fraction',
                  'thermosteam.equilibrium.binary_phase_fraction:phase_fraction',
                  'thermosteam.equilibrium.binary_phase_fraction:solve_phase_fraction_Rashford_Rice',
                  'thermosteam.equilibrium.binary_phase_fraction:phase_fraction_objective_function',
                  'thermosteam.equilibrium.binary_phase_fraction:compute_phase_fraction_2N',
                  'thermosteam.equilibrium.binary_phase_fraction:as_valid_fraction'],
       notes='real Rachford-Rice solver (flexsolve), 6-chemical package, 1..6 chemicals in equilibrium, 0-2 forced to the top and '
             '0-1 to the bottom, pseudo-random (VERIF_SEED) K in 1e-3..1e3 (whole range / near 1 / all below 1 / all above 1), '
             'feeds 0 or 1e-2..1e2 kmol/hr per chemical; outlets start with 10 kmol/hr of every chemical; 24 (thorough: 96) cases per '
             'number of chemicals; achieved K compared with relative tolerance 1e-6 / (phi (1 - phi))')
def partition_real_solver_1to6(w, cfg):
    W.reset_caches()
    th = W.thermo(P6)
    feed = tmo.Stream(None, thermo=th, **{i: v for i, v in cfg['feed'].items() if v})
    top = tmo.Stream(None, thermo=th, **{i: 10. for i in P6})
    bottom = tmo.Stream(None, thermo=th, **{i: 10. for i in P6})
    f = _tot(feed)
    pre = _state(feed)
    IDs, K = tuple(cfg['IDs']), np.array(cfg['K'])
    tc = tuple(cfg['tc']) or None
    bc = (cfg['bc'][0] if cfg['bc_as_str'] else tuple(cfg['bc'])) or None
    with C._Reports() as rep:
        try:
            phi = sep.partition(feed, top, bottom, IDs, K, top_chemicals=tc, bottom_chemicals=bc)
            phi2 = sep.phase_fraction(feed, IDs, K, top_chemicals=tc, bottom_chemicals=bc)
        except ReferenceError as e:
            # forked numba workers raise spurious ReferenceErrors inside flexsolve now and then; anything else escapes and is
            # a failed obligation (positive K and a feed that holds a chemical of the call: nothing to refuse)
            w.note(skipped=repr(e)[:200])
            return
    t, b = _tot(top), _tot(bottom)
    cas = {i: W.chemical(i).CAS for i in P6}
    both_outlets = (sum(t[cas[i]] for i in list(IDs) + cfg['tc']) > 0. and sum(b[cas[i]] for i in list(IDs) + cfg['bc']) > 0.)
    if 0. < phi < 1. or both_outlets:
        # (second disjunct added after seeded change C20_7: a chemical forced into one outlet makes that outlet non-empty, so a
        # reported phase fraction of exactly 0 or 1 with material in both outlets still has to reproduce K)
        # a solved two-phase split: with mole fractions over the chemicals of the call (equilibrium + forced) the common
        # factor is 1, i.e. y_k / x_k = K_k (the bracketing solver may stop with an error of 5e-7 in phi, which is a relative
        # error of 5e-7 / (phi (1 - phi)) in the ratio of the outlet totals: tolerance 1e-6 / (phi (1 - phi)))
        T_all = w.total([t[cas[i]] for i in list(IDs) + cfg['tc']])
        B_all = w.total([b[cas[i]] for i in list(IDs) + cfg['bc']])
        for i, k in zip(IDs, cfg['K']):
            if (t[cas[i]] > 0. and b[cas[i]] > 0.) or (both_outlets and f[cas[i]] > 0.):
                ka = (t[cas[i]] / T_all) / (b[cas[i]] / B_all) if b[cas[i]] > 0. else float('inf')
                w.ensure(f'achieved K[{i}] = given K (mole fractions over the chemicals of the call)',
                         abs(ka / k - 1.) < 1e-6 / max(phi * (1. - phi), 1e-9), achieved=ka, given=k)
    for ID, c in cas.items():
        w.ensure(f'top[{ID}] + bottom[{ID}] = feed', w.eq(t[c] + b[c], f[c]))
    w.ensure('no negative flows', _nonneg(w, top, bottom))
    w.ensure('no infeasibility reported for positive partition coefficients', rep.n == 0)
    for n, i in enumerate(IDs):
        for m, j in enumerate(IDs):
            if m > n:
                w.ensure(f'K reproduced up to a common factor [{i},{j}]',
                         w.eq(t[cas[i]] * b[cas[j]] * cfg['K'][m], t[cas[j]] * b[cas[i]] * cfg['K'][n]))
    for ID in cfg['tc']:
        w.ensure(f'top chemical [{ID}] entirely in top', w.And(w.eq(t[cas[ID]], f[cas[ID]]), w.eq(b[cas[ID]], 0.)))
    for ID in cfg['bc']:
        w.ensure(f'bottom chemical [{ID}] entirely in bottom', w.And(w.eq(b[cas[ID]], f[cas[ID]]), w.eq(t[cas[ID]], 0.)))
    for ID in P6:
        if ID not in IDs and ID not in cfg['tc'] and ID not in cfg['bc']:
            w.ensure(f'chemical not in equilibrium [{ID}] ends up in top', w.And(w.eq(t[cas[ID]], f[cas[ID]]), w.eq(b[cas[ID]], 0.)))
    w.ensure('phase fraction in [0, 1], the same from phase_fraction and partition',
             w.And(w.ge(phi, 0.), w.le(phi, 1.), w.eq(phi, phi2)))
    w.ensure('feed unchanged (flows, phases, T, P)', _same_state(w, pre, feed))
    w.ensure('K array unchanged', w.all_eq(list(K), cfg['K']))
    w.canary('canary: top + bottom = feed + 1', w.eq(t[cas[IDs[0]]] + b[cas[IDs[0]]], f[cas[IDs[0]]] + 1))
    w.note(phi=phi, top=t, bottom=b)


# --------------------------------------------------------------------------- adjust_moisture_content: histories of the two streams, keyed mass view

def amh_configs(tier):
    quick = tier == 'quick'
    fams = [('views-then-multi', 'P2', None), ('views-then-multi', 'P2', 'Ethanol'), ('multi-then-stream', 'P2', None),
            ('multi-then-stream', 'P2', 'Water'), ('second-call', 'P2', None), ('second-call', 'P2', 'Water')]
    if not quick:
        fams += [('views-then-multi', 'P3', 'Water'), ('multi-then-stream', 'Q3', 'Octane'), ('second-call', 'P3', 'Ethanol'),
                 ('views-then-multi', 'Q3', None)]
    out = []
    for h, pkg, ID in fams:
        for strict in ([None] if quick else [None, False]):
            out.append({'name': f'history={h};pkg={pkg};ID={ID};strict={strict}', 'h': h, 'pkg': pkg, 'ID': ID, 'strict': strict})
    return out


@group('C20/gap_moisture_history', configs=amh_configs,
       functions=['thermosteam.separations:adjust_moisture_content', 'thermosteam._stream:Stream.phases',
                  'thermosteam._multi_stream:MultiStream.phase', 'thermosteam._stream:Stream.imass', 'thermosteam._stream:Stream.F_mass'],
       max_paths=20000)
def moisture_history(w, cfg):
    """adjust_moisture_content on streams with a past: their mass views and totals were read before, their phase
    representation changed afterwards (single <-> multi-phase), or the helper already ran on them with another target.
    Balance closed, requested fraction reached (also when read through the keyed mass view), rest untouched."""
    W.reset_caches()
    cfg = dict(cfg)
    h, pkg, ID = cfg['h'], cfg['pkg'], cfg['ID']
    IDs = PKG[pkg]
    mID = ID or 'Water'
    other = [i for i in IDs if i != mID]
    th = W.thermo(IDs)
    pos = lambda nm: w.real(nm, lo=0, lo_strict=True)
    may = lambda nm: w.real(nm, lo=0)
    if h == 'views-then-multi':
        ret = tmo.Stream(None, thermo=th, **{IDs[0]: 1.5, IDs[-1]: 2.5})
        perm = tmo.Stream(None, thermo=th, **{IDs[0]: 3.5})
        ret.imass[mID], perm.imass[mID], ret.F_mass, perm.F_mass, ret.imol[mID]      # views and totals read once
        ret.phases = ('l', 's'); perm.phases = ('l', 's')
        ret.imol['l', mID] = may('ret.l.m'); ret.imol['l', other[0]] = may('ret.l.o'); ret.imol['s', other[-1]] = pos('ret.s.o')
        perm.imol['l', mID] = may('perm.l.m'); perm.imol['s', other[0]] = may('perm.s.o'); perm.imol['s', mID] = 0.; perm.imol['l', other[0]] = 0.
    elif h == 'multi-then-stream':
        ret = tmo.MultiStream(None, thermo=th, phases=('l', 's'), l=[(IDs[0], 1.5)], s=[(IDs[-1], 2.5)])
        perm = tmo.MultiStream(None, thermo=th, phases=('g', 'l'), l=[(IDs[0], 3.5)])
        ret.imass['l', mID], perm.imass['l', mID], ret.F_mass, ret['l'].F_mass, perm['l'].imass[mID]
        ret.phase = 'l'; perm.phase = 'l'
        ret.imol[mID] = may('ret.l.m'); ret.imol[other[0]] = pos('ret.l.o')
        perm.imol[mID] = may('perm.l.m'); perm.imol[other[-1]] = may('perm.l.o')
        if len(other) > 1: ret.imol[other[-1]] = 0.
    else:
        ret = tmo.Stream(None, thermo=th); perm = tmo.Stream(None, thermo=th)
        ret.imol[mID] = may('ret.l.m'); ret.imol[other[0]] = pos('ret.l.o')
        perm.imol[mID] = pos('perm.l.m'); perm.imol[other[-1]] = may('perm.l.o')
        try:
            sep.adjust_moisture_content(ret, perm, 0.5, ID, False)       # an earlier run with another target (lenient)
        except InfeasibleRegion:
            w.ensure('first call: InfeasibleRegion never raised when not strict', False)
            return
    cfg['_mc'] = mc = w.real('moisture_content', lo=0, hi=0.95, lo_strict=True, hi_strict=True)
    cfg['_pre_ret'], cfg['_pre_perm'] = _tot(ret), _tot(perm)
    pre = {c: cfg['_pre_ret'][c] + cfg['_pre_perm'][c] for c in cfg['_pre_ret']}
    kw = {} if cfg['strict'] is None else {'strict': cfg['strict']}
    done = []
    def call():
        sep.adjust_moisture_content(ret, perm, mc, ID, **kw)
        done.append(1)
    C._moisture_clauses(w, cfg, ret, perm, pre, call)
    if done:
        # the same sentence through the public keyed mass view and total
        MWm = float(ret.chemicals[mID].MW)
        dry = 0.
        mcas = W.chemical(mID).CAS
        for c, v in cfg['_pre_ret'].items():
            if c != mcas: dry = dry + float(dict(zip(ret.chemicals.CASs, ret.chemicals.MW))[c]) * v
        need = dry * mc / (1 - mc) / MWm
        avail = cfg['_pre_ret'][mcas] + cfg['_pre_perm'].get(mcas, 0.)
        w.ensure('requested moisture fraction reached, read by name through the mass view',
                 w.Implies(w.ge(avail, need), w.eq(ret.imass[mID], mc * ret.F_mass)))
        w.ensure('moisture conserved, read by name', w.eq(ret.imol[mID] + perm.imol[mID], pre[mcas]))


# --------------------------------------------------------------------------- phase_fraction on the same feeds / forms

def pfv_configs(tier):
    return [c for c in pv_configs(tier) if not isinstance(c['tc'], str)]      # documented form of top_chemicals: a tuple


@group('C20/gap_phase_fraction_variants', configs=pfv_configs,
       functions=['thermosteam.separations:phase_fraction', 'thermosteam.separations:handle_infeasible_flow_rates'],
       assumptions=['A-phase-fraction-havoc'], l0=True)
def phase_fraction_variants(w, cfg):
    """phase_fraction on a multi-phase feed, a feed without chemicals in equilibrium, one chemical, a guess: same solver
    problem as `partition` (fractions over all phases of the feed), the solved fraction clipped into [0, 1], feed only read."""
    W.reset_caches()
    pkg = cfg['pkg']
    feed = _pv_feed(w, 'feed', pkg, cfg['kind'], cfg['pos'], cfg['maybe'])
    IDs = cfg['IDs']
    K = [w.real(f'K.{i}', lo=1e-3, hi=1e3) for i in IDs]
    Karr = _arr(w, K)
    tc, bc = C._forced(cfg)
    guess = w.real('guess', lo=0, hi=1) if cfg['guess'] else None
    pre = _state(feed)
    calls = []
    with C._rebound(compute_phase_fraction=_phi_stub(w, calls, '')), C._Reports() as rep:
        try:
            phi = sep.phase_fraction(feed, tuple(IDs), Karr, guess, top_chemicals=tc, bottom_chemicals=bc, strict=cfg['strict'])
        except InfeasibleRegion:
            w.ensure('InfeasibleRegion never raised for positive partition coefficients', False)
            return
    p0 = calls[0]['phi']
    w.ensure('returned phase fraction is the solved one clipped into [0, 1]',
             w.And(w.Implies(w.le(p0, 0.), w.eq(phi, 0.)), w.Implies(w.ge(p0, 1.), w.eq(phi, 1.)),
                   w.Implies(w.And(w.gt(p0, 0.), w.lt(p0, 1.)), w.eq(phi, p0))))
    f = _tot(feed)
    cas = _cas(pkg)
    Fa = w.total([f[cas[i]] for i in C._as_list(tc)])
    Fb = w.total([f[cas[i]] for i in C._as_list(bc)])
    F = w.total([f[cas[i]] for i in IDs]) + Fa + Fb
    a = calls[0]
    w.ensure('solver is given z = feed fractions, the K array, and the forced top/bottom fractions',
             w.And(len(calls) == 1, len(a['zs']) == len(IDs), *[w.eq(z * F, f[cas[i]]) for z, i in zip(a['zs'], IDs)],
                   w.all_eq(a['Ks'], K), w.eq(a['za'] * F, Fa), w.eq(a['zb'] * F, Fb)))
    w.ensure('feed unchanged (flows, phases, T, P)', _same_state(w, pre, feed))
    w.ensure('K array unchanged', w.all_eq(list(Karr), K))
    w.ensure('no infeasibility reported', rep.n == 0)
    w.canary('canary: phase fraction = solved + 1', w.eq(phi, p0 + 1))


# --------------------------------------------------------------------------- mix_and_split_with_moisture_content: list split, second call

def masmv_configs(tier):
    quick = tier == 'quick'
    I = lambda kind, pkg='P2', mode='pos+maybe': [kind, pkg, mode]
    fams = [('split-as-list', [[I('l', mode='all-pos')]], 'P2', None, 'list'),
            ('second-call-same-outlets', [[I('l', mode='all-pos')], [I('l', mode='all-pos'), I('l', 'Q2', 'pos')]], 'P2', None, 'scalar'),
            ('permeate-among-inlets', [[I('l', mode='all-pos'), I('BOT')]], 'P2', 'Water', 'scalar')]
    if not quick:
        fams += [('split-as-list', [[I('l', 'P3', 'all-pos'), I('l', 'Q2', 'maybe')]], 'P3', 'Ethanol', 'tuple'),
                 ('second-call-same-outlets', [[I('l', 'P3', 'all-pos')], [I('BOT'), I('l', 'P3', 'all-pos')]], 'P3', None, 'list')]
    out = []
    for nm, calls, pkg, ID, split in fams:
        for strict in [None, False]:
            desc = ' then '.join('+'.join(f'{k}{p}:{m}' for k, p, m in inl) for inl in calls)
            out.append({'name': f'{nm};in={desc};pkg={pkg};ID={ID};split={split};strict={strict}', 'calls': calls, 'pkg': pkg, 'ID': ID,
                        'split': split, 'strict': strict})
    return out


@group('C20/gap_mix_and_split_with_moisture_variants', configs=masmv_configs,
       functions=['thermosteam.separations:mix_and_split_with_moisture_content', 'thermosteam.separations:mix_and_split',
                  'thermosteam.separations:adjust_moisture_content'],
       assumptions=['A-models', 'A-root'], max_paths=20000)
def mix_and_split_with_moisture_variants(w, cfg):
    """Retentate + permeate = sum of inlets, other chemicals follow the split, moisture fraction as requested -- split given as
    a python list (doctest form), the permeate among the inlets, and again on the same outlets."""
    W.reset_caches()
    cfg = dict(cfg)
    th = C._Stubs(w)
    pkg = cfg['pkg']
    ret, _ = W.stream_on(w, 'ret', th(pkg), 'l', present=_present(pkg, 'l', 'pos'))
    perm, _ = W.stream_on(w, 'perm', th(pkg), 'l', present=_present(pkg, 'l', 'pos'))
    last = len(cfg['calls']) - 1
    for n, inl in enumerate(cfg['calls']):
        inlets = []
        for m, (k, p, mode) in enumerate(inl):
            if k == 'BOT': inlets.append(perm)
            elif n < last: inlets.append(tmo.Stream(None, thermo=th(p), **{i: 2. + j for j, i in enumerate(PKG[p])}))
            else: inlets.append(W.stream_on(w, f'c{n}i{m}', th(p), KINDS[k], present=_present(p, k, mode))[0])
        if n < last:
            # earlier run: concrete numbers, lenient, plenty of moisture (its own sentences are checked by the one-call groups)
            sep.mix_and_split_with_moisture_content(inlets, ret, perm, 0.25, 0.5, cfg['ID'], False)
            continue
        frames = [(s, _state(s)) for s in inlets if s is not perm]
        if cfg['split'] == 'scalar':
            x = w.real('split', lo=0, hi=1)
            split, xs = x, {cas: x for cas in ret.chemicals.CASs}
        else:
            vals = [w.real(f'split.{ID}', lo=0, hi=1) for ID in ret.chemicals.IDs]
            xs = dict(zip(ret.chemicals.CASs, vals))
            split = list(vals) if cfg['split'] == 'list' else tuple(vals)
        expected = {c: 0. for c in ret.chemicals.CASs}
        for s in inlets:
            for cas, v in _tot(s).items(): expected[cas] = expected[cas] + v
        cfg['_mc'] = mc = w.real('moisture_content', lo=0, hi=0.95, lo_strict=True, hi_strict=True)
        cfg['_pre_ret'] = {c: xs[c] * expected[c] for c in expected}
        cfg['_pre_perm'] = {c: expected[c] - xs[c] * expected[c] for c in expected}
        kw = {} if cfg['strict'] is None else {'strict': cfg['strict']}
        C._moisture_clauses(w, cfg, ret, perm, expected,
                            lambda: sep.mix_and_split_with_moisture_content(inlets, ret, perm, split, mc, cfg['ID'], **kw))
        for m, (s, st) in enumerate(frames):
            w.ensure(f'inlet {m} unchanged (flows, phases, T, P)', _same_state(w, st, s))
