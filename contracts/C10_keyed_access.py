# -*- coding: utf-8 -*-
"""
C10 — name-keyed flow access equals positional access, independent of lookup history.

Contracts (sidecar) on the real lookup machinery of thermosteam.  Every `ensures` is a sentence of
the property, stated against an oracle that never goes through thermosteam's name tables or caches:

    * the *position* of a chemical is its place in the list the package was built from; its names are
      its ID, its CAS number, the aliases set with `set_alias` and the database names registered at
      compile time (names claimed by two chemicals are nobody's);  a group is the list of positions of
      its members plus its normalised composition;
    * reading with a key returns the entries of the raw sparse dicts (dense image) at those positions,
      group entries summed, a bare chemical key on multi-phase data summed over the phases;
    * writing through a key then reading it back returns what was written, every other entry of the
      dense image is untouched, a scalar written to a group arrives as value * composition;
    * all of it is independent of the history: every lookup is done (i) fresh, (ii) while 101 / 501
      distinct synthetic valid keys are looked up through the same indexer (every one of those lookups
      is checked too, so the step that evicts is checked whatever the cache limits are), (iii) after a
      cross-package mix_from / copy_like / separate_out wrote into the same cache, (iv) after a group
      was re-defined; and after every history the cache-coherence invariant is asserted: every cached
      entry equals what the oracle says a miss must compute.

Values are symbolic (any real, zero or not, per the presence pattern of the configuration); structure
(chemical set, aliases, groups, phases, key, history) is enumerated by `configs(tier)`.
"""
import sys
import itertools
from fractions import Fraction

import numpy as np
import thermosteam as tmo
from thermosteam.exceptions import UndefinedChemicalAlias
from engine.api import group, CheckAbort
from engine.sx import tmo_world as W
from engine.sx.sym import EngineUnsupported, EngineNondeterminism, PathCap, Infeasible

ENGINE_EXC = (EngineUnsupported, EngineNondeterminism, PathCap, Infeasible, CheckAbort)

IX = sys.modules['thermosteam.indexer']

UNIVERSE = ('Water', 'Ethanol', 'Methanol', 'Octane', 'Propane', 'Glycerol', 'AceticAcid', 'Acetone')
for _i in UNIVERSE:
    W.chemical(_i)


def other_package(chems):
    """A cached *other* property package sharing chemicals with `chems` (subset, other order)."""
    chems = tuple(chems)
    if len(chems) == 1:
        return (chems[0], 'Octane') if chems[0] != 'Octane' else ('Water', 'Octane')
    if len(chems) == 2:
        return (chems[1], chems[0])
    return (chems[-1], chems[0], chems[1])


SETS = {n: UNIVERSE[:n] for n in range(1, 9)}
SETS['3r'] = ('Methanol', 'Water', 'Ethanol')
W.preload([other_package(c) for c in SETS.values()])
ORIG_ALIASES = {i: frozenset(W.chemical(i).aliases) for i in UNIVERSE}   # after the compile of preload


# --------------------------------------------------------------------------- configuration of a world

def world_cfg(setname):
    """Chemical set + user aliases + user groups as plain data (JSON-able)."""
    chems = SETS[setname]
    n = len(chems)
    aliases = {}
    for k, ID in enumerate(chems):
        aliases[ID] = [f'a{k}_{ID}'] + ([f'{ID}-bis'] if k % 2 == 0 else [])
    groups = {}
    # G1: the last two chemicals (or the only one), members named by alias / CAS, dyadic composition
    if n == 1:
        groups['G1'] = {'IDs': [chems[0]], 'comp': None, 'wt': False}
    else:
        groups['G1'] = {'IDs': [f'a{n - 1}_{chems[n - 1]}', W.chemical(chems[n - 2]).CAS], 'comp': [0.25, 0.75], 'wt': False}
    if n >= 3:
        # G2: not in position order, default composition
        groups['G2'] = {'IDs': [chems[2], chems[0]], 'comp': None, 'wt': False}
    if n >= 4:
        # G3: composition by weight, three members (overlaps G1 and G2: never used together with them in a write)
        groups['G3'] = {'IDs': [chems[1], chems[3], chems[0]], 'comp': [0.2, 0.3, 0.5], 'wt': True}
    return {'set': str(setname), 'chems': list(chems), 'aliases': aliases, 'groups': groups}


def _seq(x):
    return isinstance(x, (tuple, list))


def _total(xs):
    t = 0.
    for x in xs:
        t = t + x
    return t


class Spec:
    """The oracle: positions, names, groups, classification of keys, meaning of reads and writes."""

    def __init__(self, wc):
        self.IDs = tuple(wc['chems'])
        self.n = len(self.IDs)
        chems = [W.chemical(i) for i in self.IDs]
        self.CASs = tuple(c.CAS for c in chems)
        self.MW = [float(c.MW) for c in chems]
        claimed = {}
        dbs = []
        for k, c in enumerate(chems):
            iu = c.iupac_name
            iu = () if not iu else ((iu,) if isinstance(iu, str) else tuple(iu))
            db = {x for x in (*iu, *ORIG_ALIASES[c.ID], c.common_name, c.formula) if x}
            dbs.append(db)
            for x in db:
                claimed[x] = claimed.get(x, 0) + 1
        self.names = []
        self.pos = {}
        for k, c in enumerate(chems):
            d = {'ID': [c.ID], 'CAS': [c.CAS], 'alias': list(wc['aliases'].get(c.ID, ())),
                 'dbname': sorted(x for x in dbs[k] if claimed[x] == 1 and x not in (c.ID, c.CAS))}
            self.names.append(d)
            for xs in d.values():
                for x in xs:
                    assert self.pos.get(x, k) == k, f'configuration error: name {x} used twice'
                    self.pos[x] = k
        self.groups = {}
        self.comp = {'mol': {}, 'wt': {}}
        for g, d in wc['groups'].items():
            self.define(g, d)

    def define(self, g, d):
        idx = [self.pos[i] for i in d['IDs']]
        c = [1.0] * len(idx) if d['comp'] is None else [float(x) for x in d['comp']]
        if d['wt']:
            cw, cm = c, [x / self.MW[i] for x, i in zip(c, idx)]
        else:
            cw, cm = [x * self.MW[i] for x, i in zip(c, idx)], c
        self.groups[g] = idx
        self.comp['wt'][g] = [x / _total(cw) for x in cw]
        self.comp['mol'][g] = [x / _total(cm) for x in cm]

    def all_names(self, k):
        return [x for xs in self.names[k].values() for x in xs]

    def name(self, k, j=0):
        xs = self.all_names(k)
        return xs[j % len(xs)]

    # ---- classification (what a miss must compute)
    def _one(self, x):
        return list(self.groups[x]) if x in self.groups else self.pos[x]

    def classify(self, key):
        if key is ...:
            return None, None
        if isinstance(key, str):
            return self._one(key), (1 if key in self.groups else 0)
        idx = [self._one(i) for i in key]
        return idx, (2 if any(isinstance(i, list) for i in idx) else 3)

    def positions(self, key):
        if key is ...:
            return list(range(self.n))
        if isinstance(key, str):
            return list(self.groups[key]) if key in self.groups else [self.pos[key]]
        return [p for i in key for p in self.positions(i)]

    # ---- reads
    def read(self, dense, key):
        if key is ...:
            return list(dense)
        if isinstance(key, str):
            if key in self.groups:
                return _total([dense[i] for i in self.groups[key]])
            return dense[self.pos[key]]
        return [self.read(dense, i) for i in key]

    # ---- writes: new dense image
    def _put(self, new, x, v, view, member_values=False):
        if x in self.groups:
            idx = self.groups[x]
            if member_values:
                for i, vi in zip(idx, v): new[i] = vi
            else:
                for i, c in zip(idx, self.comp[view][x]): new[i] = v * c
        else:
            new[self.pos[x]] = v

    def write(self, dense, key, value, view='mol'):
        new = list(dense)
        if key is ...:
            return [value[i] for i in range(self.n)] if _seqlike(value) else [value] * self.n
        if isinstance(key, str):
            self._put(new, key, value, view, member_values=_seqlike(value))
            return new
        for n, x in enumerate(key):
            self._put(new, x, value[n] if _seqlike(value) else value, view)
        return new

    def written(self, key, value, view='mol'):
        """What reading `key` back must return after `[key] = value` ("what was written")."""
        def one(x, v):
            if x in self.groups:
                csum = sum(Fraction(repr(c)) for c in self.comp[view][x])
                return v if csum == 1 else v * csum
            return v
        if key is ...:
            return [value[i] for i in range(self.n)] if _seqlike(value) else [value] * self.n
        if isinstance(key, str):
            if key in self.groups and _seqlike(value):
                return _total(list(value))
            return one(key, value)
        return [one(x, value[n] if _seqlike(value) else value) for n, x in enumerate(key)]


def _seqlike(v):
    return isinstance(v, (list, tuple, np.ndarray))


# --------------------------------------------------------------------------- building the real world

def build(wc):
    """Private compiled chemicals (never a cached package) with the aliases and groups of the configuration."""
    W.reset_caches()
    IX.MaterialIndexer._index_caches.clear()
    chems = [W.chemical(i) for i in wc['chems']]
    for c in chems:          # set_alias adds to the shared Chemical objects; start every path from the same state
        c.aliases.clear(); c.aliases.update(ORIG_ALIASES[c.ID])
    cs = tmo.Chemicals(chems)
    cs.compile()
    th = tmo.Thermo(cs)
    for ID, als in wc['aliases'].items():
        for a in als:
            cs.set_alias(ID, a)
    for g, d in wc['groups'].items():
        cs.define_group(g, d['IDs'], d['comp'], wt=d['wt'])
    return cs, th, Spec(wc)


def new_stream(th, phases):
    if isinstance(phases, str):
        s = tmo.Stream(None, thermo=th, phase=phases)
    else:
        s = tmo.MultiStream(None, phases=tuple(phases), thermo=th)
    return s


def plant(w, s, name, pattern):
    """Symbolic entries.  'pos': every entry stored and > 0 (distinct leaves at every position, so equality with the
    leaf proves the position; sums over phases cannot cancel, so reads do not fork);  'any': stored, non-zero, any sign
    (sums over phases may cancel: one fork per chemical);  'sparse': absent / maybe-zero / positive entries."""
    IDs = s.chemicals.IDs
    maybe_used = False
    for pi, (phase, sv) in enumerate(W.rows_of(s)):
        for k, ID in enumerate(IDs):
            kind = pattern
            if pattern == 'sparse':
                kind = ('zero', 'maybe', 'pos')[(pi + k) % 3]
                if kind == 'maybe':
                    if maybe_used: kind = 'zero'
                    maybe_used = True
            elif pattern == 'empty':
                kind = 'zero'
            if kind == 'zero':
                continue
            if kind == 'pos':
                sv.dct[k] = w.real(f'{name}.{phase}.{ID}', lo=0., lo_strict=True)
            elif kind == 'any':
                sv.dct[k] = w.real(f'{name}.{phase}.{ID}', nonzero=True)
            else:
                v = w.real(f'{name}.{phase}.{ID}', lo=0.)
                if v: sv.dct[k] = v


def dense_rows(s):
    """[(phase, dense image of the raw sparse dict)] — the positional read."""
    return [(p, [sv.dct.get(i, 0.) for i in range(sv.size)]) for p, sv in W.rows_of(s)]


def dense_of(x, n):
    if hasattr(x, 'rows'):
        return [[r.dct.get(i, 0.) for i in range(n)] for r in x.rows]
    return [x.dct.get(i, 0.) for i in range(n)]


def same(w, got, exp):
    """Result of a lookup equals the oracle value (scalar, list, list of lists; sparse results by dense image)."""
    if isinstance(exp, list):
        if hasattr(got, 'rows'):
            got = list(got.rows)
        elif hasattr(got, 'dct'):
            got = [got.dct.get(i, 0.) for i in range(got.size)]
        try:
            n = len(got)
        except TypeError:
            return w.And(False)
        if n != len(exp):
            return w.And(False)
        return w.And(*[same(w, g, e) for g, e in zip(got, exp)])
    if hasattr(got, '__len__') or hasattr(got, 'dct'):
        return w.And(False)
    return w.eq(got, exp)


def accepted(w, do):
    """Run a write; an exception is a failed obligation of the contract (a valid key with a value of a valid shape)."""
    try:
        do()
    except ENGINE_EXC:
        raise
    except Exception as e:
        if 'SymReal' in str(e):          # same failure natively reads 'float'
            e = type(e)(str(e).replace('SymReal', 'float'))
        w.ensure('the write through a valid key is accepted (no exception)', False, exception=f'{type(e).__name__}: {e}')
        w.canary('canary: (write rejected)', False)
        return False
    w.ensure('the write through a valid key is accepted (no exception)', True)
    return True


def stored_nonzero(w, s):
    return W.rep_ok(w, s)


# --------------------------------------------------------------------------- keys

def chem_keys(spec, rich=False):
    """[(label, chemical key)]: every key form of the statement that does not involve a phase."""
    out = []
    for k in range(spec.n):
        for kind, xs in spec.names[k].items():
            for x in xs:
                out.append((kind, x))
    n = spec.n
    tuples = [tuple(spec.IDs), tuple(reversed(spec.CASs)), tuple(spec.name(k, k + 2) for k in range(0, n, 2)),
              (spec.IDs[0],), (spec.IDs[-1], spec.name(0, 3), spec.IDs[-1])]
    if rich:
        for r in range(2, min(n, 3) + 1):
            tuples += list(itertools.permutations(spec.IDs[:4], r))
        tuples += [tuple(spec.name(k, j) for k in range(n)) for j in range(6)]
    seen = set()
    for t in tuples:
        if t in seen: continue
        seen.add(t)
        out.append(('tuple', t))
        out.append(('list', list(t)))
    gs = sorted(spec.groups)
    for g in gs:
        out.append(('group', g))
        out.append(('mixed-tuple', (g,)))
        out.append(('mixed-list', [g]))
        out.append(('mixed-tuple', (spec.IDs[0], g)))
        out.append(('mixed-tuple', (g, spec.name(n - 1, 2), spec.CASs[0])))
        out.append(('mixed-list', [g, spec.name(0, 1)]))
    if len(gs) >= 2:
        out.append(('mixed-tuple', tuple(gs)))
        out.append(('mixed-list', [gs[1], spec.IDs[0], gs[0]]))
    out.append(('ellipsis', ...))
    return out


def synth_chem_keys(spec, N):
    """N distinct valid chemical keys (distinct as cache keys: a list and a tuple of equal content count once)."""
    atoms = sorted(spec.pos) + sorted(spec.groups)
    out = list(atoms)
    L = 1
    while len(out) < N:
        for t in itertools.product(atoms, repeat=L):
            out.append(t if len(out) % 3 else list(t))
            if len(out) >= N: break
        L += 1
    return out[:N]


def phase_row(phases, p):
    """Row of phase letter p: itself, else the other case when that is unambiguous (both cases present: distinct rows)."""
    phases = list(phases)
    if p in phases: return phases.index(p)
    q = p.lower() if p.isupper() else p.upper()
    return phases.index(q)


def phase_letters(phases):
    out = []
    for p in phases:
        out.append(p)
        q = p.lower() if p.isupper() else p.upper()
        if q not in phases: out.append(q)
    return out


class MKey:
    """A key of a multi-phase indexer with its meaning: phase part (None = no phase given, ... or a letter) and
    chemical part (a chemical key, or ROW when only the phase is given)."""
    ROW = 'ROW'

    def __init__(self, label, key, phase, ck):
        self.label, self.key, self.phase, self.ck = label, key, phase, ck


def multi_keys(spec, phases, rich=False):
    out = []
    cks = chem_keys(spec, rich)
    for lab, ck in cks:
        out.append(MKey(lab, ck, None, ck))
    letters = phase_letters(phases)
    for p in letters:
        out.append(MKey('phase', p, p, MKey.ROW))
    # a phase (or the ellipsis) paired with every chemical key form; all names only for the first letter
    for pn, p in enumerate(letters + [...]):
        for lab, ck in cks:
            if pn and lab in ('CAS', 'dbname', 'alias'): continue
            plab = '...' if p is ... else 'phase'
            out.append(MKey(f'({plab}, {lab})', (p, ck), p, ck))
    # list form of the pair
    out.append(MKey('[phase, ID]', [letters[0], spec.IDs[0]], letters[0], spec.IDs[0]))
    out.append(MKey('[phase, list]', [letters[-1], list(spec.IDs)], letters[-1], list(spec.IDs)))
    return out


def synth_multi_keys(spec, phases, N):
    letters = phase_letters(phases)
    out = []
    for i, ck in enumerate(synth_chem_keys(spec, N)):
        p = letters[i % len(letters)]
        form = i % 4
        if form == 0: out.append(MKey('h', ck, None, ck))
        elif form == 1: out.append(MKey('h', (p, ck), p, ck))
        elif form == 2: out.append(MKey('h', (..., ck), ..., ck))
        else: out.append(MKey('h', [p, ck], p, ck))
    return out


def multi_read(spec, rows, mk):
    """Oracle value of a multi-phase lookup from the dense rows [(phase, dense)]."""
    phases = [p for p, _ in rows]
    if mk.phase is None:
        tot = [_total([d[i] for _, d in rows]) for i in range(spec.n)]
        return spec.read(tot, mk.ck)
    sel = rows if mk.phase is ... else [rows[phase_row(phases, mk.phase)]]
    vals = [list(d) if (mk.ck is MKey.ROW or mk.ck is ...) else spec.read(d, mk.ck) for _, d in sel]
    return vals if mk.phase is ... else vals[0]


def multi_classify(spec, phases, key):
    """(index, kind, sum_across_phases) a miss of MaterialIndexer._get_index_data must compute for a cache key."""
    def is_phase(x):
        return x is ... or (isinstance(x, str) and len(x) == 1)
    if key is ... or not (is_phase(key) or (isinstance(key, tuple) and len(key) == 2 and is_phase(key[0]))):
        i, k = spec.classify(key)
        return i, k, True
    if isinstance(key, str):
        return phase_row(phases, key), None, False
    p, ck = key
    i, k = spec.classify(ck)
    return ((None if p is ... else phase_row(phases, p)), i), k, False


# --------------------------------------------------------------------------- cache coherence (representation invariant)

def _eq_index(a, b):
    return type(a) is type(b) and a == b


def chem_cache_incoherent(spec, cs):
    """Entries of CompiledChemicals._index_cache that differ from what a miss must compute."""
    bad = []
    for key, val in list(cs._index_cache.items()):
        try:
            exp = spec.classify(key)
            ok = isinstance(val, tuple) and len(val) == 2 and _eq_index(val[0], exp[0]) and val[1] == exp[1] \
                and type(val[1]) is type(exp[1])
        except Exception:
            ok = False
        if not ok: bad.append((key, val))
    return bad


def multi_cache_incoherent(spec, imol):
    """Entries of the MaterialIndexer cache that differ from what the miss branch computes for the same key (the real
    miss branch, run with both caches temporarily emptied), or whose kind / sum-across-phases flag is not the oracle's.
    (The layout of the index part is the indexer's own business; the reads pin down its meaning.)"""
    bad = []
    cs = imol._chemicals
    saved_m, saved_c = imol._index_cache, cs.__dict__['_index_cache']
    for key, val in list(saved_m.items()):
        imol._index_cache = {}
        cs.__dict__['_index_cache'] = {}
        try:
            fresh = imol._get_index_data(key)
            exp = multi_classify(spec, imol._phases, key)
            ok = (isinstance(val, tuple) and len(val) == 3 and fresh == val and val[1] == exp[1] and bool(val[2]) == exp[2])
        except Exception:
            ok = False
        finally:
            imol._index_cache = saved_m
            cs.__dict__['_index_cache'] = saved_c
        if not ok: bad.append((key, val))
    return bad


def ensure_coherent(w, spec, s, when):
    cs = s.chemicals
    bad = chem_cache_incoherent(spec, cs)
    w.ensure(f'cache coherent {when}: every entry of chemicals._index_cache = what a miss computes', not bad,
             incoherent=str(bad[:3]))
    imol = s._imol
    if hasattr(imol, '_index_cache'):
        bad = multi_cache_incoherent(spec, imol)
        w.ensure(f'cache coherent {when}: every entry of MaterialIndexer._index_cache = what a miss computes', not bad,
                 incoherent=str(bad[:3]))
        w.ensure(f'cache identity {when}: the indexer uses the class-level cache of its (phases, chemicals)',
                 IX.MaterialIndexer._index_caches.get((imol._phases, imol._chemicals)) is imol._index_cache)


# --------------------------------------------------------------------------- lookups and histories

def lookup(w, spec, s, item, multi):
    """Perform one read through the real indexer and compare with the positional read. -> (condition, problem)"""
    rows = dense_rows(s)
    if multi:
        key = item.key
        exp = multi_read(spec, rows, item)
    else:
        key = item
        exp = spec.read(rows[0][1], key)
    try:
        got = s.imol[key]
    except ENGINE_EXC:
        raise
    except Exception as e:
        return False, f'{key!r}: {type(e).__name__}: {e}'
    return same(w, got, exp), None


def check_items(w, spec, s, items, multi, clause, per_label=True):
    """items: [(label, key)] or [MKey]; one clause per key form (label)."""
    by = {}
    for it in items:
        lab = it.label if multi else it[0]
        cond, prob = lookup(w, spec, s, it if multi else it[1], multi)
        d = by.setdefault(lab if per_label else '*', {'conds': [], 'probs': []})
        d['conds'].append(cond)
        if prob: d['probs'].append(prob)
    for lab, d in by.items():
        name = clause.format(lab) if per_label else clause
        w.ensure(name, w.And(*d['conds']), keys=len(d['conds']), exceptions=d['probs'][:3])


HISTORIES_Q = ['fresh', 'h101', 'h501', 'cross-mix', 'cross-copy', 'cross-sep']


def run_history(w, wc, spec, s, history, multi):
    """Bring the caches into the state the configuration asks for.  Every lookup made on the way is checked."""
    if history == 'fresh':
        return
    if history.startswith('h'):
        N = int(history[1:])
        items = (synth_multi_keys(spec, s._imol._phases, N) if multi else [('h', k) for k in synth_chem_keys(spec, N)])
        check_items(w, spec, s, items, multi,
                    f'history: each of the {N} distinct lookups = positional read (no exception)', per_label=False)
        return
    # cross-package traffic through index_overlap writes into the same _index_cache
    o = new_stream(W.thermo(other_package(wc['chems'])), 'l' if history != 'cross-copy' or not multi else ('g', 'l'))
    shared = [c for c in o.chemicals.CASs if c in spec.CASs]
    for p, sv in W.rows_of(o):
        for k, cas in enumerate(o.chemicals.CASs):
            if cas in shared:
                sv.dct[k] = w.real(f'o.{p}.{k}', lo=0., lo_strict=True)
    if history == 'cross-mix':
        s.mix_from([s, o], energy_balance=False)
    elif history == 'cross-copy':
        s._imol.copy_like(o._imol)
    elif history == 'cross-sep':
        s._imol.mix_from([s._imol, o._imol])
        s._imol.separate_out(o._imol)
    else:
        raise ValueError(history)


def cross_keys(wc, spec):
    """The key index_overlap stores for the other package: CAS numbers of the shared chemicals in the other order."""
    o = W.thermo(other_package(wc['chems'])).chemicals
    t = tuple(c for c in o.CASs if c in spec.CASs)
    return [('tuple', t), ('list', list(t)), ('tuple', tuple(reversed(t)))]


# =========================================================================== groups

def _patterns(sname):
    return ('pos', 'sparse', 'any') if len(SETS[sname]) <= 2 else ('pos', 'sparse')


def _sets(tier, quick=(1, 2, 3, 4), thorough=(1, 2, 3, '3r', 4, 5, 6, 8)):
    return list(thorough if tier == 'thorough' else quick)


# ---- names: every name of a chemical resolves to the same single position

def names_configs(tier):
    return [{'name': f'set={s}', 'world': world_cfg(s)} for s in _sets(tier, thorough=(1, 2, 3, '3r', 4, 5, 6, 7, 8))]


@group('C10/names', configs=names_configs,
       functions=['thermosteam._chemicals:CompiledChemicals._compile', 'thermosteam._chemicals:CompiledChemicals.set_alias',
                  'thermosteam._chemicals:CompiledChemicals.define_group', 'thermosteam._chemicals:CompiledChemicals.index',
                  'thermosteam._chemicals:CompiledChemicals.indices', 'thermosteam._chemicals:CompiledChemicals.get_index',
                  'thermosteam._chemicals:CompiledChemicals.get_aliases',
                  'thermosteam._chemicals:CompiledChemicals._get_index_and_kind',
                  'thermosteam.indexer:ChemicalIndexer.__getitem__'])
def names(w, cfg):
    wc = cfg['world']
    cs, th, spec = build(wc)
    s = new_stream(th, 'l')
    plant(w, s, 's', 'pos')
    leaf = dense_rows(s)[0][1]
    n = spec.n
    w.ensure('positions: IDs and CASs are in construction order', cs.IDs == spec.IDs and cs.CASs == spec.CASs and cs.size == n)
    for k in range(n):
        ID = spec.IDs[k]
        nm = spec.all_names(k)
        w.ensure(f'chemical {k}: every name resolves to position {k} (index, indices, get_index, [])',
                 all(cs.index(x) == k and cs.indices([x]) == [k] and cs.get_index(x) == k and cs[x] is cs.tuple[k]
                     and (x in cs) for x in nm), names=nm)
        w.ensure(f'chemical {k}: its names are exactly ID, CAS, set aliases and unambiguous database names',
                 sorted(cs.get_aliases(ID)) == sorted(set(nm)), got=sorted(cs.get_aliases(ID)), want=sorted(set(nm)))
        # symbolic: the entry read by name is the entry planted at position k, for all values of all entries
        w.ensure(f'chemical {k}: reading by any of its names returns the entry at position {k}',
                 w.And(*[same(w, s.imol[x], leaf[k]) for x in nm]))
        w.ensure(f'chemical {k}: classified as a single chemical (kind 0)',
                 all(cs._get_index_and_kind(x) == (k, 0) for x in nm))
    # an alias claimed by another chemical is rejected and nothing changes; re-setting one's own alias is accepted
    before = (dict(cs._index), {k: id(v) for k, v in cs.__dict__.items() if isinstance(v, tmo.Chemical)})
    rejected = []
    for k in range(n):
        for j in range(n):
            for x in spec.all_names(k):
                if j == k:
                    cs.set_alias(spec.IDs[j], x)
                    continue
                try:
                    cs.set_alias(spec.IDs[j], x)
                    rejected.append((spec.IDs[j], x))
                except ValueError:
                    pass
    after = (dict(cs._index), {k: id(v) for k, v in cs.__dict__.items() if isinstance(v, tmo.Chemical)})
    w.ensure('alias claimed by two chemicals is rejected (ValueError)', not rejected, accepted=rejected[:3])
    w.ensure('rejected / repeated set_alias leaves the name table unchanged', before == after)
    # groups
    for g, idx in spec.groups.items():
        w.ensure(f'group {g}: resolves to the positions of its members in definition order',
                 cs.get_index(g) == idx and cs._get_index_and_kind(g) == (idx, 1)
                 and cs.chemical_group_members(g) == [spec.IDs[i] for i in idx] and g in cs.chemical_groups)
        w.ensure(f'group {g}: stored compositions are the normalised molar / weight compositions',
                 w.And(same(w, cs._group_mol_compositions[g], spec.comp['mol'][g]),
                       same(w, cs._group_wt_compositions[g], spec.comp['wt'][g])))
    bad = []
    for args in [('Gx', [spec.IDs[0]], [0.5, 0.5]), ('Gy', [next(iter(spec.groups))])]:
        tbl = dict(cs._index)
        try:
            cs.define_group(*args)
            bad.append(args)
        except ValueError:
            if dict(cs._index) != tbl: bad.append(('table changed', args))
    w.ensure('define_group rejects a composition of the wrong length and a group of groups, unchanged', not bad, bad=bad)
    # classification of every key form, miss then hit
    keys = chem_keys(spec, rich=True)
    wrong = []
    for rnd in (0, 1):
        for lab, key in keys:
            got = cs._get_index_and_kind(key)
            exp = spec.classify(key)
            if not (_eq_index(got[0], exp[0]) and got[1] == exp[1]): wrong.append((rnd, key, got, exp))
    w.ensure('every key form is classified as chemical / group / nested / list / all, on a miss and on a hit', not wrong,
             wrong=wrong[:3])
    ensure_coherent(w, spec, s, 'after the lookups')
    w.canary('canary: name of chemical 0 reads another position', same(w, s.imol[spec.name(0, 1)], leaf[0] + 1))


# ---- reads, single phase

def read_configs(tier):
    out = []
    hs = HISTORIES_Q + (['h1201'] if tier == 'thorough' else [])
    for sname in _sets(tier):
        for pat in _patterns(sname):
            for h in hs:
                if pat != 'pos' and h in ('cross-copy', 'cross-sep') and tier != 'thorough': continue
                out.append({'name': f'set={sname};flows={pat};history={h}', 'world': world_cfg(sname), 'flows': pat,
                            'history': h, 'rich': tier == 'thorough'})
    return out


READ_FUNCS = ['thermosteam.indexer:ChemicalIndexer.__getitem__', 'thermosteam.indexer:get_sparse_chemical_data',
              'thermosteam._chemicals:CompiledChemicals._get_index_and_kind', 'thermosteam.indexer:index_overlap',
              'thermosteam.indexer:ChemicalIndexer.mix_from', 'thermosteam.indexer:ChemicalIndexer.copy_like',
              'thermosteam.indexer:ChemicalIndexer.separate_out']


@group('C10/read_single', configs=read_configs, functions=READ_FUNCS)
def read_single(w, cfg):
    wc = cfg['world']
    cs, th, spec = build(wc)
    s = new_stream(th, 'l')
    plant(w, s, 's', cfg['flows'])
    run_history(w, wc, spec, s, cfg['history'], False)
    ensure_coherent(w, spec, s, 'after the history')
    items = chem_keys(spec, cfg.get('rich', False)) + cross_keys(wc, spec)
    check_items(w, spec, s, items, False, 'read[{}] = positional read (first lookup)')
    check_items(w, spec, s, items, False, 'read[{}] = positional read (repeated lookup)')
    ensure_coherent(w, spec, s, 'after the lookups')
    d = dense_rows(s)[0][1]
    w.ensure('reads leave the flow data untouched and without stored zeros',
             w.And(stored_nonzero(w, s), same(w, s.imol[...], d)))
    w.canary('canary: group read returns one member only', same(w, s.imol['G1'], d[spec.groups['G1'][0]] + 1))


# ---- reads, multi phase

PHASE_SETS_Q = {'gl': ('g', 'l'), 'Ll': ('L', 'l')}
PHASE_SETS_T = {'gl': ('g', 'l'), 'Ll': ('L', 'l'), 'gls': ('g', 'l', 's'), 'LSgls': ('L', 'S', 'g', 'l', 's'), 'l': ('l',)}


def mread_configs(tier):
    out = []
    ps = PHASE_SETS_T if tier == 'thorough' else PHASE_SETS_Q
    hs = HISTORIES_Q + (['h1201'] if tier == 'thorough' else [])
    for sname in _sets(tier):
        for pn, ph in ps.items():
            for pat in _patterns(sname):
                for h in hs:
                    if tier != 'thorough':
                        if pn != 'gl' and h not in ('fresh', 'h501'): continue
                        if pat != 'pos' and h in ('cross-copy', 'cross-sep', 'h101'): continue
                    out.append({'name': f'set={sname};phases={pn};flows={pat};history={h}', 'world': world_cfg(sname),
                                'phases': list(ph), 'flows': pat, 'history': h, 'rich': tier == 'thorough' and len(SETS[sname]) <= 4})
    return out


MREAD_FUNCS = ['thermosteam.indexer:MaterialIndexer.__getitem__', 'thermosteam.indexer:MaterialIndexer._get_index_data',
               'thermosteam.indexer:MaterialIndexer._get_index_and_kind', 'thermosteam.utils.cache:trim_cache',
               'thermosteam._phase:PhaseIndexer.__call__', 'thermosteam._phase:PhaseIndexer.__new__',
               'thermosteam.indexer:get_sparse_chemical_data', 'thermosteam._chemicals:CompiledChemicals._get_index_and_kind',
               'thermosteam.indexer:index_overlap', 'thermosteam.indexer:MaterialIndexer.mix_from',
               'thermosteam.indexer:MaterialIndexer.copy_like', 'thermosteam.indexer:MaterialIndexer.separate_out',
               'thermosteam.indexer:MaterialIndexer._set_cache']


@group('C10/read_multi', configs=mread_configs, functions=MREAD_FUNCS)
def read_multi(w, cfg):
    wc = cfg['world']
    cs, th, spec = build(wc)
    s = new_stream(th, cfg['phases'])
    plant(w, s, 's', cfg['flows'])
    run_history(w, wc, spec, s, cfg['history'], True)
    ensure_coherent(w, spec, s, 'after the history')
    phases = s._imol._phases
    items = multi_keys(spec, phases, cfg.get('rich', False))
    for lab, ck in cross_keys(wc, spec):
        items.append(MKey(lab, ck, None, ck))
        items.append(MKey(f'(phase, {lab})', (phases[0], ck), phases[0], ck))
    check_items(w, spec, s, items, True, 'read[{}] = positional read (first lookup)')
    check_items(w, spec, s, items, True, 'read[{}] = positional read (repeated lookup)')
    ensure_coherent(w, spec, s, 'after the lookups')
    # a second indexer on the same (phases, chemicals) shares the class-level cache: same answers there
    s2 = new_stream(th, phases)              # (the history may have added phases to s)
    plant(w, s2, 's2', 'pos' if spec.n * len(phases) <= 8 else 'empty')
    check_items(w, spec, s2, items[::3], True, 'second indexer sharing the cache: every lookup = positional read', per_label=False)
    w.ensure('reads leave the flow data without stored zeros', stored_nonzero(w, s))
    rows = dense_rows(s)
    w.canary('canary: bare chemical key reads one phase only', same(w, s.imol[spec.IDs[0]], rows[0][1][0] + 1))


# ---- writes, single phase

def write_ops(spec, multi=False):
    """[(label, chemical key, shape)] shape: 'scalar' | 'array' | 'list' | 'members' (array over the members of a group)."""
    n = spec.n
    ops = [('ID', spec.IDs[n - 1], 'scalar'), ('alias', spec.name(0, 2), 'scalar'), ('CAS', spec.CASs[0], 'scalar')]
    t = (spec.IDs[n - 1], spec.name(0, 3)) if n > 1 else (spec.IDs[0],)
    ops += [('tuple', t, 'array'), ('tuple', t, 'scalar'), ('list', list(t), 'list')]
    gs = sorted(spec.groups)
    for g in gs:
        ops.append((f'group {g}', g, 'scalar'))
        ops.append((f'group {g}', g, 'members'))
        outside = [k for k in range(n) if k not in spec.groups[g]]
        if outside:
            mixed = (spec.name(outside[0], 1), g)
            ops.append((f'mixed-tuple {g}', mixed, 'array'))
            ops.append((f'mixed-tuple {g}', mixed, 'scalar'))
            ops.append((f'mixed-list {g}', [g, spec.IDs[outside[-1]]], 'list'))
        else:
            ops.append((f'mixed-tuple {g}', (g,), 'array'))
            ops.append((f'mixed-tuple {g}', (g,), 'scalar'))
    if 'G1' in spec.groups and 'G2' in spec.groups and not set(spec.groups['G1']) & set(spec.groups['G2']):
        ops.append(('mixed-tuple G1+G2', ('G2', 'G1'), 'array'))
    ops += [('ellipsis', ..., 'scalar'), ('ellipsis', ..., 'array')]
    return ops


def make_value(w, spec, key, shape, tag='v'):
    if shape == 'scalar':
        return w.real(tag)
    if shape == 'members':
        m = len(spec.groups[key])
    elif key is ...:
        m = spec.n
    else:
        m = len(key)
    # any real value; in long arrays only the first three may be zero (each maybe-zero value doubles the paths)
    vals = [w.real(f'{tag}{i}', nonzero=(i >= 3)) for i in range(m)]
    if shape == 'list':
        return vals
    return np.array(vals, dtype=object if w.symbolic else float)


def write_configs(tier):
    out = []
    for sname in _sets(tier):
        wc = world_cfg(sname)
        ops = write_ops(Spec(wc))
        for i, (lab, key, shape) in enumerate(ops):
            for view in ('mol', 'mass'):
                if view == 'mass' and not (lab.startswith('group') or lab.startswith('mixed') or lab == 'ID'): continue
                for h in (['fresh', 'h101', 'cross-mix'] if tier == 'thorough' or view == 'mol' else ['fresh']):
                    if tier != 'thorough' and h != 'fresh' and not (lab.startswith('group') or lab in ('tuple', 'ID')): continue
                    out.append({'name': f'set={sname};op={i}:{lab}={shape};view={view};history={h}', 'world': wc,
                                'op': i, 'view': view, 'history': h, 'flows': 'sparse' if i % 2 else 'pos'})
    return out


WRITE_FUNCS = ['thermosteam.indexer:ChemicalIndexer.__setitem__', 'thermosteam.indexer:set_sparse_chemical_data',
               'thermosteam.indexer:reset_sparse_chemical_data', 'thermosteam.indexer:ChemicalIndexer.__getitem__',
               'thermosteam._chemicals:CompiledChemicals._get_index_and_kind', 'thermosteam.indexer:group_mol_compositions',
               'thermosteam.indexer:group_wt_compositions']


@group('C10/write_single', configs=write_configs, functions=WRITE_FUNCS)
def write_single(w, cfg):
    wc = cfg['world']
    cs, th, spec = build(wc)
    s = new_stream(th, 'l')
    plant(w, s, 's', cfg['flows'])
    run_history(w, wc, spec, s, cfg['history'], False)
    lab, key, shape = write_ops(spec)[cfg['op']]
    view = cfg['view']
    value = make_value(w, spec, key, shape)
    before = dense_rows(s)[0][1]                   # molar dense image
    MW = spec.MW
    if view == 'mass':
        before_v = [m * x for m, x in zip(MW, before)]
        indexer = s.imass
    else:
        before_v = before
        indexer = s.imol
    want_v = spec.write(before_v, key, list(value) if _seqlike(value) else value, view={'mol': 'mol', 'mass': 'wt'}[view])
    if not accepted(w, lambda: indexer.__setitem__(key, value)): return
    after = dense_rows(s)[0][1]
    touched = set(spec.positions(key))
    for k in range(spec.n):
        got_v = after[k] * MW[k] if view == 'mass' else after[k]
        if k in touched:
            w.ensure(f'entry {k} (selected by the key) holds the written value (group: value * composition)',
                     w.eq(got_v, want_v[k]))
        else:
            w.ensure(f'entry {k} (not selected by the key) is untouched', w.eq(after[k], before[k]))
    back = indexer[key]
    w.ensure('reading the key back returns what was written',
             same(w, back, spec.written(key, list(value) if _seqlike(value) else value, {'mol': 'mol', 'mass': 'wt'}[view])))
    w.ensure('no stored zeros after the write', stored_nonzero(w, s))
    # every other key form still reads positionally after the write
    check_items(w, spec, s, chem_keys(spec), False, 'after the write: every key form = positional read', per_label=False)
    ensure_coherent(w, spec, s, 'after write and lookups')
    k0 = sorted(touched)[0]
    w.canary('canary: written entry keeps its old value', w.eq(after[k0], before[k0] + 1))


# ---- writes, multi phase

def mwrite_ops(spec, phases):
    """[(label, phase part, chemical key or ROW, shape)]"""
    letters = phase_letters(phases)
    p0 = letters[-1]
    alt = letters[0]
    out = []
    for lab, ck, shape in write_ops(spec):
        out.append((f'(phase, {lab})', p0, ck, shape))
    out.append(('phase', alt, MKey.ROW, 'scalar'))
    out.append(('phase', alt, MKey.ROW, 'array'))
    for lab, ck, shape in write_ops(spec):
        if shape in ('members',): continue
        out.append((f'(..., {lab})', ..., ck, shape))
    out.append(('(..., ID) per phase', ..., spec.IDs[0], 'perphase'))
    return out


def mwrite_configs(tier):
    out = []
    ps = {'gl': ('g', 'l'), 'Ll': ('L', 'l')} if tier != 'thorough' else {'gl': ('g', 'l'), 'Ll': ('L', 'l'), 'gls': ('g', 'l', 's')}
    for sname in _sets(tier, quick=(1, 2, 3, 4), thorough=(1, 2, 3, 4, 6)):
        wc = world_cfg(sname)
        for pn, ph in ps.items():
            ops = mwrite_ops(Spec(wc), ph)
            for i, (lab, p, ck, shape) in enumerate(ops):
                if tier != 'thorough' and pn != 'gl' and i % 3: continue
                for h in (['fresh', 'h501', 'cross-mix'] if tier == 'thorough' and i % 4 == 0 else ['fresh']):
                    out.append({'name': f'set={sname};phases={pn};op={i}:{lab}={shape};history={h}', 'world': wc,
                                'phases': list(ph), 'op': i, 'history': h, 'flows': 'sparse' if i % 2 else 'pos'})
    return out


MWRITE_FUNCS = ['thermosteam.indexer:MaterialIndexer.__setitem__', 'thermosteam.indexer:MaterialIndexer._get_index_data',
                'thermosteam.indexer:MaterialIndexer._get_index_and_kind', 'thermosteam.indexer:set_sparse_chemical_data',
                'thermosteam.indexer:reset_sparse_chemical_data', 'thermosteam.indexer:MaterialIndexer.__getitem__']


@group('C10/write_multi', configs=mwrite_configs, functions=MWRITE_FUNCS)
def write_multi(w, cfg):
    wc = cfg['world']
    cs, th, spec = build(wc)
    s = new_stream(th, cfg['phases'])
    plant(w, s, 's', cfg['flows'])
    run_history(w, wc, spec, s, cfg['history'], True)
    phases = list(s._imol._phases)
    lab, p, ck, shape = mwrite_ops(spec, phases)[cfg['op']]
    before = dense_rows(s)
    rows_sel = list(range(len(phases))) if p is ... else [phase_row(phases, p)]
    if ck is MKey.ROW:
        key = p
        value = make_value(w, spec, ..., shape)
        plain = list(value) if _seqlike(value) else value
        want = {r: spec.write(before[r][1], ..., plain) for r in rows_sel}
        written = spec.written(..., plain)
        touched = set(range(spec.n))
    elif shape == 'perphase':
        key = (p, ck)
        value = make_value(w, spec, tuple(phases), 'array')
        plain = list(value)
        want = {r: spec.write(before[r][1], ck, plain[r]) for r in rows_sel}
        written = plain
        touched = set(spec.positions(ck))
    else:
        key = (p, ck)
        value = make_value(w, spec, ck, shape)
        plain = list(value) if _seqlike(value) else value
        want = {r: spec.write(before[r][1], ck, plain) for r in rows_sel}
        written = spec.written(ck, plain)
        if p is ...: written = [written] * len(phases)
        touched = set(spec.positions(ck))
    if not accepted(w, lambda: s.imol.__setitem__(key, value)): return
    after = dense_rows(s)
    for r, ph in enumerate(phases):
        for k in range(spec.n):
            if r in rows_sel and k in touched:
                w.ensure(f'entry [{ph},{k}] (selected by the key) holds the written value (group: value * composition)',
                         w.eq(after[r][1][k], want[r][k]))
            else:
                w.ensure(f'entry [{ph},{k}] (not selected by the key) is untouched', w.eq(after[r][1][k], before[r][1][k]))
    w.ensure('reading the key back returns what was written', same(w, s.imol[key], written))
    w.ensure('no stored zeros after the write', stored_nonzero(w, s))
    # a chemical key without a phase cannot be written on multi-phase data: rejected, nothing changes
    snap = dense_rows(s)
    try:
        s.imol[spec.IDs[0]] = 1.
        rejected = False
    except IndexError:
        rejected = True
    w.ensure('write without a phase on multi-phase data is rejected (IndexError) and changes nothing',
             w.And(rejected, same(w, [d for _, d in dense_rows(s)], [d for _, d in snap])))
    check_items(w, spec, s, multi_keys(spec, phases)[::2], True, 'after the write: every key form = positional read',
                per_label=False)
    ensure_coherent(w, spec, s, 'after write and lookups')
    r0, k0 = rows_sel[0], sorted(touched)[0]
    w.canary('canary: written entry keeps its old value', w.eq(after[r0][1][k0], before[r0][1][k0] + 1))


# ---- group re-definition between lookups

def redefine_configs(tier):
    out = []
    for sname in _sets(tier, quick=(2, 3, 4), thorough=(2, 3, '3r', 4, 6, 8)):
        for ph in ('l', 'gl'):
            for h in ('fresh', 'h101'):
                out.append({'name': f'set={sname};phases={ph};history={h}', 'world': world_cfg(sname),
                            'phases': 'l' if ph == 'l' else ['g', 'l'], 'history': h})
    return out


@group('C10/redefine_group', configs=redefine_configs,
       functions=['thermosteam._chemicals:CompiledChemicals.define_group',
                  'thermosteam._chemicals:CompiledChemicals._get_index_and_kind',
                  'thermosteam.indexer:MaterialIndexer._get_index_data', 'thermosteam.indexer:ChemicalIndexer.__getitem__',
                  'thermosteam.indexer:MaterialIndexer.__getitem__'])
def redefine_group(w, cfg):
    wc = cfg['world']
    cs, th, spec = build(wc)
    multi = not isinstance(cfg['phases'], str)
    s = new_stream(th, cfg['phases'])
    plant(w, s, 's', 'pos')
    run_history(w, wc, spec, s, cfg['history'], multi)
    phases = s._imol._phases if multi else None
    items = multi_keys(spec, phases) if multi else chem_keys(spec)
    check_items(w, spec, s, items, multi, 'before: every key form = positional read', per_label=False)
    # the user re-defines G1 (other members, other composition) — lookups made before must not matter
    new = {'IDs': [spec.IDs[0], spec.IDs[-1]], 'comp': [0.75, 0.25], 'wt': False}
    cs.define_group('G1', new['IDs'], new['comp'], wt=False)
    spec.define('G1', new)
    check_items(w, spec, s, items, multi, 'after re-defining a group: read[{}] = positional read')
    ensure_coherent(w, spec, s, 'after re-defining a group')
    # a name that did not exist when it was first looked up (the lookup was refused) is then given to a chemical / a group
    k = spec.n - 1
    la, lg = 'LateAlias', 'LateGroup'
    if multi:
        p0 = phases[0]
        probes = [MKey('late alias', la, None, la), MKey('late tuple', (spec.IDs[0], la), None, (spec.IDs[0], la)),
                  MKey('late group', lg, None, lg), MKey('(phase, late alias)', (p0, la), p0, la),
                  MKey('(..., late group)', (..., [lg, la]), ..., [lg, la])]
    else:
        probes = [('late alias', la), ('late tuple', (spec.IDs[0], la)), ('late group', lg), ('late list', [lg, la])]
    not_refused = []
    for it in probes:
        key = it.key if multi else it[1]
        try:
            s.imol[key]
            not_refused.append(repr(key))
        except UndefinedChemicalAlias:
            pass
    w.ensure('a key with an unknown name is refused (UndefinedChemicalAlias)', not not_refused, accepted=not_refused)
    ensure_coherent(w, spec, s, 'after refused lookups')
    cs.set_alias(spec.IDs[k], la)
    spec.pos[la] = k
    spec.names[k]['alias'].append(la)
    late = {'IDs': [spec.IDs[0]], 'comp': None, 'wt': False}
    cs.define_group(lg, late['IDs'], late['comp'], wt=False)
    spec.define(lg, late)
    check_items(w, spec, s, probes, multi, 'after naming: read[{}] = positional read although the same lookup was refused before')
    check_items(w, spec, s, items, multi, 'after naming: every other key form = positional read', per_label=False)
    ensure_coherent(w, spec, s, 'after naming')
    d = dense_rows(s)[0][1]
    w.canary('canary: group read returns one member only', same(w, s.imol[('l', 'G1') if multi else 'G1'], d[0] + 1))


# ---- SplitIndexer (no phases, groups are nested rather than summed; same name resolution and cache)

def split_ops(spec):
    n = spec.n
    ops = [('ID', spec.IDs[n - 1], 'scalar'), ('alias', spec.name(0, 2), 'scalar')]
    t = (spec.IDs[n - 1], spec.name(0, 3)) if n > 1 else (spec.IDs[0],)
    ops += [('tuple', t, 'array'), ('tuple', t, 'scalar'), ('list', list(t), 'list')]
    for g in sorted(spec.groups)[:2]:
        ops += [(f'group {g}', g, 'scalar'), (f'group {g}', g, 'members')]
        outside = [k for k in range(n) if k not in spec.groups[g]]
        if outside:
            mixed = (spec.name(outside[0], 1), g)
            ops += [(f'mixed-tuple {g}', mixed, 'scalar'), (f'mixed-tuple {g}', mixed, 'array'), (f'mixed-tuple {g}', mixed, 'nested')]
    ops += [('ellipsis', ..., 'scalar'), ('ellipsis', ..., 'array')]
    return ops


def split_configs(tier):
    out = []
    for sname in _sets(tier, quick=(1, 3, 4), thorough=(1, 2, 3, 4, 6, 8)):
        wc = world_cfg(sname)
        for i, (lab, key, shape) in enumerate(split_ops(Spec(wc))):
            for h in (('fresh', 'h101') if tier == 'thorough' or lab.startswith('group') else ('fresh',)):
                out.append({'name': f'set={sname};op={i}:{lab}={shape};history={h}', 'world': wc, 'op': i, 'history': h})
    return out


def split_read(spec, dense, key):
    """SplitIndexer semantics: a group reads as the array of its members (documented in define_group)."""
    if key is ...:
        return list(dense)
    if isinstance(key, str):
        return [dense[i] for i in spec.groups[key]] if key in spec.groups else dense[spec.pos[key]]
    return [split_read(spec, dense, x) for x in key]


@group('C10/split_indexer', configs=split_configs,
       functions=['thermosteam.indexer:SplitIndexer.__getitem__', 'thermosteam.indexer:SplitIndexer.__setitem__',
                  'thermosteam._chemicals:CompiledChemicals._get_index_and_kind',
                  'thermosteam.indexer:reset_sparse_chemical_data'])
def split_indexer(w, cfg):
    wc = cfg['world']
    cs, th, spec = build(wc)
    n = spec.n
    sp = IX.SplitIndexer.blank(chemicals=cs)
    for k in range(n):
        if k % 3 != 1:
            sp.data.dct[k] = w.real(f'x{k}', lo=0., hi=1., lo_strict=True)

    def dense():
        return [sp.data.dct.get(i, 0.) for i in range(n)]

    def check_all(clause):
        conds, probs = [], []
        for lab, key in chem_keys(spec):
            try:
                conds.append(same(w, sp[key], split_read(spec, dense(), key)))
            except ENGINE_EXC:
                raise
            except Exception as e:
                conds.append(False); probs.append(f'{key!r}: {type(e).__name__}: {e}')
        w.ensure(clause, w.And(*conds), exceptions=probs[:3])

    if cfg['history'] != 'fresh':
        N = int(cfg['history'][1:])
        conds = []
        for key in synth_chem_keys(spec, N):
            try:
                conds.append(same(w, sp[key], split_read(spec, dense(), key)))
            except ENGINE_EXC:
                raise
            except Exception as e:
                conds.append(False)
        w.ensure(f'history: each of the {N} distinct lookups = positional read (no exception)', w.And(*conds))
    check_all('read: every key form = entries at the positions (groups nested)')
    lab, key, shape = split_ops(spec)[cfg['op']]
    before = dense()
    if shape == 'nested':
        # [value for the chemical, [values for the members of the group]]
        g = key[1]
        inner = [w.real(f'v1_{i}', lo=0., hi=1.) for i in range(len(spec.groups[g]))]
        v0 = w.real('v0', lo=0., hi=1.)
        value = [v0, inner]
        want = list(before); want[spec.pos[key[0]]] = v0
        for i, vi in zip(spec.groups[g], inner): want[i] = vi
    else:
        value = make_value(w, spec, key, shape)
        plain = list(value) if _seqlike(value) else value
        want = list(before)
        if key is ...:
            want = list(plain) if _seqlike(plain) else [plain] * n
        elif isinstance(key, str):
            if key in spec.groups:
                for j, i in enumerate(spec.groups[key]): want[i] = plain[j] if _seqlike(plain) else plain
            else:
                want[spec.pos[key]] = plain
        else:
            for m, x in enumerate(key):
                v = plain[m] if _seqlike(plain) else plain
                for i in (spec.groups[x] if x in spec.groups else [spec.pos[x]]): want[i] = v
    if not accepted(w, lambda: sp.__setitem__(key, value)): return
    after = dense()
    touched = set(spec.positions(key))
    for k in range(n):
        w.ensure(f'entry {k} ' + ('(selected by the key) holds the written value (broadcast over a group)' if k in touched
                                  else '(not selected by the key) is untouched'), w.eq(after[k], want[k]))
    w.ensure('reading the key back returns what was written', same(w, sp[key], split_read(spec, want, key)))
    w.ensure('no stored zeros after the write', w.And(*[w.ne(v, 0.) for v in sp.data.dct.values()]))
    check_all('after the write: every key form = entries at the positions')
    bad = chem_cache_incoherent(spec, cs)
    w.ensure('cache coherent: every entry of chemicals._index_cache = what a miss computes', not bad, incoherent=str(bad[:3]))
    k0 = sorted(touched)[0]
    w.canary('canary: written entry keeps its old value', w.eq(after[k0], before[k0] + 1))
