# -*- coding: utf-8 -*-
"""
C16 — additional bounded group (added after the seeded change C16_2 was missed): activity-coefficient models are cached
per chemical tuple; a model requested for DIFFERENT Chemical objects that carry the same IDs (a user re-defining a custom
chemical with other functional groups, or none) must be built for the chemicals it was asked for.
"""
import numpy as np
import thermosteam as tmo
from thermosteam import equilibrium as eq
from engine.api import group

MODELS = {'UNIFAC': 'UNIFACActivityCoefficients', 'Dortmund': 'DortmundActivityCoefficients'}


def configs(tier):
    out = []
    for model in MODELS:
        for first, second in (('Ethanol', None), (None, 'Hexane'), ('Ethanol', 'Hexane'), ('Hexane', 'Ethanol')):
            for T in ((330.,) if tier == 'quick' else (280., 330., 420.)):
                out.append({'name': f'{model};Solvent:{first}->{second};T={T:g}', 'model': model, 'first': first, 'second': second, 'T': T})
    return out


def _solvent(like):
    if like is None:
        return tmo.Chemical.blank('Solvent')
    return tmo.Chemical(like).copy('Solvent')


@group('C16/B_same_ids_other_chemicals', configs=configs, mode='B',
       functions=['thermosteam.equilibrium.activity_coefficients:GroupActivityCoefficients.__new__',
                  'thermosteam.equilibrium.activity_coefficients:GroupActivityCoefficients.__call__'],
       notes='2 model classes x 4 re-definition histories of a custom chemical `Solvent` (groups of ethanol / hexane / none) x 1 (quick) or 3 (thorough) temperatures; '
             'model built for (Water, Solvent_1, Acetone), then for (Water, Solvent_2, Acetone) with a new Chemical object of the same ID')
def same_ids_other_chemicals(w, cfg):
    Model = getattr(eq, MODELS[cfg['model']])
    Water, Acetone = tmo.Chemical('Water'), tmo.Chemical('Acetone')
    T = cfg['T']
    x = np.array([0.3, 0.5, 0.2])
    s1 = _solvent(cfg['first'])
    m1 = Model([Water, s1, Acetone])
    g1 = np.asarray(m1(x.copy(), T), float)
    s2 = _solvent(cfg['second'])
    m2 = Model([Water, s2, Acetone])
    g2 = np.asarray(m2(x.copy(), T), float)
    w.ensure('the model reports the chemicals it was requested for', tuple(m2.chemicals) == (Water, s2, Acetone))
    # oracle: a model of the same class built on fresh, differently named copies of the same chemicals (cannot hit any cache entry)
    ref_s = tmo.Chemical.blank('SolventRef') if cfg['second'] is None else tmo.Chemical(cfg['second']).copy('SolventRef')
    ref = Model([Water.copy('WaterRef'), ref_s, Acetone.copy('AcetoneRef')])
    gref = np.asarray(ref(x.copy(), T), float)
    for i, nm in enumerate(('Water', 'Solvent', 'Acetone')):
        w.ensure(f'gamma[{nm}] is the value for the chemicals requested now (not for an earlier tuple with the same IDs)', w.eq(g2[i], gref[i]),
                 got=float(g2[i]), expected=float(gref[i]))
    if cfg['second'] is None:
        w.ensure('a chemical without group data gets exactly one', g2[1] == 1.0, got=float(g2[1]))
    # the value of a chemical does not depend on its position
    m3 = Model([Acetone, s2, Water])
    g3 = np.asarray(m3(x[::-1].copy(), T), float)
    w.ensure('value independent of the position in the list', w.all_eq(list(g3[::-1]), list(g2)))
    w.canary('canary', w.eq(g2[0], gref[0] + 1.))
