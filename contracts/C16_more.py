# -*- coding: utf-8 -*-
"""
C16 — additional bounded group (added after the seeded change C16_2 was missed): activity-coefficient models are cached
per chemical tuple; a model requested for DIFFERENT Chemical objects that carry the same IDs (a user re-defining a custom
chemical with other functional groups, or none) must be built for the chemicals it was asked for.
"""
import numpy as np
import thermosteam as tmo
from thermosteam import equilibrium as eq
from engine.api import group

MODELS = {'UNIFAC': 'UNIFACActivityCoefficients', 'Dortmund': 'DortmundActivityCoefficients'}


def configs(tier):
    out = []
    for model in MODELS:
        for first, second in (('Ethanol', None), (None, 'Hexane'), ('Ethanol', 'Hexane'), ('Hexane', 'Ethanol')):
            for T in ((330.,) if tier == 'quick' else (280., 330., 420.)):
                out.append({'name': f'{model};Solvent:{first}->{second};T={T:g}', 'model': model, 'first': first, 'second': second, 'T': T})
    return out


def _solvent(like):
    if like is None:
        return tmo.Chemical.blank('Solvent')
    return tmo.Chemical(like).copy('Solvent')


@group('C16/B_same_ids_other_chemicals', configs=configs, mode='B',
       functions=['thermosteam.equilibrium.activity_coefficients:GroupActivityCoefficients.__new__',
                  'thermosteam.equilibrium.activity_coefficients:GroupActivityCoefficients.__call__'],
       notes='2 model classes x 4 re-definition histories of a custom chemical `Solvent` (groups of ethanol / hexane / none) x 1 (quick) or 3 (thorough) temperatures; '
             'model built for (Water, Solvent_1, Acetone), then for (Water, Solvent_2, Acetone) with a new Chemical object of the same ID')
def same_ids_other_chemicals(w, cfg):
    Model = getattr(eq, MODELS[cfg['model']])
    Water, Acetone = tmo.Chemical('Water'), tmo.Chemical('Acetone')
    T = cfg['T']
    x = np.array([0.3, 0.5, 0.2])
    s1 = _solvent(cfg['first'])
    m1 = Model([Water, s1, Acetone])
    g1 = np.asarray(m1(x.copy(), T), float)
    s2 = _solvent(cfg['second'])
    m2 = Model([Water, s2, Acetone])
    g2 = np.asarray(m2(x.copy(), T), float)
    w.ensure('the model reports the chemicals it was requested for', tuple(m2.chemicals) == (Water, s2, Acetone))
    # oracle: a model of the same class built on fresh, differently named copies of the same chemicals (cannot hit any cache entry)
    ref_s = tmo.Chemical.blank('SolventRef') if cfg['second'] is None else tmo.Chemical(cfg['second']).copy('SolventRef')
    ref = Model([Water.copy('WaterRef'), ref_s, Acetone.copy('AcetoneRef')])
    gref = np.asarray(ref(x.copy(), T), float)
    for i, nm in enumerate(('Water', 'Solvent', 'Acetone')):
        w.ensure(f'gamma[{nm}] is the value for the chemicals requested now (not for an earlier tuple with the same IDs)', w.eq(g2[i], gref[i]),
                 got=float(g2[i]), expected=float(gref[i]))
    if cfg['second'] is None:
        w.ensure('a chemical without group data gets exactly one', g2[1] == 1.0, got=float(g2[1]))
    # the value of a chemical does not depend on its position
    m3 = Model([Acetone, s2, Water])
    g3 = np.asarray(m3(x[::-1].copy(), T), float)
    w.ensure('value independent of the position in the list', w.all_eq(list(g3[::-1]), list(g2)))
    w.canary('canary', w.eq(g2[0], gref[0] + 1.))


# ----------------------------------------------------------------------------------------------------------------------
# Added after the seeded change C16_7 was missed: the pure-chemical limit on chemicals whose OWN functional groups include
# main-group pairs without tabulated interaction parameters (halogenated, sulphur, nitro, ... compounds).  The existing limit
# groups use six data-base chemicals whose group pairs are all tabulated.

SWEEP = ['Halothane', '2,2-Dichloro-1,1,1-trifluoroethane', 'allyl mercaptan', 'Vanillin', 'Chloroform', 'Dichloromethane', 'Carbon tetrachloride',
         'Bromoethane', 'Iodoethane', 'Nitromethane', 'Nitrobenzene', 'Acetonitrile', 'Dimethyl sulfoxide', 'Thiophene', 'Pyridine', 'Furfural',
         'Dimethylformamide', 'Acrylonitrile', 'Chlorobenzene', 'Benzyl chloride', 'Epichlorohydrin', 'Trichloroethylene', 'Vinyl chloride',
         '1,2-Dichloroethane', 'Ethanethiol', 'Dimethyl sulfide', 'Morpholine', 'Aniline', 'Triethylamine', 'Diethylamine', 'Acetic acid',
         'Ethyl acetate', 'Diethyl ether', 'Tetrahydrofuran', '1,4-Dioxane', 'Acetone', 'Phenol', 'Glycerol', 'Ethylene glycol', 'Lactic acid',
         'Methyl methacrylate', 'Styrene', 'Cyclohexane', 'Toluene', '1-Octanol', 'Formic acid', 'Acetaldehyde', 'Carbon disulfide',
         'Chlorodifluoromethane', '1,1,1,2-Tetrafluoroethane', 'Perfluorohexane', 'Trifluoroacetic acid', '2-Chloroethanol', 'N-Methyl-2-pyrrolidone']


def sweep_configs(tier):
    n = 3 if tier == 'quick' else 1          # chemicals per configuration (quick: 18 configurations of 3; thorough: one each, more temperatures)
    out = []
    for k in range(0, len(SWEEP), n):
        for model in MODELS:
            out.append({'name': f'{model};{"+".join(SWEEP[k:k + n])}', 'model': model, 'IDs': SWEEP[k:k + n], 'Ts': [298.15, 420.] if tier == 'quick' else [250., 298.15, 350., 450.]})
    return out


@group('C16/B_limit_pure_sweep', configs=sweep_configs, mode='B',
       functions=['thermosteam.equilibrium.activity_coefficients:GroupActivityCoefficients.__new__',
                  'thermosteam.equilibrium.activity_coefficients:GroupActivityCoefficients.__call__',
                  'thermosteam.equilibrium.activity_coefficients:get_interaction', 'thermosteam.equilibrium.activity_coefficients:group_activity_coefficients'],
       notes='54 data-base chemicals chosen for unusual functional groups (halogen, sulphur, nitro, nitrile, amine, fluorinated ...; those the bundled data base does not know or that '
             'carry no groups for the model are skipped) x UNIFAC and Dortmund, each mixed with Water and Hexane; gamma_i at x_i = 1 and at x_i = 1 - 2e-7 must be 1 within 1e-4, through '
             'the model object and through gamma.f(x, T, *gamma.args)')
def limit_pure_sweep(w, cfg):
    Model = getattr(eq, MODELS[cfg['model']])
    checked = 0
    for ID in cfg['IDs']:
        try:
            chem = tmo.Chemical(ID, cache=False)
        except Exception:
            continue                                   # not in the bundled data base
        chems = [tmo.Chemical('Water'), chem, tmo.Chemical('Hexane')]
        try:
            model = Model(chems)
        except Exception as e:
            w.ensure(f'{ID}: a model can be built for a mixture containing it', False, exception=f'{type(e).__name__}: {e}'); continue
        if not isinstance(model, Model):
            continue                                   # fewer than two chemicals with groups: the ideal model (checked elsewhere)
        for T in cfg['Ts']:
            for i in range(3):
                for eps in (0., 1e-7):
                    x = np.full(3, eps); x[i] = 1. - 2 * eps
                    g = np.asarray(model(x.copy(), T), float)
                    gf = np.asarray(model.f(x.copy(), T, *model.args), float)
                    w.ensure(f'{ID}: gamma of chemical #{i} of (Water, it, Hexane) tends to 1 as its mole fraction tends to 1', abs(g[i] - 1.) < 1e-4,
                             T=T, eps=eps, gamma=float(g[i]))
                    w.ensure(f'{ID}: the functional form gives the same limit', abs(gf[i] - 1.) < 1e-4, T=T, eps=eps, gamma=float(gf[i]))
                    checked += 1
    w.note(evaluations=checked)
    w.ensure('the configuration was run', True)
