# -*- coding: utf-8 -*-
"""
C14 — every derived stream property reflects the current state, never a stale one.

The sentence of the property, used as the `ensures` of every read in every group below:

    value of property p read from stream x  ==  value of p read from a *freshly created*
    stream on the same property package with the same flows, phase(s), T and P

Pure-component models are uninterpreted functions (W.stub_thermo, A-models), so "same
value" is decided for every model; a second package (prefix 'B:') has *different*
uninterpreted models, so a memo that survives a package change is refuted.

Functions under contract (real code from /repo, executed): Stream._get_property,
MultiStream._get_property, reset_cache, every property that goes through them, and every
public mutator of the state (phase, T, P, flows, class, links, package) as frame
obligations: a mutator may not leave the memo in a state from which a later read is stale.

Groups
  C14/get_property   obligation (1): from every reachable memo state (primed at a symbolic state s0
                     with a set of names), after moving to an arbitrary state s1, each property read is fresh;
                     the read changes nothing but the memo.
  C14/mutators       obligation (2): prime, ONE mutator of the public list, [arbitrary T/flow change], read.
  C14/shared         obligation (3): handles that share data (proxy, link_with, flow_proxy, phase views,
                     from_streams): reads through one handle never make a read through another stale.
  C14/history        end-to-end: all interleavings of reads and mutators up to a depth
                     (quick: depth 3 + restricted alphabets to 4; thorough: depth 4 + restricted alphabets to 5/6).

Every read carries the frame "the read changes neither flows, phase(s), T, P nor the package of the stream it
reads, nor of any other stream"; mutators that take another stream as a source must leave it unchanged.
Each configuration has a canary (a read that is off by one) that must be refuted.
"""
import itertools
import thermosteam as tmo
from engine.api import group, CheckAbort
from engine.sx import tmo_world as W

A = ('Water', 'Ethanol')
B = ('Ethanol', 'Water')          # other package: other order and other (prefix 'B:') models
W.preload([A, B])

# public name -> goes through _get_property(name, flow, nophase)
PRIMARY = ('H', 'h', 'S', 'C', 'Cn', 'V', 'kappa', 'mu', 'sigma', 'epsilon', 'Hvap')
DERIVED = ('rho', 'nu', 'alpha', 'Pr', 'Cp', 'F_vol')
ALLP = PRIMARY + DERIVED


class _Prefixed:
    """World view whose uninterpreted functions / leaves carry a prefix (second package = other models)."""
    def __init__(self, w, prefix):
        self._w = w; self._p = prefix
    def fn(self, name, *a, **k): return self._w.fn(self._p + name, *a, **k)
    def real(self, name, *a, **k): return self._w.real(self._p + name, *a, **k)
    def __getattr__(self, n): return getattr(self._w, n)


# --------------------------------------------------------------------------- world + oracle

class X:
    """Everything a history can touch."""
    def __init__(self, w, kind, o_kind=None, n_present='pos+pos'):
        W.reset_caches()
        self.w = w
        self.n = 0
        self.thA = W.stub_thermo(w, A)
        self.thB = None
        phases = KINDS[kind]
        self.s, _ = W.stream_on(w, 's', self.thA, phases, present=_present(phases, n_present))
        self.o = None
        self.o_kind = o_kind or kind
        self.p = None       # proxy of s
        self.fp = None      # flow proxy of s
        self.ms = None      # MultiStream.from_streams([s, o])
        self.data = None    # StreamData
        self.linked = False  # s shares data with o (link_with)
        self.early = False   # the canary of this path sits on the early side path
        self.step = 0

    def leaf(self, base, **kw):
        self.n += 1
        return self.w.real(f'{base}#{self.n}', **kw)

    def other(self):
        if self.o is None:
            phases = KINDS[self.o_kind]
            self.o, _ = W.stream_on(self.w, 'o', self.thA, phases, present=_present(phases, 'pos+pos'))
        return self.o

    def pkgB(self):
        if self.thB is None:
            self.thB = W.stub_thermo(_Prefixed(self.w, 'B:'), B)
        return self.thB


KINDS = {'l': 'l', 'g': 'g', 'gl': ('g', 'l'), 'lL': ('L', 'l'), 'gls': ('g', 'l', 's')}


def _present(phases, mode):
    rows = (phases,) if isinstance(phases, str) else phases
    p = {'default': 'zero'}
    a, b = mode.split('+')
    for n, ph in enumerate(rows):
        if n == 0:
            p[ph, 'Water'] = a; p[ph, 'Ethanol'] = b
        elif n == 1:
            p[ph, 'Ethanol'] = 'pos'
            p[ph, 'Water'] = b if b != 'pos' else 'zero'
    return p


def fresh_of(s):
    """The oracle of the property: a newly created stream on the same package with the same flows, phase(s), T, P."""
    th = s._thermo
    if isinstance(s, tmo.MultiStream):
        f = tmo.MultiStream(None, phases=s.phases, thermo=th)
    else:
        f = tmo.Stream(None, thermo=th, phase=s.phase)
    rows, frows = W.rows_of(s), W.rows_of(f)
    if [p for p, _ in rows] != [p for p, _ in frows]:
        raise RuntimeError('oracle: phases of the fresh stream differ')
    for (ph, sv), (_, fv) in zip(rows, frows):
        for i, v in sv.dct.items():
            fv.dct[i] = v
    tc = s._thermal_condition
    f._thermal_condition._T = tc._T
    f._thermal_condition._P = tc._P
    return f


def state_of(s):
    snap = W.snapshot(s)
    snap['T'] = s._thermal_condition._T
    snap['P'] = s._thermal_condition._P
    snap['thermo'] = id(s._thermo)
    return snap


def same_state(w, a, b):
    if a['thermo'] != b['thermo']:
        return w.And(False)
    return w.And(W.same_snapshot(w, a, b), w.eq(a['T'], b['T']), w.eq(a['P'], b['P']))


def read(x, s, prop, label, frame=()):
    """Read `prop` from stream s; ensure freshness (the property's sentence) and the frame of a read."""
    w = x.w
    pre = state_of(s)
    pre_others = [(n, t, state_of(t)) for n, t in frame]
    val = getattr(s, prop)
    post = state_of(s)
    ref = getattr(fresh_of(s), prop)
    w.ensure(f'{label}: {prop} = value on a fresh stream', w.eq(val, ref), prop=prop)
    w.ensure(f'{label}: read leaves flows/phase/T/P unchanged', same_state(w, pre, post))
    for n, t, st in pre_others:
        w.ensure(f'{label}: read leaves {n} unchanged', same_state(w, st, state_of(t)))
    return val, ref


# --------------------------------------------------------------------------- operations (alphabet of histories)

def _set_flow(x, s, ID, mode='pos'):
    """In-place flow edit through the indexer (changes composition and total)."""
    v = 0. if mode == 'zero' else x.leaf('n', lo=0., lo_strict=(mode == 'pos'))
    if isinstance(s, tmo.MultiStream):
        s.imol[s.phases[-1], ID] = v
    else:
        s.imol[ID] = v


def apply(x, tok):
    """Execute one token of a history on the world x.  Returns False if the token is not applicable."""
    w = x.w; s = x.s
    x.step += 1
    k = x.step
    multi = isinstance(s, tmo.MultiStream)
    op, _, arg = tok.partition(':')
    lab = f'step{k} {tok}'
    if op in READS_OTHER and not x.linked:      # frame: these take the (independent) other stream as a source only
        o = x.other()
        pre_o = state_of(o)
        ok = _apply(x, tok, op, arg, lab, s, multi)
        w.ensure(f'{lab}: source stream unchanged', same_state(w, pre_o, state_of(o)))
        return ok
    return _apply(x, tok, op, arg, lab, s, multi)


READS_OTHER = ('mix', 'mixHo', 'mixo', 'sep', 'copylike', 'copyflow', 'copyTP', 'copyphase')


def _apply(x, tok, op, arg, lab, s, multi):
    w = x.w
    if op == 'r':                       # read on the stream itself
        read(x, s, arg, lab, frame=_frame(x, s))
    elif op == 'pr':                    # read through the proxy
        if x.p is None: return False
        read(x, x.p, arg, lab, frame=_frame(x, x.p))
    elif op == 'or':                    # read on the other (linked) stream
        read(x, x.other(), arg, lab, frame=_frame(x, x.o))
    elif op == 'fpr':
        if x.fp is None: return False
        read(x, x.fp, arg, lab, frame=_frame(x, x.fp))
    elif op == 'vr':                    # read through a phase view  vr:<phase>:<prop>
        if not multi: return False
        ph, _, prop = arg.partition(':')
        if ph not in s.phases: return False
        read(x, s[ph], prop, lab, frame=_frame(x, None))
    elif op == 'T':
        s.T = x.leaf('T', lo=0., lo_strict=True)
    elif op == 'P':
        s.P = x.leaf('P', lo=0., lo_strict=True)
    elif op == 'ph':                    # phase setter (Stream: relabel; MultiStream: collapse to a Stream)
        s.phase = arg
    elif op == 'phs':                   # phases setter (Stream -> MultiStream, or another phase set)
        s.phases = tuple(arg)
    elif op == 'fl':                    # in-place flow edit, composition changes
        _set_flow(x, s, 'Ethanol', arg or 'pos')
    elif op == 'flw':
        _set_flow(x, s, 'Water', arg or 'pos')
    elif op == 'mol':                   # whole-array assignment
        a = x.leaf('n', lo=0., lo_strict=True); b = x.leaf('n', lo=0., lo_strict=True)
        if multi:
            s.imol[s.phases[0]] = [a, b]
        else:
            s.mol = [a, b]
    elif op == 'setflow':
        v = x.leaf('n', lo=0., lo_strict=True)
        if multi: s.set_flow(v, 'kmol/hr', (s.phases[-1], 'Ethanol'))
        else: s.set_flow(v, 'kmol/hr', 'Ethanol')
    elif op == 'sc':                    # only the total flow changes
        s.scale(x.leaf('k', lo=0., lo_strict=True))
    elif op == 'imul':
        s *= x.leaf('k', lo=0., lo_strict=True)
    elif op == 'Fmol':
        s.F_mol = x.leaf('F', lo=0., lo_strict=True)
    elif op == 'empty':
        s.empty()
    elif op == 'mix':                   # mix_from([self, other]) without energy balance
        s.mix_from([s, x.other()], energy_balance=False)
    elif op == 'mixHo':                 # single inlet with energy balance (copy_like branch)
        s.mix_from([x.other()], energy_balance=True)
    elif op == 'mixo':
        s.mix_from([x.other()], energy_balance=False)
    elif op == 'sep':
        s.mix_from([s, x.other()], energy_balance=False)
        s.separate_out(x.o, energy_balance=False)
    elif op == 'copylike':
        s.copy_like(x.other())
    elif op == 'copyflow':
        if multi: s.copy_flow(x.other())
        else: s.copy_flow(x.other())
    elif op == 'copyTP':
        s.copy_thermal_condition(x.other())
    elif op == 'copyphase':
        if multi: return False
        s.copy_phase(x.other())
    elif op == 'link':
        o = x.other()
        if type(o) is not type(s): return False
        s.link_with(o)
        x.linked = True
    elif op == 'unlink':
        s.unlink()
        x.linked = False
    elif op == 'oT':
        x.other().T = x.leaf('T', lo=0., lo_strict=True)
    elif op == 'ofl':
        _set_flow(x, x.other(), 'Ethanol', arg or 'pos')
    elif op == 'oph':
        if isinstance(x.other(), tmo.MultiStream): return False
        x.o.phase = arg
    elif op == 'proxy':
        x.p = s.proxy()
    elif op == 'pT':
        if x.p is None: return False
        x.p.T = x.leaf('T', lo=0., lo_strict=True)
    elif op == 'pfl':
        if x.p is None: return False
        _set_flow(x, x.p, 'Ethanol', arg or 'pos')
    elif op == 'fproxy':
        x.fp = s.flow_proxy()
    elif op == 'fpfl':
        if x.fp is None: return False
        _set_flow(x, x.fp, 'Ethanol', arg or 'pos')
    elif op == 'fromstreams':           # a MultiStream assembled from s and the other stream (shares their rows and T, P)
        o = x.other()
        if multi or isinstance(o, tmo.MultiStream) or o.phase == s.phase: return False
        x.ms = tmo.MultiStream.from_streams([s, o])
        x.linked = True
    elif op == 'mr':
        if x.ms is None: return False
        read(x, x.ms, arg, lab)
    elif op == 'mT':
        if x.ms is None: return False
        x.ms.T = x.leaf('T', lo=0., lo_strict=True)
    elif op == 'mfl':
        if x.ms is None: return False
        x.ms.imol[s.phase, 'Ethanol'] = x.leaf('n', lo=0., lo_strict=True)
    elif op == 'vfl':                   # write through a phase view
        if not multi or arg not in s.phases: return False
        s[arg].imol['Ethanol'] = x.leaf('n', lo=0., lo_strict=True)
    elif op == 'vT':
        if not multi or arg not in s.phases: return False
        s[arg].T = x.leaf('T', lo=0., lo_strict=True)
    elif op == 'thermo':                # property-package change
        if x.p is not None or x.fp is not None: return False
        s._reset_thermo(x.pkgB() if arg == 'B' else x.thA)
    elif op == 'H=':
        s.H = x.leaf('Hspec')
    elif op == 'S=':
        s.S = x.leaf('Sspec')
    elif op == 'getdata':
        x.data = s.get_data()
    elif op == 'setdata':
        if x.data is None: return False
        s.set_data(x.data)
    elif op == 'resetflow':
        if multi: return False
        s.reset_flow(Water=x.leaf('n', lo=0., lo_strict=True), phase=arg or None)
    elif op == 'resetcache':
        s.reset_cache()
    else:
        raise RuntimeError(f'unknown token {tok}')
    return True


def _frame(x, reading):
    """Streams that a read through `reading` must leave unchanged (all other independent handles)."""
    out = []
    for n, t in (('s', x.s), ('o', x.o)):
        if t is not None and t is not reading:
            out.append((n, t))
    return out


def run_history(x, ops):
    for tok in ops:
        if not apply(x, tok):
            raise CheckAbort()


def final_reads(x, props, label='final'):
    """The statement at the end of a history: every property read from every handle is fresh."""
    s = x.s
    for p in props:
        read(x, s, p, f'{label} s')
    if x.p is not None:
        for p in props:
            read(x, x.p, p, f'{label} proxy')
    if x.fp is not None:
        for p in props:
            read(x, x.fp, p, f'{label} flow_proxy')
    if x.o is not None:
        for p in props:
            read(x, x.o, p, f'{label} other')
    if x.ms is not None:
        for p in props:
            read(x, x.ms, p, f'{label} from_streams')


def _canary(x, prop='H'):
    """Deliberately wrong clause at the end of a history (vacuity guard): the value read is off by one.
    Only for single-phase streams; see _early_canary."""
    w = x.w; s = x.s
    if x.early: return
    val = getattr(s, prop)
    if val is None:      # empty stream: per-mole properties are undefined
        w.canary(f'canary: {prop} is off by one', w.eq(val, 1.))
    else:
        w.canary(f'canary: {prop} is off by one', w.eq(val, getattr(fresh_of(s), prop) + 1.))


def _early_canary(x, prop='H', force=False):
    """
    Multi-phase streams: refuting a wrong clause is a model search over the whole path condition, which is
    nonlinear (n_i / sum n) and timed out now and then at the end of long paths on a loaded machine.  The wrong
    clause is therefore put on a side path that ends right after the world is built (the explorer takes both
    sides of the switch; natively the switch is 0 and the history runs).
    """
    w = x.w
    if not (force or isinstance(x.s, tmo.MultiStream)): return
    x.early = True
    if w.real('canary.switch') > 0.:
        val = getattr(x.s, prop)
        w.canary(f'canary: {prop} is off by one', w.eq(val, getattr(fresh_of(x.s), prop) + 1.))
        raise CheckAbort()


# --------------------------------------------------------------------------- (1) _get_property from every reachable memo state

MOVES = {          # how the state s1 differs from the primed state s0
    'same': [], 'T': ['T'], 'P': ['P'], 'TP': ['T', 'P'], 'comp': ['fl'], 'total': ['sc'], 'comp0': ['fl:zero'],
    'phase': ['ph:g'], 'all': ['T', 'P', 'flw', 'fl'], 'toMulti': ['phs:gl'], 'toSingle': ['ph:l'], 'phases': ['phs:gls'],
    'empty': ['empty'],
}


# Note on entropy: the ideal-mixture entropy contains log(x_i); `log` is uninterpreted in the engine (only
# log(a/b) = log a - log b is applied).  A memo *hit* on S after the flows were rescaled compares log(n_i) with
# log(k n_i) - log k terms, which the solver cannot identify (spurious counter-models that do not replay natively).
# S is therefore never *primed* before an operation that changes the flows; it is read at the end of every
# history, and the memo logic under check does not depend on the property name.

def getprop_configs(tier):
    out = []
    kinds = ['l', 'gl'] if tier == 'quick' else ['l', 'g', 'gl', 'lL', 'gls']
    primes = [(), ('H',), ('sigma',), ('V', 'mu')] if tier == 'quick' else \
        [(), ('H',), ('S',), ('Cn',), ('sigma',), ('Hvap',), ('V', 'mu'), ('H', 'sigma'), ('sigma', 'H'), ('kappa', 'epsilon', 'C')]
    for kind in kinds:
        multi = len(kind) > 1
        moves = ['same', 'T', 'P', 'comp', 'total', 'comp0', 'all', 'empty'] + (['toSingle', 'phases'] if multi else ['phase', 'toMulti'])
        small = kind in ('lL', 'gls')        # three phases / two liquids: reduced family (the VCs get large)
        for prime in primes:
            if small and prime not in ((), ('H',), ('sigma',)): continue
            for mv in moves:
                if small and mv not in ('same', 'T', 'comp', 'toSingle', 'phases'): continue
                if not prime and mv != 'same': continue
                if 'S' in prime and mv in ('total', 'all', 'comp'): continue    # see note on entropy below
                if (tier == 'thorough' or mv in ('same', 'all', 'T', 'comp')) and len(prime) <= 1 and not small:
                    firsts = PRIMARY
                else:
                    firsts = ('H', 'sigma', 'V')
                for first in firsts:
                    out.append({'name': f'kind={kind};prime={"+".join(prime) or "none"};move={mv};read={first}',
                                'kind': kind, 'prime': list(prime), 'move': mv, 'first': first, 'derived': False})
    # other presence patterns of the composition dict (an entry appears / may be absent)
    for present in ['pos+zero'] + (['pos+maybe'] if tier == 'thorough' else []):
        for kind in (['l'] if tier == 'quick' else ['l', 'gl']):
            for prime in [('H',), ('sigma',)]:
                for mv in ['same', 'comp', 'all', 'total']:
                    for first in (('H', 'sigma', 'V') if tier == 'quick' else PRIMARY):
                        out.append({'name': f'kind={kind};present={present};prime={"+".join(prime)};move={mv};read={first}', 'kind': kind,
                                    'present': present, 'prime': list(prime), 'move': mv, 'first': first, 'derived': False})
    # the quantities derived from the memoised ones (stateless functions of them and of MW): fewer structures
    for kind in (['l'] if tier == 'quick' else ['l', 'g', 'gl']):
        for prime in [(), ('V',), ('Cn', 'mu', 'kappa')]:
            for mv in (['same', 'T'] if tier == 'quick' else ['same', 'T', 'P', 'phase' if len(kind) == 1 else 'toSingle']):
                if not prime and mv != 'same': continue
                for first in DERIVED:
                    out.append({'name': f'kind={kind};prime={"+".join(prime) or "none"};move={mv};read={first}',
                                'kind': kind, 'prime': list(prime), 'move': mv, 'first': first, 'derived': True})
    return out


@group('C14/get_property', configs=getprop_configs,
       functions=['thermosteam._stream:Stream._get_property', 'thermosteam._multi_stream:MultiStream._get_property',
                  'thermosteam._stream:Stream.reset_cache', 'thermosteam._multi_stream:MultiStream.reset_cache'] +
                 [f'thermosteam._stream:Stream.{p}' for p in ALLP] +
                 [f'thermosteam._multi_stream:MultiStream.{p}' for p in ('H', 'h', 'S')],
       assumptions=['A-models'])
def get_property(w, cfg):
    x = X(w, cfg['kind'], n_present=cfg.get('present', 'pos+pos'))
    _early_canary(x, force=cfg['derived'])       # derived quantities divide by V, MW, ...: same reason
    for p in cfg['prime']:
        read(x, x.s, p, f'prime {p}')
    run_history(x, MOVES[cfg['move']])
    first = cfg['first']
    read(x, x.s, first, 'first')
    # second read of the same property (memo hit) and then every other property from the memo state just established
    read(x, x.s, first, 'again')
    rest = [p for p in (ALLP if cfg['derived'] else PRIMARY) if p != first]
    for p in rest:
        read(x, x.s, p, 'then')
    if cfg['move'] != 'empty':
        _canary(x, 'H')
    elif not x.early:
        w.canary('canary: H is off by one', w.eq(x.s.H, 1.))


# --------------------------------------------------------------------------- (2) every public mutator keeps the memo sound

# name -> (setup tokens before priming, mutator tokens, kinds it applies to)
MUTATORS = {
    'T': ([], ['T'], 'lm'), 'P': ([], ['P'], 'lm'),
    'phase=g': ([], ['ph:g'], 'l'), 'phase=l (collapse)': ([], ['ph:l'], 'm'),
    'phases=gl': ([], ['phs:gl'], 'l'), 'phases=gls': ([], ['phs:gls'], 'm'),
    'imol[ID]=x': ([], ['fl'], 'lm'), 'imol[ID]=0': ([], ['fl:zero'], 'lm'), 'imol[Water]=x': ([], ['flw'], 'lm'),
    'mol=array': ([], ['mol'], 'lm'), 'set_flow': ([], ['setflow'], 'lm'),
    'scale': ([], ['sc'], 'lm'), 'imul': ([], ['imul'], 'lm'), 'F_mol=': ([], ['Fmol'], 'l'), 'empty': ([], ['empty'], 'lm'),
    'mix_from(self+other)': ([], ['mix'], 'l'), 'mix_from(other) energy balance': ([], ['mixHo'], 'lm'),
    'mix_from(other)': ([], ['mixo'], 'lm'), 'separate_out': ([], ['sep'], 'l'),
    'copy_like': ([], ['copylike'], 'lm'), 'copy_flow': ([], ['copyflow'], 'lm'),
    'copy_thermal_condition': ([], ['copyTP'], 'lm'), 'copy_phase': ([], ['copyphase'], 'l'),
    'link_with': ([], ['link'], 'lm'), 'unlink': (['link'], ['unlink'], 'lm'),
    'linked stream T=': (['link'], ['oT'], 'lm'), 'linked stream flow edit': (['link'], ['ofl'], 'lm'),
    'linked stream phase=': (['link'], ['oph:g'], 'l'),
    'link_with then unlink': ([], ['link', 'unlink'], 'lm'),
    'proxy T=': (['proxy'], ['pT'], 'lm'), 'proxy flow edit': (['proxy'], ['pfl'], 'lm'),
    'flow_proxy flow edit': (['fproxy'], ['fpfl'], 'lm'),
    'phase view flow edit': ([], ['vfl:l'], 'm'), 'phase view T=': ([], ['vT:g'], 'm'),
    '_reset_thermo': ([], ['thermo:B'], 'lm'), '_reset_thermo there and back': ([], ['thermo:B', 'thermo:A'], 'lm'),
    'H=': ([], ['H='], 'lm'), 'S=': ([], ['S='], 'l'),
    'set_data(get_data())': (['getdata'], ['T', 'fl', 'setdata'], 'lm'),
    'get_data;phases;set_data': (['getdata'], ['phs:gls', 'setdata'], 'lm'),
    'reset_flow': ([], ['resetflow:g'], 'l'), 'reset_cache': ([], ['resetcache'], 'lm'),
}


def mutator_configs(tier):
    out = []
    kinds = ['l', 'gl'] if tier == 'quick' else ['l', 'g', 'gl']
    primes = [('H',), ('sigma',)]     # more names are primed in C14/get_property; positive-valued models made some VCs here very slow
    afters = {'quick': ['none', 'T'], 'thorough': ['none', 'T', 'fl', 'TP+fl']}[tier]
    for kind in kinds:
        tag = 'm' if len(kind) > 1 else 'l'
        for mname, (pre, mut, where) in MUTATORS.items():
            if tag not in where: continue
            for prime in primes:
                for after in afters:
                    if after != 'none' and prime != ('H',) and (tier == 'quick' or after != 'T'): continue
                    out.append({'name': f'kind={kind};prime={"+".join(prime)};mutator={mname};after={after}',
                                'kind': kind, 'pre': pre, 'prime': list(prime), 'mut': mut,
                                'after': {'none': [], 'T': ['T'], 'fl': ['fl'], 'TP+fl': ['T', 'P', 'fl']}[after]})
    return out


def _final_props(x, prime):
    props = list(prime) + [p for p in PRIMARY if p not in prime]
    return props


@group('C14/mutators', configs=mutator_configs,
       functions=['thermosteam._stream:Stream.T', 'thermosteam._stream:Stream.P', 'thermosteam._stream:Stream.phase',
                  'thermosteam._stream:Stream.phases', 'thermosteam._multi_stream:MultiStream.phases',
                  'thermosteam._multi_stream:MultiStream.phase', 'thermosteam._stream:Stream.scale',
                  'thermosteam._stream:Stream.F_mol', 'thermosteam._stream:Stream.__imul__', 'thermosteam._stream:Stream.empty',
                  'thermosteam._stream:Stream.mix_from', 'thermosteam._stream:Stream.separate_out',
                  'thermosteam._stream:Stream.copy_like', 'thermosteam._multi_stream:MultiStream.copy_like',
                  'thermosteam._stream:Stream.copy_flow', 'thermosteam._multi_stream:MultiStream.copy_flow',
                  'thermosteam._stream:Stream.copy_thermal_condition', 'thermosteam._stream:Stream.copy_phase',
                  'thermosteam._stream:Stream.link_with', 'thermosteam._stream:Stream.unlink',
                  'thermosteam._stream:Stream._reset_thermo', 'thermosteam._stream:Stream.H', 'thermosteam._stream:Stream.S',
                  'thermosteam._multi_stream:MultiStream.H', 'thermosteam._stream:Stream.set_data',
                  'thermosteam._stream:Stream.reset_flow', 'thermosteam._stream:Stream.set_flow',
                  'thermosteam._multi_stream:MultiStream.set_flow', 'thermosteam._multi_stream:MultiStream.__getitem__',
                  'thermosteam._stream:Stream.proxy', 'thermosteam._stream:Stream.flow_proxy',
                  'thermosteam._stream:Stream._get_property', 'thermosteam._multi_stream:MultiStream._get_property'],
       assumptions=['A-models', 'A-root'])
def mutators(w, cfg):
    x = X(w, cfg['kind'])
    _early_canary(x)
    run_history(x, cfg['pre'])
    for p in cfg['prime']:
        read(x, x.s, p, f'prime {p}')
        if x.p is not None:
            read(x, x.p, p, f'prime proxy {p}')
    run_history(x, cfg['mut'])
    run_history(x, cfg['after'])
    final_reads(x, _final_props(x, cfg['prime']))
    _canary(x, cfg['prime'][0])


# --------------------------------------------------------------------------- (3) handles that share data

SHARERS = {
    # name: (constructor token, read-through-other token prefix, mutate-through-other tokens, kinds)
    'proxy': ('proxy', 'pr', ['pT', 'pfl'], 'lm'),
    'link_with': ('link', 'or', ['oT', 'ofl'], 'lm'),
    'flow_proxy': ('fproxy', 'fpr', ['fpfl'], 'lm'),
    'phase view': (None, 'vr:l', ['vfl:l', 'vT:l'], 'm'),
    'from_streams': ('fromstreams', 'mr', ['mT', 'mfl'], 'l'),
}


_READS = ('r', 'pr', 'or', 'fpr', 'vr', 'mr')


def _shared_sequences(share, depth, props, own_muts=('T', 'fl'), other_muts=None):
    ctor, rd, muts, _ = SHARERS[share]
    alphabet = []
    for p in props:
        alphabet += [f'r:{p}', f'{rd}:{p}']
    alphabet += list(own_muts) + list(muts if other_muts is None else other_muts)
    seqs = []
    for d in range(2, depth + 1):
        for seq in itertools.product(alphabet, repeat=d):
            if any(a == b for a, b in zip(seq, seq[1:])): continue
            isread = [t.split(':')[0] in _READS for t in seq]
            if not any(isread) or all(isread): continue
            if isread[-1]: continue          # a history ending in a read adds nothing over the final reads
            if not isread[0]: continue       # mutations before the first read cannot matter
            seqs.append(list(seq))
    return seqs


def _aba(q):
    """read / mutate / read through the other handle / mutate: the shape in which a shared memo goes stale."""
    isread = [t.split(':')[0] in _READS for t in q]
    return (len(q) == 4 and isread == [True, False, True, False] and q[0].startswith('r:') != q[2].startswith('r:')
            and q[1] == q[3] and q[1] in ('T', 'fl'))


def shared_configs(tier):
    out = []
    for kind in ['l', 'gl']:
        tag = 'm' if len(kind) > 1 else 'l'
        for share, (ctor, rd, muts, where) in SHARERS.items():
            if tag not in where: continue
            if tier == 'quick':
                props = ['H']
                if kind == 'l':
                    seqs = _shared_sequences(share, 4, props, other_muts=muts[:1])
                    seqs = [q for q in seqs if len(q) <= 3 or _aba(q)]
                else:
                    if share in ('link_with', 'flow_proxy'): continue
                    seqs = _shared_sequences(share, 4, props, own_muts=('T',), other_muts=muts[:1])
                    seqs = [q for q in seqs if len(q) <= (3 if share == 'phase view' else 2) or _aba(q)]
            else:
                props = ['H', 'sigma'] if kind == 'l' else ['H']
                seqs = _shared_sequences(share, 3, props)
                seqs += [q for q in _shared_sequences(share, 4, ['H']) if len(q) == 4]
                if kind == 'l':
                    seqs += [q for q in _shared_sequences(share, 5, ['H'], own_muts=('T',), other_muts=muts[:1]) if len(q) == 5]
            for when in (['before', 'after-first-read'] if ctor else ['before']):
                for q in seqs:
                    if when != 'before' and (not q[0].startswith('r:') or (tier == 'quick' and len(q) < 3)): continue
                    ops = ([ctor] + q) if when == 'before' else ([q[0], ctor] + q[1:])
                    out.append({'name': f'kind={kind};share={share};ctor={when};ops={",".join(q)}', 'kind': kind, 'ops': [o for o in ops if o],
                                'final': props[0], 'o_kind': 'g' if share == 'from_streams' else kind})
    return out


@group('C14/shared', configs=shared_configs,
       functions=['thermosteam._stream:Stream.proxy', 'thermosteam._stream:Stream.link_with', 'thermosteam._stream:Stream.flow_proxy',
                  'thermosteam._multi_stream:MultiStream.__getitem__', 'thermosteam._multi_stream:MultiStream.from_streams', 'thermosteam._stream:Stream._get_property',
                  'thermosteam._multi_stream:MultiStream._get_property'],
       assumptions=['A-models'])
def shared(w, cfg):
    x = X(w, cfg['kind'], o_kind=cfg['o_kind'])
    _early_canary(x)
    run_history(x, cfg['ops'])
    props = [cfg['final']] + [p for p in ('H', 'sigma', 'V') if p != cfg['final']]
    final_reads(x, props)
    if isinstance(x.s, tmo.MultiStream):
        for ph in x.s.phases:
            for p in props:
                read(x, x.s[ph], p, f'final view {ph}')
    _canary(x, 'H')


# --------------------------------------------------------------------------- end-to-end histories

def _ok_history(seq):
    reads = ('r', 'pr', 'or')
    if any(a == b for a, b in zip(seq, seq[1:])): return False
    kinds = [t.split(':')[0] for t in seq]
    if not any(k in reads for k in kinds): return False          # nothing memoised: trivially fresh
    if kinds[-1] in reads: return False                          # the final reads follow anyway
    for once in ('proxy', 'link', 'thermo', 'phs'):
        if kinds.count(once) > 1: return False
    if 'pr' in kinds and ('proxy' not in kinds or kinds.index('proxy') > kinds.index('pr')): return False
    if 'or' in kinds and ('link' not in kinds or kinds.index('link') > kinds.index('or')): return False
    if 'oT' in kinds and ('link' not in kinds or kinds.index('link') > kinds.index('oT')): return False
    if 'proxy' in kinds and 'thermo' in kinds: return False      # a proxy keeps the old package (no fresh-stream reading of it is defined)
    if 'proxy' in kinds and 'pr' not in kinds: return False
    if 'vfl' in kinds and 'ph' in kinds and kinds.index('ph') < kinds.index('vfl'): return False
    # mutations before the first read cannot matter unless they change structure
    first_read = next(i for i, k in enumerate(kinds) if k in reads)
    if any(k in ('T', 'P', 'fl', 'sc') for k in kinds[:first_read]): return False
    return True


ALPHABET = {
    ('l', 'quick'): ['r:H', 'r:sigma', 'T', 'ph:g', 'fl', 'sc', 'mix', 'link', 'oT', 'proxy', 'pr:H', 'thermo:B'],
    ('gl', 'quick'): ['r:H', 'T', 'fl', 'vfl:l', 'ph:l', 'phs:gls', 'thermo:B'],
    ('l', 'thorough'): ['r:H', 'r:sigma', 'r:V', 'T', 'P', 'ph:g', 'fl', 'sc', 'mix', 'link', 'oT', 'proxy', 'pr:H', 'thermo:B', 'phs:gl'],
    ('gl', 'thorough'): ['r:H', 'r:sigma', 'T', 'P', 'fl', 'sc', 'mix', 'vfl:l', 'ph:l', 'phs:gls', 'proxy', 'pr:H', 'link', 'oT', 'thermo:B'],
}
DEEP = {   # restricted alphabets for the deep histories
    'proxy': ['r:H', 'proxy', 'T', 'pr:H', 'fl'],
    'phase': ['r:H', 'r:sigma', 'ph:g', 'ph:l', 'T'],
    'class': ['r:H', 'phs:gl', 'ph:l', 'fl'],
    'link': ['r:H', 'link', 'oT', 'or:H', 'T'],
}


def history_configs(tier):
    out = []
    seen = set()

    def add(kind, seq, final):
        key = (kind, tuple(seq), final)
        if key in seen: return
        seen.add(key)
        out.append({'name': f'kind={kind};ops={",".join(seq)};final={final}', 'kind': kind, 'ops': list(seq), 'final': final})

    depth = 3 if tier == 'quick' else 4
    for kind in ['l', 'gl']:
        for d in range(2, depth + 1):
            # thorough: the large alphabet to depth 3, the quick alphabet to depth 4
            alpha = ALPHABET[kind, 'quick' if d == 4 else tier]
            for seq in itertools.product(alpha, repeat=d):
                if _ok_history(seq):
                    add(kind, seq, 'H')
                    if 'r:sigma' in seq:
                        add(kind, seq, 'sigma')
    deep = {'quick': 4, 'thorough': 6}[tier]
    for name, alpha in DEEP.items():
        for d in range(4, deep + 1):
            if d == 6 and name == 'phase': continue
            for seq in itertools.product(alpha, repeat=d):
                if _ok_history(seq):
                    add('l', seq, 'H')
    return out


@group('C14/history', configs=history_configs,
       functions=['thermosteam._stream:Stream._get_property', 'thermosteam._multi_stream:MultiStream._get_property',
                  'thermosteam._stream:Stream.reset_cache', 'thermosteam._stream:Stream.proxy', 'thermosteam._stream:Stream.link_with',
                  'thermosteam._stream:Stream._reset_thermo', 'thermosteam._stream:Stream.mix_from', 'thermosteam._stream:Stream.scale',
                  'thermosteam._stream:Stream.phase', 'thermosteam._stream:Stream.phases', 'thermosteam._multi_stream:MultiStream.phase',
                  'thermosteam._multi_stream:MultiStream.phases', 'thermosteam._multi_stream:MultiStream.__getitem__'],
       assumptions=['A-models'])
def history(w, cfg):
    x = X(w, cfg['kind'])
    _early_canary(x)
    run_history(x, cfg['ops'])
    props = [cfg['final']] + [p for p in ('H', 'sigma', 'V', 'S') if p != cfg['final']]
    final_reads(x, props)
    _canary(x, 'H')


# --------------------------------------------------------------------------- added after seeded changes C14_1 / C14_2 were missed

def samechem_configs(tier):
    out = []
    for kind in ('l', 'gl'):
        for prop in ('H', 'S', 'C') + (('mu', 'V') if tier == 'thorough' else ()):
            for view in ('stream', 'phase-view') if kind == 'gl' else ('stream',):
                out.append({'name': f'kind={kind};prop={prop};via={view}', 'kind': kind, 'prop': prop, 'view': view})
    return out


@group('C14/reset_thermo_same_chemicals', configs=samechem_configs,
       functions=['thermosteam._stream:Stream._reset_thermo', 'thermosteam._stream:Stream.reset_cache', 'thermosteam._stream:Stream._get_property',
                  'thermosteam._multi_stream:MultiStream._get_property'],
       assumptions=['A-models: a second Thermo on the SAME compiled Chemicals object whose mixture has other (prefix B:) pure-component models'])
def reset_thermo_same_chemicals(w, cfg):
    """A property-package change that keeps the Chemicals object but swaps the mixture model must not leave a memoised value behind."""
    x = X(w, cfg['kind'])
    s = x.s
    chems = x.thA.chemicals
    # second package: same Chemicals object, different mixture (other uninterpreted models)
    mixB = W.stub_thermo(_Prefixed(w, 'B:'), A).mixture
    thB = tmo.Thermo(chems, mixture=mixB)
    w.ensure('harness: both packages share the Chemicals object', thB.chemicals is chems)
    tgt = s if cfg['view'] == 'stream' else s['l']
    read(x, tgt, cfg['prop'], 'before the package change')
    s._reset_thermo(thB)
    w.ensure('the stream is on the new package', s._thermo is thB)
    tgt2 = s if cfg['view'] == 'stream' else s['l']
    val, ref = read(x, tgt2, cfg['prop'], 'after the package change')
    w.canary('canary: value differs from the fresh stream', w.eq(val, ref + 1.))


def phasemove_configs(tier):
    out = []
    for kind, src, dst in (('gl', 'l', 'g'), ('gl', 'g', 'l'), ('gls', 'l', 's'), ('gls', 'g', 's')):
        for how in ('assign-rows', 'copy_flow'):
            for prop in ('H', 'C') + (('S', 'mu') if tier == 'thorough' else ()):
                out.append({'name': f'kind={kind};{src}->{dst};how={how};prop={prop}', 'kind': kind, 'src': src, 'dst': dst, 'how': how, 'prop': prop})
    return out


@group('C14/move_whole_phase', configs=phasemove_configs,
       functions=['thermosteam._multi_stream:MultiStream._get_property', 'thermosteam._multi_stream:MultiStream.__getitem__',
                  'thermosteam._stream:Stream.copy_flow'])
def move_whole_phase(w, cfg):
    """Moving the entire content of one phase into an EMPTY phase at constant T, P and composition changes only the phase: reads must follow."""
    W.reset_caches()
    th = W.stub_thermo(w, A)
    phases = KINDS[cfg['kind']]
    pres = {'default': 'zero', (cfg['src'], 'Water'): 'pos', (cfg['src'], 'Ethanol'): 'pos'}
    for ph in phases:
        if ph not in (cfg['src'], cfg['dst']):
            pres[ph, 'Ethanol'] = 'pos'
    s, _ = W.stream_on(w, 's', th, phases, present=pres)
    x = X.__new__(X); x.w = w; x.s = s
    read(x, s, cfg['prop'], 'before the move')
    if cfg['how'] == 'assign-rows':
        s.imol[cfg['dst']] = s.imol[cfg['src']]
        s.imol[cfg['src']] = 0
    else:
        s[cfg['dst']].copy_flow(s[cfg['src']], remove=True)
    rows = dict(W.rows_of(s))
    w.ensure('harness: the material is now in the destination phase', bool(rows[cfg['dst']].dct) and not rows[cfg['src']].dct)
    val, ref = read(x, s, cfg['prop'], 'after the move')
    w.canary('canary: value differs from the fresh stream', w.eq(val, ref + 1.))
