# -*- coding: utf-8 -*-
"""
C14 — every derived stream property reflects the current state, never a stale one.

The sentence of the property, used as the `ensures` of every read in every group below:

    value of property p read from stream x  ==  value of p read from a *freshly created*
    stream on the same property package with the same flows, phase(s), T and P

Pure-component models are uninterpreted functions (W.stub_thermo, A-models), so "same
value" is decided for every model; a second package (prefix 'B:') has *different*
uninterpreted models, so a memo that survives a package change is refuted.

Functions under contract (real code from /repo, executed): Stream._get_property,
MultiStream._get_property, reset_cache, every property that goes through them, and every
public mutator of the state (phase, T, P, flows, class, links, package) as frame
obligations: a mutator may not leave the memo in a state from which a later read is stale.

Groups
  C14/get_property   obligation (1): from every reachable memo state (primed at a symbolic state s0
                     with a set of names), after moving to an arbitrary state s1, each property read is fresh;
                     the read changes nothing but the memo.
  C14/mutators       obligation (2): prime, ONE mutator of the public list, [arbitrary T/flow change], read.
  C14/shared         obligation (3): handles that share data (proxy, link_with, flow_proxy, phase views,
                     from_streams): reads through one handle never make a read through another stale.
  C14/history        end-to-end: all interleavings of reads and mutators up to a depth.
"""
import itertools
import thermosteam as tmo
from engine.api import group, CheckAbort
from engine.sx import tmo_world as W

A = ('Water', 'Ethanol')
B = ('Ethanol', 'Water')          # other package: other order and other (prefix 'B:') models
W.preload([A, B])

# public name -> goes through _get_property(name, flow, nophase)
PRIMARY = ('H', 'h', 'S', 'C', 'Cn', 'V', 'kappa', 'mu', 'sigma', 'epsilon', 'Hvap')
DERIVED = ('rho', 'nu', 'alpha', 'Pr', 'Cp', 'F_vol')
NOPHASE = ('sigma', 'epsilon', 'Hvap')
ALLP = PRIMARY + DERIVED


class _Prefixed:
    """World view whose uninterpreted functions / leaves carry a prefix (second package = other models)."""
    def __init__(self, w, prefix):
        self._w = w; self._p = prefix
    def fn(self, name, *a, **k): return self._w.fn(self._p + name, *a, **k)
    def real(self, name, *a, **k): return self._w.real(self._p + name, *a, **k)
    def __getattr__(self, n): return getattr(self._w, n)


# --------------------------------------------------------------------------- world + oracle

class X:
    """Everything a history can touch."""
    def __init__(self, w, kind, o_kind=None, n_present='pos+pos'):
        W.reset_caches()
        self.w = w
        self.n = 0
        self.thA = W.stub_thermo(w, A)
        self.thB = None
        phases = KINDS[kind]
        self.s, _ = W.stream_on(w, 's', self.thA, phases, present=_present(phases, n_present))
        self.o = None
        self.o_kind = o_kind or kind
        self.p = None       # proxy of s
        self.fp = None      # flow proxy of s
        self.data = None    # StreamData
        self.handles = {}   # name -> stream object that must also read fresh at the end
        self.step = 0

    def leaf(self, base, **kw):
        self.n += 1
        return self.w.real(f'{base}#{self.n}', **kw)

    def other(self):
        if self.o is None:
            phases = KINDS[self.o_kind]
            self.o, _ = W.stream_on(self.w, 'o', self.thA, phases, present=_present(phases, 'pos+pos'))
        return self.o

    def pkgB(self):
        if self.thB is None:
            self.thB = W.stub_thermo(_Prefixed(self.w, 'B:'), B)
        return self.thB


KINDS = {'l': 'l', 'g': 'g', 'gl': ('g', 'l'), 'lL': ('L', 'l'), 'gls': ('g', 'l', 's')}


def _present(phases, mode):
    rows = (phases,) if isinstance(phases, str) else phases
    p = {'default': 'zero'}
    a, b = mode.split('+')
    for n, ph in enumerate(rows):
        if n == 0:
            p[ph, 'Water'] = a; p[ph, 'Ethanol'] = b
        elif n == 1:
            p[ph, 'Ethanol'] = 'pos'
            p[ph, 'Water'] = b if b != 'pos' else 'zero'
    return p


def fresh_of(s):
    """The oracle of the property: a newly created stream on the same package with the same flows, phase(s), T, P."""
    th = s._thermo
    if isinstance(s, tmo.MultiStream):
        f = tmo.MultiStream(None, phases=s.phases, thermo=th)
    else:
        f = tmo.Stream(None, thermo=th, phase=s.phase)
    rows, frows = W.rows_of(s), W.rows_of(f)
    if [p for p, _ in rows] != [p for p, _ in frows]:
        raise RuntimeError('oracle: phases of the fresh stream differ')
    for (ph, sv), (_, fv) in zip(rows, frows):
        for i, v in sv.dct.items():
            fv.dct[i] = v
    tc = s._thermal_condition
    f._thermal_condition._T = tc._T
    f._thermal_condition._P = tc._P
    return f


def state_of(s):
    snap = W.snapshot(s)
    snap['T'] = s._thermal_condition._T
    snap['P'] = s._thermal_condition._P
    snap['thermo'] = id(s._thermo)
    return snap


def same_state(w, a, b):
    if a['thermo'] != b['thermo']:
        return w.And(False)
    return w.And(W.same_snapshot(w, a, b), w.eq(a['T'], b['T']), w.eq(a['P'], b['P']))


def read(x, s, prop, label, frame=()):
    """Read `prop` from stream s; ensure freshness (the property's sentence) and the frame of a read."""
    w = x.w
    pre = state_of(s)
    pre_others = [(n, t, state_of(t)) for n, t in frame]
    val = getattr(s, prop)
    post = state_of(s)
    ref = getattr(fresh_of(s), prop)
    w.ensure(f'{label}: {prop} = value on a fresh stream', w.eq(val, ref), prop=prop)
    w.ensure(f'{label}: read leaves flows/phase/T/P unchanged', same_state(w, pre, post))
    for n, t, st in pre_others:
        w.ensure(f'{label}: read leaves {n} unchanged', same_state(w, st, state_of(t)))
    return val, ref


# --------------------------------------------------------------------------- operations (alphabet of histories)

def _set_flow(x, s, ID, mode='pos'):
    """In-place flow edit through the indexer (changes composition and total)."""
    v = 0. if mode == 'zero' else x.leaf('n', lo=0., lo_strict=(mode == 'pos'))
    if isinstance(s, tmo.MultiStream):
        s.imol[s.phases[-1], ID] = v
    else:
        s.imol[ID] = v


def apply(x, tok):
    """Execute one token of a history on the world x.  Returns False if the token is not applicable."""
    w = x.w; s = x.s
    x.step += 1
    k = x.step
    multi = isinstance(s, tmo.MultiStream)
    op, _, arg = tok.partition(':')
    lab = f'step{k} {tok}'
    if op == 'r':                       # read on the stream itself
        read(x, s, arg, lab, frame=_frame(x, s))
    elif op == 'pr':                    # read through the proxy
        if x.p is None: return False
        read(x, x.p, arg, lab, frame=_frame(x, x.p))
    elif op == 'or':                    # read on the other (linked) stream
        read(x, x.other(), arg, lab, frame=_frame(x, x.o))
    elif op == 'fpr':
        if x.fp is None: return False
        read(x, x.fp, arg, lab, frame=_frame(x, x.fp))
    elif op == 'vr':                    # read through a phase view  vr:<phase>:<prop>
        if not multi: return False
        ph, _, prop = arg.partition(':')
        if ph not in s.phases: return False
        read(x, s[ph], prop, lab, frame=_frame(x, None))
    elif op == 'T':
        s.T = x.leaf('T', lo=0., lo_strict=True)
    elif op == 'P':
        s.P = x.leaf('P', lo=0., lo_strict=True)
    elif op == 'ph':                    # phase setter (Stream: relabel; MultiStream: collapse to a Stream)
        s.phase = arg
    elif op == 'phs':                   # phases setter (Stream -> MultiStream, or another phase set)
        s.phases = tuple(arg)
    elif op == 'fl':                    # in-place flow edit, composition changes
        _set_flow(x, s, 'Ethanol', arg or 'pos')
    elif op == 'flw':
        _set_flow(x, s, 'Water', arg or 'pos')
    elif op == 'mol':                   # whole-array assignment
        a = x.leaf('n', lo=0., lo_strict=True); b = x.leaf('n', lo=0., lo_strict=True)
        if multi:
            s.imol[s.phases[0]] = [a, b]
        else:
            s.mol = [a, b]
    elif op == 'setflow':
        v = x.leaf('n', lo=0., lo_strict=True)
        if multi: s.set_flow(v, 'kmol/hr', (s.phases[-1], 'Ethanol'))
        else: s.set_flow(v, 'kmol/hr', 'Ethanol')
    elif op == 'sc':                    # only the total flow changes
        s.scale(x.leaf('k', lo=0., lo_strict=True))
    elif op == 'imul':
        s *= x.leaf('k', lo=0., lo_strict=True)
    elif op == 'Fmol':
        s.F_mol = x.leaf('F', lo=0., lo_strict=True)
    elif op == 'empty':
        s.empty()
    elif op == 'mix':                   # mix_from([self, other]) without energy balance
        s.mix_from([s, x.other()], energy_balance=False)
    elif op == 'mixH':                  # with energy balance (temperature from A-root)
        s.mix_from([s, x.other()], energy_balance=True)
    elif op == 'mixo':
        s.mix_from([x.other()], energy_balance=False)
    elif op == 'sep':
        s.mix_from([s, x.other()], energy_balance=False)
        s.separate_out(x.o, energy_balance=False)
    elif op == 'copylike':
        s.copy_like(x.other())
    elif op == 'copyflow':
        if multi: s.copy_flow(x.other())
        else: s.copy_flow(x.other())
    elif op == 'copyTP':
        s.copy_thermal_condition(x.other())
    elif op == 'copyphase':
        if multi: return False
        s.copy_phase(x.other())
    elif op == 'link':
        o = x.other()
        if type(o) is not type(s): return False
        s.link_with(o)
    elif op == 'unlink':
        s.unlink()
    elif op == 'oT':
        x.other().T = x.leaf('T', lo=0., lo_strict=True)
    elif op == 'ofl':
        _set_flow(x, x.other(), 'Ethanol', arg or 'pos')
    elif op == 'oph':
        if isinstance(x.other(), tmo.MultiStream): return False
        x.o.phase = arg
    elif op == 'proxy':
        x.p = s.proxy()
    elif op == 'pT':
        if x.p is None: return False
        x.p.T = x.leaf('T', lo=0., lo_strict=True)
    elif op == 'pfl':
        if x.p is None: return False
        _set_flow(x, x.p, 'Ethanol', arg or 'pos')
    elif op == 'fproxy':
        x.fp = s.flow_proxy()
    elif op == 'fpfl':
        if x.fp is None: return False
        _set_flow(x, x.fp, 'Ethanol', arg or 'pos')
    elif op == 'vfl':                   # write through a phase view
        if not multi or arg not in s.phases: return False
        s[arg].imol['Ethanol'] = x.leaf('n', lo=0., lo_strict=True)
    elif op == 'vT':
        if not multi or arg not in s.phases: return False
        s[arg].T = x.leaf('T', lo=0., lo_strict=True)
    elif op == 'thermo':                # property-package change
        if x.p is not None or x.fp is not None: return False
        s._reset_thermo(x.pkgB() if arg == 'B' else x.thA)
    elif op == 'H=':
        s.H = x.leaf('Hspec')
    elif op == 'S=':
        s.S = x.leaf('Sspec')
    elif op == 'getdata':
        x.data = s.get_data()
    elif op == 'setdata':
        if x.data is None: return False
        s.set_data(x.data)
    elif op == 'resetflow':
        if multi: return False
        s.reset_flow(Water=x.leaf('n', lo=0., lo_strict=True), phase=arg or None)
    elif op == 'resetcache':
        s.reset_cache()
    else:
        raise RuntimeError(f'unknown token {tok}')
    return True


def _frame(x, reading):
    """Streams that a read through `reading` must leave unchanged (all other independent handles)."""
    out = []
    for n, t in (('s', x.s), ('o', x.o)):
        if t is not None and t is not reading:
            out.append((n, t))
    return out


def run_history(x, ops):
    for tok in ops:
        if not apply(x, tok):
            raise CheckAbort()


def final_reads(x, props, label='final'):
    """The statement at the end of a history: every property read from every handle is fresh."""
    s = x.s
    for p in props:
        read(x, s, p, f'{label} s')
    if x.p is not None:
        for p in props:
            read(x, x.p, p, f'{label} proxy')
    if x.fp is not None:
        for p in props:
            read(x, x.fp, p, f'{label} flow_proxy')
    if x.o is not None:
        for p in props:
            read(x, x.o, p, f'{label} other')


def _canary(x, prop='H', hot=False):
    """Deliberately wrong: the value read after the history equals the value at another temperature."""
    w = x.w; s = x.s
    val = getattr(s, prop)
    ref = getattr(fresh_of(s), prop)
    w.canary(f'canary: {prop} = value on a fresh stream + 1', w.eq(val, ref + 1.))
    if hot:
        f = fresh_of(s)
        f.T = s.T + 1.
        w.canary(f'canary: {prop} equals the value of a stream 1 K hotter', w.eq(val, getattr(f, prop)))


# --------------------------------------------------------------------------- (1) _get_property from every reachable memo state

MOVES = {          # how the state s1 differs from the primed state s0
    'same': [], 'T': ['T'], 'P': ['P'], 'TP': ['T', 'P'], 'comp': ['fl'], 'total': ['sc'], 'comp0': ['fl:zero'],
    'phase': ['ph:g'], 'all': ['T', 'P', 'flw', 'fl'], 'toMulti': ['phs:gl'], 'toSingle': ['ph:l'], 'phases': ['phs:gls'],
    'empty': ['empty'],
}


def getprop_configs(tier):
    out = []
    kinds = ['l', 'gl'] if tier == 'quick' else ['l', 'g', 'gl', 'lL', 'gls']
    primes = [(), ('H',), ('sigma',), ('V', 'mu')] if tier == 'quick' else \
        [(), ('H',), ('S',), ('Cn',), ('sigma',), ('Hvap',), ('V', 'mu'), ('H', 'sigma'), ('sigma', 'H'), ('kappa', 'epsilon', 'C')]
    for kind in kinds:
        multi = len(kind) > 1
        moves = ['same', 'T', 'P', 'comp', 'total', 'comp0', 'all', 'empty'] + (['toSingle', 'phases'] if multi else ['phase', 'toMulti'])
        for prime in primes:
            for mv in moves:
                if not prime and mv != 'same': continue
                if tier == 'thorough' or (mv in ('same', 'all', 'T', 'comp') and len(prime) <= 1):
                    firsts = PRIMARY
                else:
                    firsts = ('H', 'sigma', 'V')
                for first in firsts:
                    out.append({'name': f'kind={kind};prime={"+".join(prime) or "none"};move={mv};read={first}',
                                'kind': kind, 'prime': list(prime), 'move': mv, 'first': first, 'derived': False})
    # the quantities derived from the memoised ones (stateless functions of them and of MW): fewer structures
    for kind in (['l'] if tier == 'quick' else ['l', 'g', 'gl']):
        for prime in [(), ('V',), ('Cn', 'mu', 'kappa')]:
            for mv in (['same', 'T'] if tier == 'quick' else ['same', 'T', 'comp', 'total', 'phase' if len(kind) == 1 else 'toSingle']):
                if not prime and mv != 'same': continue
                for first in DERIVED:
                    out.append({'name': f'kind={kind};prime={"+".join(prime) or "none"};move={mv};read={first}',
                                'kind': kind, 'prime': list(prime), 'move': mv, 'first': first, 'derived': True})
    return out


@group('C14/get_property', configs=getprop_configs, loop_free=True,
       functions=['thermosteam._stream:Stream._get_property', 'thermosteam._multi_stream:MultiStream._get_property',
                  'thermosteam._stream:Stream.reset_cache', 'thermosteam._multi_stream:MultiStream.reset_cache'] +
                 [f'thermosteam._stream:Stream.{p}' for p in ALLP] +
                 [f'thermosteam._multi_stream:MultiStream.{p}' for p in ('H', 'h', 'S')],
       assumptions=['A-models'])
def get_property(w, cfg):
    x = X(w, cfg['kind'])
    for p in cfg['prime']:
        read(x, x.s, p, f'prime {p}')
    run_history(x, MOVES[cfg['move']])
    first = cfg['first']
    read(x, x.s, first, 'first')
    # second read of the same property (memo hit) and then every other property from the memo state just established
    read(x, x.s, first, 'again')
    rest = [p for p in (ALLP if cfg['derived'] else PRIMARY) if p != first]
    for p in rest:
        read(x, x.s, p, 'then')
    if cfg['move'] != 'empty':
        _canary(x, 'H')
    else:
        w.canary('canary: empty stream has H = 1', w.eq(x.s.H, 1.))
