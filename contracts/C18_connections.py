# -*- coding: utf-8 -*-
"""
C18 -- flowsheet connections stay mutually consistent under every rewiring operation.

The property is about an object graph (units, their two port lists, streams and
placeholder streams), not about real numbers, so both groups are mode B (bounded
run-time contracts on the real code, executed natively):

  C18/exhaustive  all sequences of rewiring operations (within the preconditions the
                  quantifier states) to a bounded depth over 3 units (fixed / variable /
                  mixed port lists) and 5 streams, from 5 constructed initial wirings.
  C18/random      seeded pseudo-random sequences of length ~50 over 6 units and 10 streams.

After *every* operation the representation invariant WF is evaluated (DESIGN 4/C18):

  I1  every entry of u.ins has `.sink is u` (placeholders included); mirror: u.outs / .source
  I2  every real stream with `.sink is u` is listed in u.ins; the same for every placeholder
      that is currently listed in some port;                              mirror
  I3  no entry occurs twice in a port list (with I1: no stream or placeholder occupies two
      inlet ports or two outlet ports)
  I4  fixed-size lists have length `_size`; every entry is a real stream or a placeholder and
      placeholders are falsy ("report no material").

plus the local effect of the operation (which port holds what, list length, return value), a
frame clause (the other side of every connection, untouched port lists and uninvolved streams
are unchanged; a list that loses a stream to another list gets a placeholder in that port) and
"returns normally" (only the documented refusals -- RuntimeError for growing a fixed-size list,
ValueError of unit.insert for an undefined port -- are accepted as exceptions).

All operations are the REAL thermosteam.network functions.  The harness only chooses the
operands (so that each call is within the stated preconditions), saves/restores object-graph
states between the branches of the enumeration (every WF violation is re-executed from the
constructed initial state by the real operations alone before it is reported) and evaluates
the clauses.  One obligation = (operation kind, clause) per configuration: it holds iff the
clause held after every execution of that kind in the configuration.

Alphabets: 'mini' = the named operations themselves (item/slice assignment of one stream, append,
insert, pop, remove, clear, empty, stream.disconnect*, unit - unit, unit.disconnect/take_place_of/
replace_with/insert); 'core' = mini + replace, pipe notation, extend, reverse, pairs in slices,
Connection.reconnect, placeholders of both sides as operands; 'full' = core + negative indices,
partial slices, every index for pipes, ** pipes, InletPort/OutletPort.set_stream, same-port
re-assignment, unit.insert / unit.disconnect argument variants.
"""
import gc
import os
import random
import thermosteam as tmo
from thermosteam import network as N
from engine.api import group

REAL = N.AbstractStream
MISS = N.AbstractMissingStream


def _unit_class(name, n_in, n_out, fin, fout):
    return type(name, (N.AbstractUnit,), dict(_N_ins=n_in, _N_outs=n_out, _ins_size_is_fixed=fin,
                                              _outs_size_is_fixed=fout))


# name -> class.  F: both lists fixed, V: both variable, M: variable ins / fixed outs, W: fixed ins / variable outs
UNIT_CLASSES = {
    'F': _unit_class('FixedUnit', 2, 1, True, True),
    'V': _unit_class('VariableUnit', 2, 2, False, False),
    'M': _unit_class('MixedUnit', 1, 2, False, True),
    'G': _unit_class('FixedUnit32', 3, 2, True, True),
    'X': _unit_class('VariableUnit13', 1, 3, False, False),
    'W': _unit_class('SplitUnit', 1, 2, True, False),
}

_thermo_ready = False


def _ensure_thermo():
    global _thermo_ready
    if not _thermo_ready:
        # the worker is a fork of the checker: keep the garbage collector away from everything inherited from it
        # (solver objects of the symbolic engine are never needed here); the walks below allocate a lot
        gc.freeze()
        tmo.settings.set_thermo([])
        _thermo_ready = True


# =========================================================================== universe

class Seq:
    __slots__ = ('li', 'unit', 'uname', 'side', 'isin', 'seq', 'fixed', 'size', 'name', 'tag')

    def __init__(self, li, unit, uname, side):
        self.li = li; self.unit = unit; self.uname = uname; self.side = side; self.isin = side == 'ins'
        self.seq = unit._ins if side == 'ins' else unit._outs
        self.fixed = self.seq._fixed_size
        self.size = self.seq._size
        self.name = f'{uname}.{side}'
        self.tag = f"{'fixed' if self.fixed else 'variable'} {side}"


# initial wirings: (streams to create first, [(unit, ins, outs)]) -- 'sK' is the K-th named stream, '.x' a new ID
INITS = {
    # nothing connected: every port holds a placeholder
    'bare': (5, [('F', None, None), ('V', None, None), ('M', None, None)]),
    # a line F -> V -> M built from existing streams
    'line': (5, [('F', ['s0', 's1'], ['s2']), ('V', ['s2'], ['s3', 's4']), ('M', ['s3'], None)]),
    # default construction: outlets created by the unit (outs=()), inlets too (ins=())
    'default': (2, [('F', None, ()), ('V', (), ()), ('M', (), ())]),
    # construction with streams that are docked at an earlier unit (redocked by the constructor), None entries
    'steal': (5, [('F', ['s0', 's1'], ['s2']), ('V', ['s0', 's2'], ['s1']), ('M', [None, 's1'], ['s3', 's2'])]),
    # single stream / string arguments, a self-loop
    'single': (5, [('F', 's1', '.o1'), ('V', ['s0'], ['s0']), ('M', '.i1', ['s2', 's3'])]),
}
INITS_BIG = {
    'bare': (10, [(u, None, None) for u in 'FVMGXW']),
    'net': (10, [('F', ['s0', 's1'], ['s2']), ('V', ['s2'], ['s3', 's4']), ('M', ['s3', 's5'], ['s6']),
                 ('G', ['s4', 's6'], ['s7', 's0']), ('X', ['s7'], ['s8']), ('W', ['s8'], ['s9', 's1'])]),
    'default': (4, [('F', None, ()), ('V', (), ()), ('M', (), ()), ('G', (), ()), ('X', None, ()), ('W', (), None)]),
}


class Universe:
    def __init__(self, init, big=False):
        _ensure_thermo()
        n_named, plan = (INITS_BIG if big else INITS)[init]
        self.named = [REAL('.s%d' % i) for i in range(n_named)]
        byname = {'s%d' % i: s for i, s in enumerate(self.named)}

        def arg(a):
            if a is None or a == () or (isinstance(a, str) and a.startswith('.')):
                return a
            if isinstance(a, str):
                return byname[a]
            return [None if x is None else (byname[x] if not x.startswith('.') else x) for x in a]

        self.units = []
        self.unames = []
        for uname, ins, outs in plan:
            u = UNIT_CLASSES[uname]('.' + uname, arg(ins), arg(outs))
            self.units.append(u); self.unames.append(uname)
        self.seqs = []
        for u, nm in zip(self.units, self.unames):
            for side in ('ins', 'outs'):
                self.seqs.append(Seq(len(self.seqs), u, nm, side))
        self.ins_of = {id(q.unit): q for q in self.seqs if q.side == 'ins'}
        self.outs_of = {id(q.unit): q for q in self.seqs if q.side == 'outs'}
        self.ucode = {id(u): i for i, u in enumerate(self.units)}
        self.uname_of = {id(u): nm for u, nm in zip(self.units, self.unames)}
        # every real stream of the universe: the named ones and those created by the constructors
        self.known = list(self.named)
        seen = {id(s) for s in self.known}
        for q in self.seqs:
            for e in q.seq._streams:
                if isinstance(e, REAL) and id(e) not in seen:
                    seen.add(id(e)); self.known.append(e)
        self.sname = {id(s): 's%d' % i for i, s in enumerate(self.known)}
        self.scode = {id(s): i for i, s in enumerate(self.known)}
        # connections as they are right after construction (operand of Connection.reconnect)
        self.init_connections = [s.get_connection() for s in self.known]

    # ---- naming
    def nm(self, e):
        if e is None: return 'None'
        n = self.sname.get(id(e))
        if n: return n
        if isinstance(e, MISS):
            for q in self.seqs:
                for i, x in enumerate(q.seq._streams):
                    if x is e: return f'<{q.name}[{i}]>'
            return '<placeholder>'
        return repr(e)

    def un(self, u):
        return 'None' if u is None else self.uname_of.get(id(u), '?')

    # ---- state handling
    def save(self):
        lists = [list(q.seq._streams) for q in self.seqs]
        objs = {}
        for s in self.known:
            objs[id(s)] = (s, s._source, s._sink)
        for L in lists:
            for e in L:
                if id(e) not in objs:
                    objs[id(e)] = (e, e._source, e._sink)
        return lists, objs

    def restore(self, snap):
        lists, objs = snap
        for q, L in zip(self.seqs, lists):
            if q.seq._streams != L: q.seq._streams = list(L)
        for o, a, b in objs.values():
            o._source = a; o._sink = b

    def key(self):
        uc = self.ucode; sc = self.scode
        pl = {}
        out = []
        for q in self.seqs:
            for e in q.seq._streams:
                c = sc.get(id(e))
                if c is None:
                    n = pl.setdefault(id(e), len(pl))
                    out.append((n, uc.get(id(e._source), -1 if e._source is None else -2),
                                uc.get(id(e._sink), -1 if e._sink is None else -2)))
                else:
                    out.append(c)
            out.append(None)
        for s in self.known:
            a = s._source; b = s._sink
            out.append(uc.get(id(a), -1 if a is None else -2))
            out.append(uc.get(id(b), -1 if b is None else -2))
        return tuple(out)

    def describe(self):
        d = []
        for q in self.seqs:
            d.append(q.name + '=[' + ','.join(self.sname.get(id(e)) or ('<>' if isinstance(e, MISS) else '?')
                                               for e in q.seq._streams) + ']')
        for s in self.known:
            d.append(f'{self.sname[id(s)]}:{self.un(s._source)}>{self.un(s._sink)}')
        return ' '.join(d)


# =========================================================================== the invariant WF

WF_CLAUSES = (
    'I1 every listed inlet has sink = the unit',
    'I1 every listed outlet has source = the unit',
    'I2 a stream whose sink is a unit is listed among that unit\'s inlets',
    'I2 a stream whose source is a unit is listed among that unit\'s outlets',
    'I3 no stream (or placeholder) occupies two inlet ports',
    'I3 no stream (or placeholder) occupies two outlet ports',
    'I4 fixed-size port list keeps its size',
    'I4 every port holds a stream or a falsy placeholder',
    'I2 a listed placeholder whose sink is a unit is listed among that unit\'s inlets',
    'I2 a listed placeholder whose source is a unit is listed among that unit\'s outlets',
)
# "a placeholder belongs to one port": with I1 (one sink, one source per object) and I3 (not twice in a list) a
# placeholder occupies at most one inlet port and at most one outlet port, exactly like a real stream.  (A placeholder
# that is an outlet of one unit and an inlet of another is a *missing connection*; unit - unit piping creates these
# on purpose, so nothing stronger is demanded.)


def wf_failures(U):
    """Indices into WF_CLAUSES of the conjuncts that do not hold in the current object graph."""
    bad = None
    for q in U.seqs:
        unit = q.unit
        L = q.seq._streams
        n = len(L)
        if q.fixed and n != q.size:
            if bad is None: bad = set()
            bad.add(6)
        if q.isin:
            for e in L:
                c = e.__class__
                if c is not REAL:                         # exactly AbstractStream: truthy (no __bool__/__len__)
                    if c is MISS or isinstance(e, MISS): ok = not e
                    elif isinstance(e, REAL): ok = bool(e)
                    else: ok = False
                    if not ok:
                        if bad is None: bad = set()
                        bad.add(7)
                        if not isinstance(e, (REAL, MISS)): continue
                    if e._source is not None:             # placeholder that is also an outlet: a missing connection
                        q2 = U.outs_of.get(id(e._source))
                        if q2 is None or e not in q2.seq._streams:
                            if bad is None: bad = set()
                            bad.add(9)
                if e._sink is not unit:
                    if bad is None: bad = set()
                    bad.add(0)
        else:
            for e in L:
                c = e.__class__
                if c is not REAL:
                    if c is MISS or isinstance(e, MISS): ok = not e
                    elif isinstance(e, REAL): ok = bool(e)
                    else: ok = False
                    if not ok:
                        if bad is None: bad = set()
                        bad.add(7)
                        if not isinstance(e, (REAL, MISS)): continue
                    if e._sink is not None:
                        q2 = U.ins_of.get(id(e._sink))
                        if q2 is None or e not in q2.seq._streams:
                            if bad is None: bad = set()
                            bad.add(8)
                if e._source is not unit:
                    if bad is None: bad = set()
                    bad.add(1)
        if n > 1 and len(set(map(id, L))) != n:
            if bad is None: bad = set()
            bad.add(4 if q.isin else 5)
    ins_of = U.ins_of; outs_of = U.outs_of
    for s in U.known:
        u = s._sink
        if u is not None:
            q = ins_of.get(id(u))
            if q is None or s not in q.seq._streams:      # streams compare by identity (no __eq__)
                if bad is None: bad = set()
                bad.add(2)
        u = s._source
        if u is not None:
            q = outs_of.get(id(u))
            if q is None or s not in q.seq._streams:
                if bad is None: bad = set()
                bad.add(3)
    return bad or ()


# =========================================================================== operations

class Op:
    __slots__ = ('kind', 'label', 'fn', 'ins', 'outs', 'eff', 'refusals')

    def __init__(self, kind, label, fn, ins=None, outs=None, eff=None, refusals=()):
        self.kind = kind; self.label = label; self.fn = fn
        self.ins = ins      # (set of list indices that may change, streams that may enter) on the inlet/sink side
        self.outs = outs    # same for the outlet/source side;  None = that side must not change at all
        self.eff = eff
        self.refusals = refusals


def _has(L, x):
    for e in L:
        if e is x: return True
    return False


def _index(L, x):
    for i, e in enumerate(L):
        if e is x: return i
    return -1


def gen_ops(U, alphabet, only=None):
    """All operations that are within the preconditions of the quantifier in the current state.

    Streams that are completely free (no source, no sink, in no list) are interchangeable in the
    current state, so only the lowest-numbered free streams are used as operands (sound symmetry
    reduction: the code never looks at stream names).

    `only` restricts the generation to one family (used by the random walks, which first draw a family and a target):
    ('list', list index, 'set'|'slice'|'grow'|'shrink'), ('stream',), ('conn',), ('unit', unit index, 'pair'|'disc'|
    'replace'|'insert')."""
    alpha = {'mini': 0, 'core': 1, 'full': 2, False: 1, True: 2}[alphabet]
    full = alpha == 2       # everything below
    mini = alpha == 0       # no thin wrappers (replace, pipes, extend, reverse, reconnect), single-stream slices only
    ops = []
    add = ops.append
    seqs = U.seqs
    listed = set()
    names = dict(U.sname)
    for q in seqs:
        for i, e in enumerate(q.seq._streams):
            listed.add(id(e))
            if id(e) not in names: names[id(e)] = f'<{q.name}[{i}]>'
    names[id(None)] = 'None'
    docked = []; free = []
    for s in U.known:
        (docked if (s._source is not None or s._sink is not None or id(s) in listed) else free).append(s)
    c1 = docked + free[:1]
    c2 = docked + free[:2]
    def nm(e): return names.get(id(e)) or U.nm(e)
    holders = []       # first placeholder of each list
    for q in seqs:
        for e in q.seq._streams:
            if isinstance(e, MISS):
                holders.append((q, e)); break

    def mk(kind, label, fn, q, targets, entering, eff, refusals=()):
        t = set(targets)
        if q.side == 'ins':
            add(Op(kind, label, fn, ins=(t, entering), outs=None, eff=eff, refusals=refusals))
        else:
            add(Op(kind, label, fn, ins=None, outs=(t, entering), eff=eff, refusals=refusals))

    sub = only[2] if only is not None and len(only) > 2 else None
    w_set = sub in (None, 'set'); w_slice = sub in (None, 'slice'); w_grow = sub in (None, 'grow')
    w_shrink = sub in (None, 'shrink')
    for q in seqs:
        seq = q.seq
        L = seq._streams
        n = len(L)
        li = q.li
        if only is not None and (only[0] != 'list' or only[1] != li): continue
        tag = q.tag
        other_side_attr = '_sink' if q.side == 'ins' else '_source'
        # ------------------------------------------------------------ item assignment  L[i] = x
        idxs = list(range(n))
        if not q.fixed: idxs.append(n)            # variable lists: index == len appends
        if full and n > 1: idxs.append(-1)
        xs = [s for s in c1 if not _has(L, s)]
        xs.append(None)
        got = set()
        for q2, e in holders:                     # placeholders of other lists ("operating on placeholder streams")
            if q2 is not q and not _has(L, e) and not _has(xs, e):
                if not full:                      # core alphabet: one from the same side, one from the other side
                    if q2.side in got or (mini and got): continue
                    got.add(q2.side)
                xs.append(e)
        for i in (idxs if w_set else ()):
            for x in xs:
                add_set = (lambda seq=seq, i=i, x=x: seq.__setitem__(i, x))
                mk(f'setitem[{tag}]', f'{q.name}[{i}]={nm(x)}', add_set, q, [li], [x] if x is not None else [],
                   ('set', li, i, x))
            if full and i < n and isinstance(L[i if i >= 0 else n + i], REAL):
                x = L[i]
                # outside the stated precondition (stream already in the list, at the same port): re-assignment
                mk(f'setitem-same-port[{tag}]', f'{q.name}[{i}]={nm(x)}(same)',
                   (lambda seq=seq, i=i, x=x: seq.__setitem__(i, x)), q, [li], [x], ('set', li, i, x))
        # pipe notation and port objects: the same transition through other entry points
        pidx = idxs if full else idxs[:1]
        xr = [x for x in xs if isinstance(x, REAL)]
        for i in (pidx if w_set and not mini else ()):
            if i < 0: continue
            for x in (xr if full else xr[:1]):
                if q.side == 'ins':
                    f = (lambda x=x, i=i, u=q.unit: (x - i) - u)
                    g = (lambda x=x, i=i, u=q.unit: (x ** i) ** u)
                    lab = f'{nm(x)}-{i}-{q.uname}'
                else:
                    f = (lambda x=x, i=i, u=q.unit: u - (i - x))
                    g = (lambda x=x, i=i, u=q.unit: u ** (i ** x))
                    lab = f'{q.uname}-{i}-{nm(x)}'
                mk(f'pipe stream-index-unit[{tag}]', lab, f, q, [li], [x], ('set', li, i, x))
                if full:
                    mk(f'pipe stream-index-unit[{tag}]', lab.replace('-', '**'), g, q, [li], [x], ('set', li, i, x))
        if full and w_set:
            for i in idxs:
                if i < 0 or i >= n: continue
                for x in xs:
                    if q.side == 'ins':
                        f = (lambda x=x, i=i, u=q.unit: N.InletPort(u, i).set_stream(x, 1))
                    else:
                        f = (lambda x=x, i=i, u=q.unit: N.OutletPort(u, i).set_stream(x, 1))
                    mk(f'Port.set_stream[{tag}]', f'Port({q.name},{i}).set_stream({nm(x)})', f, q, [li],
                       [x] if x is not None else [], ('set', li, i, x))
        # ------------------------------------------------------------ slice assignment
        slices = [(None, None)]
        if full: slices += [(0, 1), (1, None), (None, 1)]
        for a, b in (slices if w_slice else ()):
            sl = slice(a, b)
            inside = L[sl]
            outside = [e for e in L if not _has(inside, e)]
            base = [s for s in (c2 if full else c1) if not _has(outside, s)] + [None]
            tuples = [()] + [(x,) for x in base]
            pool = base if full else (() if mini else base[:3])
            for x in pool:
                for y in pool:
                    if x is y and x is not None: continue
                    if not full and (x is None and y is None): continue
                    tuples.append((x, y))
            if full:
                for q2, e in holders:
                    if q2 is not q and not _has(outside, e): tuples.append((e,))
            for t in tuples:
                newlen = n - len(inside) + len(t)
                if q.fixed and newlen > q.size: continue          # precondition: does not exceed the fixed size
                lab = f'{q.name}[{"" if a is None else a}:{"" if b is None else b}]=(' + ','.join(nm(x) for x in t) + ')'
                mk(f'setslice[{tag}]', lab, (lambda seq=seq, sl=sl, t=t: seq.__setitem__(sl, t)), q, [li],
                   [x for x in t if x is not None], ('slc', li, sl, t))
        # stream - unit, unit - stream, (streams) - unit
        for t in (([(x,) for x in (c1 if full else c1[:2])] + ([(x, y) for x in c2[:3] for y in c2[:3] if x is not y] if full else []))
                  if w_slice and not mini else ()):
            if q.fixed and len(t) > q.size: continue
            if q.side == 'ins':
                f = (lambda t=t, u=q.unit: (t[0] if len(t) == 1 else t) - u)
                lab = '(' + ','.join(nm(x) for x in t) + f')-{q.uname}'
            else:
                f = (lambda t=t, u=q.unit: u - (t[0] if len(t) == 1 else t))
                lab = f'{q.uname}-(' + ','.join(nm(x) for x in t) + ')'
            mk(f'pipe streams-unit[{tag}]', lab, f, q, [li], list(t), ('slc', li, slice(None), t))
        # ------------------------------------------------------------ append / insert / extend
        fr = [s for s in c2 if getattr(s, other_side_attr) is None and not _has(L, s)]   # not docked on that side
        refuse = (RuntimeError,) if q.fixed else ()
        for x in ((fr[:2] if q.fixed else fr) if w_grow else ()):
            mk(f'append[{tag}]', f'{q.name}.append({nm(x)})', (lambda seq=seq, x=x: seq.append(x)), q, [li], [x],
               ('ins', li, n, [x]), refuse)
            for i in (range(n + 1) if (full and not q.fixed) else (0,)):
                mk(f'insert[{tag}]', f'{q.name}.insert({i},{nm(x)})', (lambda seq=seq, i=i, x=x: seq.insert(i, x)), q,
                   [li], [x], ('ins', li, i, [x]), refuse)
        ext = [()] + [(x,) for x in fr[:1]] + [(x, y) for x in fr[:2] for y in fr[:2] if x is not y]
        for t in ((ext if not q.fixed else ext[:2]) if w_grow and not mini else ()):
            mk(f'extend[{tag}]', f'{q.name}.extend((' + ','.join(nm(x) for x in t) + '))',
               (lambda seq=seq, t=t: seq.extend(t)), q, [li], list(t), ('ins', li, n, list(t)), refuse)
        # ------------------------------------------------------------ pop / remove / replace / clear / empty / reverse
        for i in range(n if w_shrink else 0):
            mk(f'pop[{tag}]', f'{q.name}.pop({i})', (lambda seq=seq, i=i: seq.pop(i)), q, [li], [], ('pop', li, i))
        if full and n > 1 and w_shrink:
            mk(f'pop[{tag}]', f'{q.name}.pop(-1)', (lambda seq=seq: seq.pop(-1)), q, [li], [], ('pop', li, n - 1))
        for i, e in enumerate(L):
            if isinstance(e, MISS) and not full and any(isinstance(p, MISS) for p in L[:i]):
                continue                                   # quick: one placeholder per list is enough
            if w_shrink:
                mk(f'remove[{tag}]', f'{q.name}.remove({nm(e)})', (lambda seq=seq, e=e: seq.remove(e)), q, [li], [],
                   ('rem', li, e))
            ys = [y for y in xs if y is not None]
            if not full: ys = xr[:1] + [y for y in ys if isinstance(y, MISS)][:1]
            for y in (ys if w_set and not mini else ()):
                mk(f'replace[{tag}]', f'{q.name}.replace({nm(e)},{nm(y)})',
                   (lambda seq=seq, e=e, y=y: seq.replace(e, y)), q, [li], [y], ('set', li, i, y))
        if w_shrink:
            mk(f'clear[{tag}]', f'{q.name}.clear()', seq.clear, q, [li], [], ('clr', li))
            mk(f'empty[{tag}]', f'{q.name}.empty()', seq.empty, q, [li], [], ('emp', li))
            if not mini: mk(f'reverse[{tag}]', f'{q.name}.reverse()', seq.reverse, q, [li], [], ('rev', li))

    # ---------------------------------------------------------------- stream.disconnect_*
    cand = list(docked)
    for q, e in holders: cand.append(e)
    for s in ((cand + free[:1]) if only is None or only[0] == 'stream' else ()):
        src = s._source; snk = s._sink
        qi = U.ins_of.get(id(snk)) if snk is not None else None
        qo = U.outs_of.get(id(src)) if src is not None else None
        add(Op('stream.disconnect_sink', f'{nm(s)}.disconnect_sink()', s.disconnect_sink,
               ins=({qi.li} if qi else set(), []), outs=None, eff=('disc', s, qi, None)))
        add(Op('stream.disconnect_source', f'{nm(s)}.disconnect_source()', s.disconnect_source,
               ins=None, outs=({qo.li} if qo else set(), []), eff=('disc', s, None, qo)))
        add(Op('stream.disconnect', f'{nm(s)}.disconnect()', s.disconnect,
               ins=({qi.li} if qi else set(), []), outs=({qo.li} if qo else set(), []), eff=('disc', s, qi, qo)))

    # ---------------------------------------------------------------- Connection.reconnect (connection recorded after construction)
    for s, conn in (zip(U.known, U.init_connections) if (only is None and not mini) or (only and only[0] == 'conn') else ()):
        ok = True
        ti = set(); to = set()
        if conn.source is not None:
            qo = U.outs_of[id(conn.source)]
            Lo = qo.seq._streams
            k = conn.source_index
            if not (0 <= k < len(Lo)) or (_has(Lo, s) and Lo[k] is not s): ok = False
            if not full and _has(Lo, s): ok = False         # same-port re-assignment only in the full alphabet
            to.add(qo.li)
        elif s._source is not None:
            to.add(U.outs_of[id(s._source)].li)
        if conn.sink is not None:
            qi = U.ins_of[id(conn.sink)]
            Li = qi.seq._streams
            k = conn.sink_index
            if not (0 <= k < len(Li)) or (_has(Li, s) and Li[k] is not s): ok = False
            if not full and _has(Li, s): ok = False
            ti.add(qi.li)
        elif s._sink is not None:
            ti.add(U.ins_of[id(s._sink)].li)
        if ok and (free[:1] == [s] or s in docked):
            add(Op('Connection.reconnect', f'reconnect({nm(s)}:{U.un(conn.source)}[{conn.source_index}]>'
                                          f'{U.un(conn.sink)}[{conn.sink_index}])', conn.reconnect,
                   ins=(ti, [s]), outs=(to, [s]), eff=('conn', s, conn)))

    # ---------------------------------------------------------------- unit level
    units = U.units
    w_pair = sub in (None, 'pair'); w_disc = sub in (None, 'disc'); w_repl = sub in (None, 'replace')
    w_ins = sub in (None, 'insert')
    for ai, a in enumerate(units):
        if only is not None and (only[0] != 'unit' or only[1] != ai): continue
        qa_i = U.ins_of[id(a)]; qa_o = U.outs_of[id(a)]
        an = U.un(a)
        a_ins = list(qa_i.seq._streams); a_outs = list(qa_o.seq._streams)
        for b in (units if w_pair else ()):
            qb_i = U.ins_of[id(b)]; qb_o = U.outs_of[id(b)]
            bn = U.un(b)
            b_ins = list(qb_i.seq._streams); b_outs = list(qb_o.seq._streams)
            # a - b : b.ins[:] = a.outs   (a piped unit does not supply more streams than a fixed-size list holds)
            if not (qb_i.fixed and len(a_outs) > qb_i.size):
                add(Op(f'pipe unit-unit[{qb_i.tag}]', f'{an}-{bn}', (lambda a=a, b=b: a - b),
                       ins=({qb_i.li}, a_outs), outs=None, eff=('slc', qb_i.li, slice(None), tuple(a_outs))))
            if a is b: continue
            # a.take_place_of(b): a.ins[:] = b.ins ; a.outs[:] = b.outs
            if not (qa_i.fixed and len(b_ins) > qa_i.size) and not (qa_o.fixed and len(b_outs) > qa_o.size):
                add(Op('unit.take_place_of', f'{an}.take_place_of({bn})', (lambda a=a, b=b: a.take_place_of(b)),
                       ins=({qa_i.li}, b_ins), outs=({qa_o.li}, b_outs), eff=('tpo', qa_i.li, qa_o.li, b_ins, b_outs)))
                add(Op('unit.replace_with(other)', f'{bn}.replace_with({an})', (lambda a=a, b=b: b.replace_with(a)),
                       ins=({qa_i.li}, b_ins), outs=({qa_o.li}, b_outs), eff=('tpo', qa_i.li, qa_o.li, b_ins, b_outs)))
        # a.disconnect(...)
        if w_disc:
            add(Op('unit.disconnect', f'{an}.disconnect()', a.disconnect, ins=({qa_i.li}, []), outs=({qa_o.li}, []),
                   eff=('udisc', qa_i.li, qa_o.li)))
        real_i = [e for e in a_ins if e]; real_o = [e for e in a_outs if e]
        if w_disc and len(real_i) == len(real_o):
            tg = {qa_i.li} | {U.ins_of[id(o._sink)].li for o in real_o if o._sink is not None}
            add(Op('unit.disconnect(join_ends)', f'{an}.disconnect(join_ends=True)',
                   (lambda a=a: a.disconnect(join_ends=True)), ins=(tg, list(real_i)), outs=({qa_o.li}, []),
                   eff=('udisc', qa_i.li, qa_o.li)))
        if full and w_disc:
            for i in range(len(a_ins)):
                for o in range(len(a_outs)):
                    add(Op('unit.disconnect(inlets,outlets by index)', f'{an}.disconnect(inlets=[{i}],outlets=[{o}])',
                           (lambda a=a, i=i, o=o: a.disconnect(inlets=[i], outlets=[o])),
                           ins=({qa_i.li}, []), outs=({qa_o.li}, []), eff=None))
                    if isinstance(a_ins[i], REAL) and isinstance(a_outs[o], REAL):
                        add(Op('unit.disconnect(inlets,outlets by stream)',
                               f'{an}.disconnect(inlets=[{nm(a_ins[i])}],outlets=[{nm(a_outs[o])}])',
                               (lambda a=a, x=a_ins[i], y=a_outs[o]: a.disconnect(inlets=[x], outlets=[y])),
                               ins=({qa_i.li}, []), outs=({qa_o.li}, []), eff=None))
        # a.replace_with(None): join every inlet with the outlet of the same index, then empty both lists
        if w_repl and not any(e._source is a for e in a_ins) and not any(e._sink is a for e in a_outs):
            ti = {qa_i.li}; to = {qa_o.li}
            for e in a_ins:
                if e._source is not None and id(e._source) in U.outs_of: to.add(U.outs_of[id(e._source)].li)
            for e in a_outs:
                if e._sink is not None and id(e._sink) in U.ins_of: ti.add(U.ins_of[id(e._sink)].li)
            add(Op('unit.replace_with(None)', f'{an}.replace_with()', a.replace_with,
                   ins=(ti, list(a_ins)), outs=(to, list(a_outs)), eff=None))
        # a.insert(stream): insert the unit into the line source -> stream -> sink
        for s in (docked if w_ins else ()):
            src = s._source; snk = s._sink
            if src is None or snk is None or src is a or snk is a: continue
            qsi = U.ins_of[id(snk)]; qso = U.outs_of[id(src)]
            # the assignments made inside must be within the stated precondition (a stream assigned to a port is not
            # already in the same port list): the unit is not yet connected to the sink's inlets / the source's outlets
            if any(_has(qsi.seq._streams, e) or _has(qso.seq._streams, e) for e in a_ins + a_outs): continue
            ti = {qa_i.li, qsi.li}; to = {qa_o.li, qso.li}
            variants = [((), '')]
            if not a_ins and a._N_ins == 1 and (qa_i.fixed or not qa_o.fixed):
                variants = []          # insert would address ins[0] of an empty (variable) list: index out of range
            if full and a_ins and a_outs:
                variants += [((0, 0), ',0,0')]
                for x in a_ins[:1]:
                    for y in a_outs[:1]:
                        if isinstance(x, REAL) and isinstance(y, REAL): variants.append(((x, y), f',{nm(x)},{nm(y)}'))
            for args, lab in variants:
                add(Op('unit.insert', f'{an}.insert({nm(s)}{lab})', (lambda a=a, s=s, args=args: a.insert(s, *args)),
                       ins=(ti, [s] + a_outs + a_ins), outs=(to, [s] + a_ins + a_outs), eff=None,
                       refusals=(ValueError,)))
    return ops


# =========================================================================== local effects and frame

def _is_new_placeholder(e, preL):
    return isinstance(e, MISS) and not e and not _has(preL, e)


def _same(A, B):
    return len(A) == len(B) and all(a is b for a, b in zip(A, B))


def _matches(M, expected, preL):
    """expected: list of objects, None meaning 'a falsy placeholder that was not in the list before'."""
    if len(M) != len(expected): return False
    for m, x in zip(M, expected):
        if x is None:
            if not _is_new_placeholder(m, preL): return False
        elif m is not x: return False
    return True


def effect_failures(U, op, pre_lists, ret):
    """Local effect of the operation: names of the effect clauses that fail."""
    eff = op.eff
    bad = []
    if eff is None: return bad
    k = eff[0]
    if k == 'set':
        _, li, i, x = eff
        q = U.seqs[li]; L = pre_lists[li]; M = q.seq._streams
        n = len(L)
        exp = list(L)
        if i == n: exp.append(x)
        else: exp[i] = x
        if not _matches(M, exp, L): bad.append('effect: the port holds the assigned stream, other ports unchanged')
    elif k == 'ins':
        _, li, i, xs = eff
        q = U.seqs[li]; L = pre_lists[li]; M = q.seq._streams
        if q.fixed: exp = list(L)
        else: exp = L[:i] + list(xs) + L[i:]
        if not _same(M, exp): bad.append('effect: streams inserted at the position, other ports unchanged')
    elif k == 'pop':
        _, li, i = eff
        q = U.seqs[li]; L = pre_lists[li]; M = q.seq._streams
        if ret is not L[i]: bad.append('effect: returns the stream that was in the port')
        if q.fixed:
            exp = list(L); exp[i] = None
        else:
            exp = L[:i] + L[i + 1:]
        if not _matches(M, exp, L): bad.append('effect: the port is vacated, other ports unchanged')
        side = '_sink' if q.side == 'ins' else '_source'
        if isinstance(L[i], REAL) and getattr(L[i], side) is not None:
            bad.append('effect: the removed stream is undocked')
    elif k == 'rem':
        _, li, x = eff
        q = U.seqs[li]; L = pre_lists[li]; M = q.seq._streams
        j = _index(L, x)
        if q.fixed:
            exp = list(L); exp[j] = None
            ok = _matches(M, exp, L)
        else:   # variable lists: only "x is gone, the others keep their order" is demanded
            ok = (not _has(M, x)) and _same([e for e in M if _has(L, e)], L[:j] + L[j + 1:])
        if not ok: bad.append('effect: the port is vacated, other ports unchanged')
        side = '_sink' if q.side == 'ins' else '_source'
        if isinstance(x, REAL) and getattr(x, side) is not None:
            bad.append('effect: the removed stream is undocked')
    elif k == 'clr':
        _, li = eff
        q = U.seqs[li]; L = pre_lists[li]; M = q.seq._streams
        if q.fixed: ok = _matches(M, [None] * q.size, L)
        else: ok = len(M) == 0
        if not ok: bad.append('effect: every port is vacated')
        side = '_sink' if q.side == 'ins' else '_source'
        if any(getattr(e, side) is not None for e in L if isinstance(e, REAL)):
            bad.append('effect: the removed stream is undocked')
    elif k == 'emp':
        _, li = eff
        q = U.seqs[li]; L = pre_lists[li]; M = q.seq._streams
        if not _matches(M, [None] * q.size, L): bad.append('effect: every port is vacated')
    elif k == 'rev':
        _, li = eff
        q = U.seqs[li]; L = pre_lists[li]; M = q.seq._streams
        if not _same(M, L[::-1]): bad.append('effect: ports in reverse order')
    elif k == 'slc':
        _, li, sl, t = eff
        q = U.seqs[li]; L = pre_lists[li]; M = q.seq._streams
        exp = list(L)
        exp[sl] = list(t)
        if q.fixed and len(exp) < q.size: exp += [None] * (q.size - len(exp))
        # placeholders handed in are kept as they are; None becomes a new placeholder
        if not _matches(M, exp, L): bad.append('effect: the slice holds the assigned streams, other ports unchanged')
    elif k == 'disc':
        _, s, qi, qo = eff
        if op.ins is not None and s._sink is not None: bad.append('effect: the removed stream is undocked')
        if op.outs is not None and s._source is not None: bad.append('effect: the removed stream is undocked')
        for q, used in ((qi, op.ins), (qo, op.outs)):
            if q is None or used is None: continue
            L = pre_lists[q.li]; M = q.seq._streams
            j = _index(L, s)
            if j < 0: continue
            if q.fixed:
                exp = list(L); exp[j] = None
                ok = _matches(M, exp, L)
            else:
                ok = (not _has(M, s)) and _same([e for e in M if _has(L, e)], L[:j] + L[j + 1:])
            if not ok: bad.append('effect: the port is vacated, other ports unchanged')
    elif k == 'conn':
        _, s, conn = eff
        if s._source is not conn.source or s._sink is not conn.sink:
            bad.append('effect: the stream is back at the recorded connection')
        else:
            if conn.source is not None and U.outs_of[id(conn.source)].seq._streams[conn.source_index] is not s:
                bad.append('effect: the stream is back at the recorded connection')
            if conn.sink is not None and U.ins_of[id(conn.sink)].seq._streams[conn.sink_index] is not s:
                bad.append('effect: the stream is back at the recorded connection')
    elif k == 'tpo':
        _, lii, lio, b_ins, b_outs = eff
        for li, src in ((lii, b_ins), (lio, b_outs)):
            q = U.seqs[li]; L = pre_lists[li]; M = q.seq._streams
            exp = list(src)
            if q.fixed and len(exp) < q.size: exp += [None] * (q.size - len(exp))
            if not _matches(M, exp, L): bad.append('effect: the unit holds the streams of the other unit')
    elif k == 'udisc':
        _, lii, lio = eff
        for li in (lii, lio):
            q = U.seqs[li]; L = pre_lists[li]; M = q.seq._streams
            exp = [None] * q.size if q.fixed else []
            if not _matches(M, exp, L): bad.append('effect: every port is vacated')
    return bad


FRAME_CLAUSES = ('frame: the other side of every connection is unchanged',
                 'frame: untouched port lists are unchanged (a list losing a stream gets a placeholder there)',
                 'frame: sink/source of uninvolved streams unchanged')


def frame_failures(U, op, snap):
    pre_lists, objs = snap
    bad = None
    changed = [q for q in U.seqs if q.seq._streams != pre_lists[q.li]]     # element-wise identity
    csrc = None; csnk = None
    for o, a, b in objs.values():
        if o._source is not a:
            if csrc is None: csrc = []
            csrc.append(o)
        if o._sink is not b:
            if csnk is None: csnk = []
            csnk.append(o)
    if not changed and csrc is None and csnk is None:
        return ()
    bad = set()
    inv = {}

    def involved(side, spec):
        r = inv.get(side)
        if r is None:
            targets, entering = spec
            r = {id(x) for x in entering}
            for li in targets:
                for e in pre_lists[li]: r.add(id(e))
            inv[side] = r
        return r

    for q in changed:
        spec = op.ins if q.isin else op.outs
        if spec is None:
            bad.add(0); continue
        targets, entering = spec
        if q.li in targets: continue
        L = pre_lists[q.li]; M = q.seq._streams
        if len(L) != len(M):
            bad.add(1); continue
        for e, m in zip(L, M):
            if m is e: continue
            if _has(entering, e) and _is_new_placeholder(m, L): continue
            bad.add(1)
    for objs_changed, spec, side in ((csrc, op.outs, 'outs'), (csnk, op.ins, 'ins')):
        if objs_changed is None: continue
        if spec is None:
            bad.add(0); continue
        r = involved(side, spec)
        for o in objs_changed:
            if id(o) not in r and isinstance(o, REAL): bad.add(2)
    return bad


# =========================================================================== stepping and statistics

class Stats:
    def __init__(self):
        self.n = {}          # kind -> number of executions
        self.fail = {}       # (kind, clause) -> [count, first trace]
        self.effects = {}    # kind -> set of effect clause names that can be evaluated for that kind
        self.refused = {}
        self.steps = 0
        self.states = 0
        self.frontier = 0

    def failed(self, kind, clause, trace):
        r = self.fail.get((kind, clause))
        if r is None: self.fail[kind, clause] = [1, trace]
        else: r[0] += 1


EFFECT_CLAUSES = {
    'set': ['effect: the port holds the assigned stream, other ports unchanged'],
    'ins': ['effect: streams inserted at the position, other ports unchanged'],
    'pop': ['effect: returns the stream that was in the port', 'effect: the port is vacated, other ports unchanged',
            'effect: the removed stream is undocked'],
    'rem': ['effect: the port is vacated, other ports unchanged', 'effect: the removed stream is undocked'],
    'clr': ['effect: every port is vacated', 'effect: the removed stream is undocked'],
    'emp': ['effect: every port is vacated'],
    'rev': ['effect: ports in reverse order'],
    'slc': ['effect: the slice holds the assigned streams, other ports unchanged'],
    'disc': ['effect: the removed stream is undocked', 'effect: the port is vacated, other ports unchanged'],
    'conn': ['effect: the stream is back at the recorded connection'],
    'tpo': ['effect: the unit holds the streams of the other unit'],
    'udisc': ['effect: every port is vacated'],
}
NORMAL = 'returns normally (no exception other than a documented refusal)'


def step(U, op, snap, stats, trace):
    """Execute one real operation in the current (WF) state, evaluate all clauses. True iff WF holds afterwards."""
    kind = op.kind
    stats.n[kind] = stats.n.get(kind, 0) + 1
    stats.steps += 1
    if op.eff is not None and kind not in stats.effects:
        stats.effects[kind] = EFFECT_CLAUSES[op.eff[0]]
    ret = None
    normal = True
    try:
        ret = op.fn()
    except op.refusals:
        normal = False
        stats.refused[kind] = stats.refused.get(kind, 0) + 1
    except Exception as e:      # noqa
        normal = False
        stats.failed(kind, NORMAL, trace + [op.label, f'{type(e).__name__}: {e}'[:120]])
    bad = wf_failures(U)
    if bad:
        t = trace + [op.label, '=> ' + U.describe()]
        for b in bad: stats.failed(kind, WF_CLAUSES[b], t)
    if normal:
        fb = frame_failures(U, op, snap)
        eb = effect_failures(U, op, snap[0], ret)
        if fb or eb:
            t = trace + [op.label, '=> ' + U.describe()]
            for b in fb: stats.failed(kind, FRAME_CLAUSES[b], t)
            for b in eb: stats.failed(kind, b, t)
    else:
        # a refused operation must not have changed anything
        if not all(_same(q.seq._streams, snap[0][q.li]) for q in U.seqs) or \
                any(o._source is not a or o._sink is not b for o, a, b in snap[1].values()):
            if op.refusals == (RuntimeError,):      # list-level refusal ("size is fixed")
                stats.failed(kind, 'frame: a refused operation changes nothing', trace + [op.label, '=> ' + U.describe()])
    return not bad


def explore_partitioned(U, depth, bfs, full, stats, chunk, chunks):
    """All operation sequences of length <= depth from the current state.  Levels 0 .. bfs-1 are expanded breadth-first
    with a table of visited object-graph states (every process computes the same table, deterministically); the
    states of level `bfs` are dealt round-robin to the `chunks` configurations; below them depth-first (explore).
    A state is expanded again only if it is reached with a larger remaining depth than before."""
    seen = {U.key(): depth}
    level = [(U.save(), [])]
    for lv in range(bfs):
        nxt = []
        remaining = depth - lv
        for snap, trace in level:
            U.restore(snap)
            stats.states += 1
            for op in gen_ops(U, full):
                ok = step(U, op, snap, stats, trace)
                if ok and remaining > 1:
                    k = U.key()
                    if seen.get(k, 0) < remaining - 1:
                        seen[k] = remaining - 1
                        nxt.append((U.save(), trace + [op.label]))
                U.restore(snap)
        level = nxt
    stats.frontier = len(level)
    if depth > bfs:
        for snap, trace in level[chunk::chunks]:
            U.restore(snap)
            explore(U, depth - bfs, full, stats, seen, list(trace))


def explore(U, depth, full, stats, memo, trace):
    snap = U.save()
    stats.states += 1
    for op in gen_ops(U, full):
        ok = step(U, op, snap, stats, trace)
        if ok and depth > 1:
            k = U.key()
            if memo.get(k, 0) < depth - 1:
                memo[k] = depth - 1
                trace.append(op.label)
                explore(U, depth - 1, full, stats, memo, trace)
                trace.pop()
        U.restore(snap)


def confirm_from_scratch(init, big, labels):
    """Re-execute a failing trace from a newly constructed universe using only the real operations
    (no state restoring); returns the WF failures after the last operation."""
    U = Universe(init, big)
    for lab in labels:
        ops = [o for o in gen_ops(U, True) if o.label == lab]
        if not ops: return None
        try:
            ops[0].fn()
        except Exception:   # noqa
            pass
    return wf_failures(U)


def emit(w, U, stats, init, big):
    """One obligation per (operation kind, clause): the clause held after every execution in this configuration."""
    for kind in sorted(stats.n):
        names = [NORMAL] + list(WF_CLAUSES) + list(FRAME_CLAUSES) + list(stats.effects.get(kind, []))
        for c in names:
            f = stats.fail.get((kind, c))
            if f is None:
                w.ensure(f'after {kind}: {c}', True)
            else:
                w.ensure(f'after {kind}: {c}', False, **_failure_info(f, stats.n[kind]))
        extra = [k for k in stats.fail if k[0] == kind and k[1] not in names]
        for k in extra:
            f = stats.fail[k]
            w.ensure(f'after {kind}: {k[1]}', False, **_failure_info(f, stats.n[kind]))


def _failure_info(f, executions):
    """f = [count, trace]; trace = labels of the operations from the constructed initial state, the failing operation,
    then '=> state after' or the exception (and the from-scratch confirmation)."""
    t = list(f[1])
    tail = []
    while t and (t[-1].startswith(('=> ', '[re-executed')) or ': ' in t[-1] and t[-1].split(':')[0].endswith(('Error', 'Exception'))):
        tail.insert(0, t.pop())
    op = t.pop() if t else ''
    return dict(failures=f[0], executions=executions, failing_operation=op, outcome=' '.join(tail),
                operations_before=' ; '.join(t[-12:]) + (f' (last 12 of {len(t)})' if len(t) > 12 else ''))


# =========================================================================== canaries (vacuity guards, evaluated here because mode B has no solver)

def canaries(w, U):
    """Deliberately wrong claims: WF holds in a corrupted graph / after an operation that forgets to undock."""
    snap = U.save()
    qv = next(q for q in U.seqs if not q.fixed and q.side == 'ins')
    qf = next(q for q in U.seqs if q.fixed and q.side == 'outs')
    s = next((x for x in U.known if x._sink is None and x._source is None), U.known[0])
    s.disconnect()
    results = []
    # (a) stream docked behind the list's back: listed but sink not set
    qv.seq._streams.append(s)
    results.append(('canary: WF holds for a listed inlet whose sink is not the unit', wf_failures(U)))
    U.restore(snap); s.disconnect(); base = U.save()
    # (b) sink set but not listed
    s._sink = qv.unit
    results.append(('canary: WF holds for a stream whose sink does not list it', wf_failures(U)))
    U.restore(base)
    # (c) the same stream in two ports
    qv.seq.append(s); qv.seq._streams.append(s)
    results.append(('canary: WF holds with a stream in two ports', wf_failures(U)))
    U.restore(base)
    # (d) fixed-size list shrinks
    qf.seq._streams.pop()
    results.append(('canary: WF holds for a fixed-size list that lost a port', wf_failures(U)))
    U.restore(base)
    # (e) pop that forgets to undock (the mutant of StreamSequence.pop)
    qv.seq.append(s); qv.seq._streams.pop()
    results.append(('canary: WF holds after removing a stream from the list without undocking it', wf_failures(U)))
    U.restore(base)
    # (f) truthy placeholder
    class Loud(MISS):
        __slots__ = ()
        def __bool__(self): return True
    qf.seq._streams[0] = Loud(qf.unit, None)
    results.append(('canary: WF holds with a placeholder that reports material', wf_failures(U)))
    U.restore(snap)
    for name, bad in results:
        w.canary(name, not bad)
        w.ensure('vacuity guard refuted -- ' + name, bool(bad))


# =========================================================================== group 1: exhaustive

QUICK_DEPTH = 3
THOROUGH_DEPTH = 4


def exhaustive_configs(tier):
    out = []
    if tier == 'quick':
        plan = [('bare', QUICK_DEPTH, 'core', 8), ('line', QUICK_DEPTH, 'core', 24)]
        plan += [(init, 2, 'core', 2) for init in ('steal', 'single', 'default')]
        plan += [(init, 2, 'full', 4) for init in ('bare', 'line')]
    else:
        plan = [('bare', THOROUGH_DEPTH, 'mini', 64), ('line', THOROUGH_DEPTH, 'mini', 128)]
        plan += [('bare', 3, 'core', 8), ('line', 3, 'core', 24), ('steal', 3, 'core', 32), ('single', 3, 'core', 32),
                 ('default', 3, 'core', 48)]
        plan += [(init, 2, 'full', 4) for init in INITS] + [('bare', 3, 'full', 32)]
    for init, depth, alphabet, chunks in plan:
        for k in range(chunks):
            out.append({'name': f'init={init};depth={depth};alphabet={alphabet};chunk={k}/{chunks}',
                        'init': init, 'depth': depth, 'bfs': min(2, depth - 1), 'alphabet': alphabet, 'chunk': k,
                        'chunks': chunks})
    # interleave so that neighbouring jobs (pool chunksize) have different costs
    out.sort(key=lambda c: (c['chunk'], c['name']))
    return out


FUNCTIONS = ['thermosteam.network:StreamSequence.__init__', 'thermosteam.network:StreamSequence.__setitem__',
             'thermosteam.network:StreamSequence._set_stream', 'thermosteam.network:StreamSequence._set_streams',
             'thermosteam.network:StreamSequence._as_stream', 'thermosteam.network:StreamSequence.insert',
             'thermosteam.network:StreamSequence.append', 'thermosteam.network:StreamSequence.extend',
             'thermosteam.network:StreamSequence.replace', 'thermosteam.network:StreamSequence.index',
             'thermosteam.network:StreamSequence.pop', 'thermosteam.network:StreamSequence.remove',
             'thermosteam.network:StreamSequence.clear', 'thermosteam.network:StreamSequence.empty',
             'thermosteam.network:StreamSequence.reverse',
             'thermosteam.network:AbstractInlets._dock', 'thermosteam.network:AbstractInlets._redock',
             'thermosteam.network:AbstractInlets._undock', 'thermosteam.network:AbstractInlets._create_missing_stream',
             'thermosteam.network:AbstractOutlets._dock', 'thermosteam.network:AbstractOutlets._redock',
             'thermosteam.network:AbstractOutlets._undock', 'thermosteam.network:AbstractOutlets._create_missing_stream',
             'thermosteam.network:AbstractStream.disconnect_source', 'thermosteam.network:AbstractStream.disconnect_sink',
             'thermosteam.network:AbstractStream.disconnect', 'thermosteam.network:AbstractStream.__sub__',
             'thermosteam.network:AbstractStream.__rsub__', 'thermosteam.network:AbstractStream.__pow__',
             'thermosteam.network:AbstractStream.__rpow__', 'thermosteam.network:AbstractStream.get_connection',
             'thermosteam.network:InletPipe.__sub__', 'thermosteam.network:OutletPipe.__rsub__',
             'thermosteam.network:InletPort.set_stream', 'thermosteam.network:OutletPort.set_stream',
             'thermosteam.network:Connection.reconnect',
             'thermosteam.network:AbstractUnit.__init__', 'thermosteam.network:AbstractUnit.__sub__',
             'thermosteam.network:AbstractUnit.__rsub__', 'thermosteam.network:AbstractUnit.disconnect',
             'thermosteam.network:AbstractUnit.insert', 'thermosteam.network:AbstractUnit.take_place_of',
             'thermosteam.network:AbstractUnit.replace_with']


def check_construction(w, U):
    bad = wf_failures(U)
    for i, c in enumerate(WF_CLAUSES):
        w.ensure(f'after construction: {c}', i not in bad, state=U.describe())
    return not bad


@group('C18/exhaustive', configs=exhaustive_configs, functions=FUNCTIONS, mode='B',
       notes='every sequence of rewiring operations within the stated preconditions over 3 units (fixed / variable / '
             'mixed port lists) and 5 streams (plus the streams the constructors create) from 5 constructed initial '
             'wirings; quick: depth 3 (core alphabet) from the unconnected and the fully connected wiring, depth 2 from '
             'the other three, depth 2 with the full alphabet; thorough: depth 4 (mini alphabet) from the same two '
             'wirings, depth 3 (core) from all five, depth 2 (full) from all five and depth 3 (full) from the unconnected one. Equal object-graph states are expanded '
             'once per remaining depth (the code reads nothing but the graph); completely free streams are '
             'interchangeable. WF + local effect + frame + returns-normally evaluated after every operation')
def exhaustive(w, cfg):
    init = cfg['init']; depth = cfg['depth']; full = cfg['alphabet']
    U = Universe(init)
    if not check_construction(w, U):
        return
    canaries(w, U)
    stats = Stats()
    start = U.save()
    explore_partitioned(U, depth, cfg['bfs'], full, stats, cfg['chunk'], cfg['chunks'])
    U.restore(start)
    _confirm_and_emit(w, U, stats, init, False)
    w.note(steps=stats.steps, states_expanded=stats.states, states_at_partition_level=stats.frontier,
           refused=sum(stats.refused.values()))


def _confirm_and_emit(w, U, stats, init, big):
    # every WF violation is re-executed from a new universe by the real operations only
    for (kind, clause), f in list(stats.fail.items()):
        if clause in WF_CLAUSES:
            labels = [x for x in f[1] if not x.startswith('=> ')]
            again = confirm_from_scratch(init, big, labels)
            f[1] = f[1] + ['[re-executed from construction: ' + ('confirmed' if again and WF_CLAUSES.index(clause) in again
                                                                else 'NOT confirmed') + ']']
    emit(w, U, stats, init, big)


# =========================================================================== group 2: random

def random_configs(tier):
    n_cfg, n_seq, length = (16, 150, 50) if tier == 'quick' else (64, 600, 60)
    out = []
    inits = sorted(INITS_BIG)
    for k in range(n_cfg):
        out.append({'name': f'init={inits[k % len(inits)]};block={k}', 'init': inits[k % len(inits)], 'block': k,
                    'sequences': n_seq, 'length': length})
    return out


@group('C18/random', configs=random_configs, functions=FUNCTIONS, mode='B',
       notes='seeded (VERIF_SEED) pseudo-random sequences of 50 (quick) / 60 (thorough) operations drawn uniformly over '
             'operation kinds and then operands from the full alphabet within the stated preconditions, over 6 units '
             '(two fixed, two variable, two mixed; 1-3 ports) and 10 streams from 3 constructed initial wirings; '
             'WF + local effect + frame evaluated after every operation; a sequence ends at the first WF violation')
def random_sequences(w, cfg):
    seed = int(os.environ.get('VERIF_SEED', '0') or 0)
    init = cfg['init']
    U = Universe(init, big=True)
    if not check_construction(w, U):
        return
    canaries(w, U)
    stats = Stats()
    start = U.save()
    done = 0
    for n in range(cfg['sequences']):
        rng = random.Random(f"C18/{seed}/{cfg['block']}/{n}")
        U.restore(start)
        trace = []
        for t in range(cfg['length']):
            for attempt in range(20):
                r = rng.random()
                if r < 0.62:
                    only = ('list', rng.randrange(len(U.seqs)), rng.choice(('set', 'set', 'slice', 'grow', 'shrink', 'shrink')))
                elif r < 0.72: only = ('stream',)
                elif r < 0.77: only = ('conn',)
                else: only = ('unit', rng.randrange(len(U.units)), rng.choice(('pair', 'disc', 'replace', 'insert', 'insert')))
                ops = gen_ops(U, True, only)
                if ops: break
            if not ops: break
            bykind = {}
            for o in ops: bykind.setdefault(o.kind, []).append(o)
            kind = rng.choice(sorted(bykind))
            op = rng.choice(bykind[kind])
            snap = U.save()
            ok = step(U, op, snap, stats, trace)
            trace.append(op.label)
            done += 1
            if not ok: break
    U.restore(start)
    _confirm_and_emit(w, U, stats, init, True)
    w.note(steps=done, kinds=len(stats.n))
