# -*- coding: utf-8 -*-
"""
C01 (gap round) — more of the real code that the conservation property depends on, under contract.

The groups of C01_conservation.py call `mix_from / separate_out` with energy_balance=False only, never use
`exclude=True`, never go through the operator forms or `Stream.sum`, start (but for C01/history) from fresh objects
and read the result from the raw sparse dicts.  The groups here add

  C01/gap_mix_energy     Stream.mix_from(energy_balance=True): the single-inlet `copy_like` shortcut (Stream / MultiStream /
                         both indexers, equal / compatible / new phases), the H setters in between, the fall-back of the H
                         setter (phase flip) and the fall-back of mix_from (`self.phases = ...` + second material mix),
                         receiver among the inlets, conserve_phases.  Molar enthalpy is a constant (stream enthalpies
                         linear in the flows); a temperature solve returns ANY T in [1, 1000] (or raises when the
                         configuration says so), so the clauses hold whatever the solver returns.
  C01/gap_mix_entry      other ways into the same sum: conserve_phases with energy_balance=False, Stream.sum /
                         MultiStream.sum, inlets whose phases equal the receiver's up to case, inlets that are phase views or
                         (flow) proxies of the receiver, a receiver that is a phase view of an inlet; totals are read through
                         `mol[i]`, `imol[ID]`, `imol[phase, ID]` (primed before the call) and through the phase views.
  C01/gap_operators      s1 + s2, builtin sum([...]) (0 + s), s1 += s2, s1 -= s2 (energy balance on, as the operators do).
  C01/gap_split          MultiStream.split_to towards other packages / three phases / multi-phase outlets with prior
                         contents (also in phases the feed lacks), single-phase feed into multi-phase outlets, Stream.split_to
                         of a phase view, second split onto the same outlets.
  C01/gap_separate       separate_out of either inlet, of both, of the stream itself, of inlets that brought a phase the
                         receiver lacked, of (possibly empty) inlets, with energy_balance=True.
  C01/gap_history_multi  the two-step histories of C01/history (same body) on MultiStream receivers in the quick tier: foreign
                         packages in different orders, no cache reset in between.
  C01/gap_move           copy_flow(remove=True, exclude=True) Stream and MultiStream targets, IDs as str / tuple / list / ...,
                         chemicals the source's package lacks, foreign packages, chains of two moves.
  C01/gap_scale          k*s through histories (twice, after/before a mix), on streams that share their flow data.
  C01/gap_mix_vle        mode B: mix_from(vle=True) on real property data and the real flash.

Clauses that fail on the tree at bc9dedb are genuine defects (reproducers /tmp/gap/C01_defect_<n>.py, patches .diff):
  1 mix_from(energy_balance=True), receiver among the inlets, solve fails in its phase: other inlets counted twice
    (gap_mix_energy: SELF inlets with fail=2 / multi-phase receiver fail=1)
  2 Stream.copy_flow(exclude=True) with a chemical the source's package lacks: TypeError from `slice()` (gap_move IDs=Ethanol, src B)
  3 MultiStream.copy_flow(exclude=True, remove=True): duplicates (designated phase != phase of a single-phase source) or
    destroys (IDs=...: the kept part is read through a slice, i.e. the row itself, then zeroed) material (gap_move dst=gl)
  4 Stream.split_to(energy_balance=False) into multi-phase outlets: ValueError read-only (gap_split)
  5 separate_out of an empty stream whose phase the MultiStream receiver lacks: UndefinedPhase (gap_separate, all-zero paths)
  6 MultiStream.split_to into outlets holding material in a phase the feed lacks: UndefinedPhase (gap_split feed=lL)
"""
import itertools
import thermosteam as tmo
from engine.api import group
from engine.sx import tmo_world as W
from contracts.C01_conservation import A, B, B2, B4, KINDS as _KINDS, _present

W.preload([A, B, B2, B4])
PKG = {'A': A, 'B': B, 'B2': B2, 'B4': B4}
KINDS = dict(_KINDS, gL=('L', 'g'))       # same phases as (g, l) up to case: the "compatible" branches of the indexers


def _mk(w, name, kind, pkgname, mode):
    phases = KINDS[kind]
    rows = (phases,) if isinstance(phases, str) else phases
    return W.make_stream(w, name, PKG[pkgname], phases, present=_present(PKG[pkgname], rows, mode))


# --------------------------------------------------------------------------- shared helpers

class SolveFailed(RuntimeError):
    """Raised by the stubbed temperature solver when the configuration says the solve fails in the present phase(s)."""


def _stub(w, pkg, fail=0, h=1.0):
    """
    Property package on the real chemicals whose molar enthalpy is the constant `h` in every phase (stream enthalpies are
    then linear in the flows: the material clauses never meet a nonlinear path condition) and whose temperature solves
    return ANY T in [1, 1000] (a fresh leaf, no equation assumed: the material clauses must hold whatever temperature
    comes back); the first `fail` solves raise instead.  h = 0 drives the `not H` side of the H setters.
    """
    th = W.stub_thermo(w, PKG[pkg])
    mix = th.mixture
    base = type(mix)
    left = [fail]

    def solver(kind):
        def solve(self, *args):
            if left[0] > 0:
                left[0] -= 1
                raise SolveFailed(f'{kind}: no root in this phase (stub)')
            T = w.real(f'root{len(self.roots)}.{kind}', lo=1., hi=1000.)
            self.roots.append((kind, T))
            return T
        return solve

    def H(self, phase, mol, T, P):
        return h if mol.dct else 0.

    mix.__class__ = type('AnyRootMixture', (base,), {
        '__slots__': (), 'H': H, 'solve_T_at_HP': solver('HP'), 'solve_T_at_SP': solver('SP'),
        'xsolve_T_at_HP': solver('xHP'), 'xsolve_T_at_SP': solver('xSP')})
    return th


def _rows(kind):
    ph = KINDS[kind]
    return (ph,) if isinstance(ph, str) else ph


def _on(w, name, th, kind, pkg, mode):
    """Stream / MultiStream on a stub package at fixed T, P (no forks on thermal conditions)."""
    return W.stream_on(w, name, th, KINDS[kind], T=300., P=101325., present=_present(PKG[pkg], _rows(kind), mode))


def _add(into, more):
    for c, v in more.items():
        into[c] = into.get(c, 0.) + v
    return into


def _ensure_totals(w, tag, s, expected, channels=True):
    """
    The sentence of the property at its observation points: for every chemical of `s` the total over phases equals
    `expected[CAS]` — read from the raw rows, through `s.mol[i]` (by position) and through `s.imol[ID]` (by name).
    """
    got = W.total_by_CAS(s)
    CASs = s.chemicals.CASs
    IDs = s.chemicals.IDs
    for n, cas in enumerate(CASs):
        conds = [w.eq(got[cas], expected.get(cas, 0.))]
        if channels:
            conds.append(w.eq(s.mol[n], expected.get(cas, 0.)))
            conds.append(w.eq(s.imol[IDs[n]], expected.get(cas, 0.)))
        w.ensure(f'{tag}total[{cas}] (rows, mol[i], imol[ID])', w.And(*conds))
    for cas in expected:
        if cas not in got:
            w.ensure(f'{tag}total[{cas}] not representable in the receiver must be zero', w.eq(expected[cas], 0.))
    return got


# --------------------------------------------------------------------------- mix_from(energy_balance=True): material

def mix_energy_configs(tier):
    quick = tier == 'quick'
    out = []

    def add(recv, inlets, fail=0, opt='', h=1.0):
        nm = (f"recv={recv};in=" + '+'.join(f'{k}{p}:{m}' for k, p, m in inlets) + f';fail={fail}' + (f';{opt}' if opt else '')
              + ('' if h else ';h=0'))
        out.append({'name': nm, 'recv': recv, 'inlets': [list(i) for i in inlets], 'fail': fail, 'opt': opt, 'h': h})

    # single non-empty inlet -> copy_like shortcut (all four receiver/inlet shapes, both package relations)
    for recv in ['l', 'gl']:
        for k, p in [('l', 'A'), ('g', 'B'), ('gl', 'A'), ('gl', 'B'), ('lL', 'A'), ('s', 'B')]:
            add(recv, [(k, p, 'pos+maybe')])
    for recv, k, p in [('gl', 'gL', 'A'), ('gl', 'gL', 'B'), ('gls', 'gl', 'A'), ('gls', 'gL', 'B'), ('Lls', 'lL', 'A')]:
        add(recv, [(k, p, 'pos+maybe')])
    add('l', [('E', 'A', 'empty'), ('g', 'B', 'pos+maybe')])
    add('gl', [('l', 'B', 'pos+maybe'), ('E', 'A', 'empty')])
    add('l', [('SELF', 'A', '')])
    add('gl', [('SELF', 'A', '')])
    add('l', [('l', 'B', 'two-maybe'), ('g', 'A', 'two-maybe')])          # 0, 1 or 2 non-empty inlets decided by the values
    # two or more inlets: H setter between material mix and return
    base = [
        ('l', [('l', 'A', 'pos+maybe'), ('g', 'B', 'pos+maybe')]),
        ('gl', [('l', 'A', 'pos+maybe'), ('g', 'B', 'pos+maybe')]),
        ('l', [('SELF', 'A', ''), ('g', 'B', 'pos+maybe')]),
        ('gl', [('SELF', 'A', ''), ('l', 'B', 'pos+maybe')]),
        ('l', [('gl', 'A', 'pos+maybe'), ('s', 'B', 'pos+maybe')]),
        ('g', [('SELF', 'A', ''), ('SELF', 'A', ''), ('l', 'A', 'pos+maybe')]),
        ('gl', [('SELF', 'A', ''), ('s', 'B', 'pos+maybe')]),
    ]
    for recv, inlets in base:
        for fail in [0, 1, 2]:
            if len(recv) > 1 and fail == 2:
                continue       # a MultiStream receiver has one solve (xsolve) and no retry of its own
            add(recv, inlets, fail)
        if quick and recv == 'g':
            continue
        add(recv, inlets, 0, 'conserve_phases')
        add(recv, inlets, 1, '', 0.0)
    if not quick:
        for recv in ['l', 'g', 'gl', 'Lls']:
            for a, b in itertools.product([('l', 'A'), ('g', 'B'), ('gl', 'B'), ('SELF', 'A'), ('S', 'B')], repeat=2):
                for fail in ([0, 1] if len(recv) > 1 else [0, 1, 2]):
                    add(recv, [a + ('pos+maybe' if a[0] != 'SELF' else '',), b + ('pos+maybe' if b[0] != 'SELF' else '',)], fail)
    seen, uniq = set(), []
    for c in out:
        if c['name'] not in seen:
            seen.add(c['name']); uniq.append(c)
    return uniq


@group('C01/gap_mix_energy', configs=mix_energy_configs,
       functions=['thermosteam._stream:Stream.mix_from', 'thermosteam._stream:Stream.copy_like',
                  'thermosteam._multi_stream:MultiStream.copy_like', 'thermosteam.indexer:ChemicalIndexer.copy_like',
                  'thermosteam.indexer:MaterialIndexer.copy_like', 'thermosteam.indexer:ChemicalIndexer.mix_from',
                  'thermosteam.indexer:MaterialIndexer.mix_from', 'thermosteam._stream:Stream.H (setter)',
                  'thermosteam._multi_stream:MultiStream.H (setter)', 'thermosteam._stream:Stream.phases (setter)',
                  'thermosteam._multi_stream:MultiStream.phases (setter)', 'thermosteam._multi_stream:MultiStream.phase (setter)',
                  'thermosteam.indexer:ChemicalIndexer.to_material_indexer', 'thermosteam.indexer:MaterialIndexer.to_material_indexer',
                  'thermosteam.indexer:MaterialIndexer.to_chemical_indexer', 'thermosteam.indexer:MaterialIndexer.get_phase',
                  'thermosteam.indexer:index_overlap'],
       notes='enthalpy model: constant molar enthalpy (1, or 0 where the name says h=0) in every phase; temperature solves return any T in '
             '[1, 1000] or raise (first n calls); T, P of all streams fixed')
def gap_mix_energy(w, cfg):
    """Mixing with the energy balance switched on conserves every chemical on every route through mix_from."""
    W.reset_caches()
    ths = {}

    def th(p):
        if p not in ths:
            ths[p] = _stub(w, p, cfg['fail'] if p == 'A' else 0, cfg.get('h', 1.0))
        return ths[p]

    has_self = any(k == 'SELF' for k, _, _ in cfg['inlets'])
    recv, _ = _on(w, 'r', th('A'), cfg['recv'], 'A', 'pos+maybe')
    inlets, pre = [], []
    for n, (k, p, m) in enumerate(cfg['inlets']):
        if k == 'SELF':
            inlets.append(recv); pre.append(None)
        else:
            s, _ = _on(w, f'i{n}', th(p), 'l' if k == 'E' else k, p, m)
            inlets.append(s); pre.append(W.snapshot(s))
    expected = {c: 0. for c in recv.chemicals.CASs}
    for s in inlets:
        _add(expected, W.total_by_CAS(s))
    _prime(recv)
    kw = {'conserve_phases': True} if cfg['opt'] == 'conserve_phases' else {}
    try:
        recv.mix_from(inlets, energy_balance=True, **kw)
    except SolveFailed:
        # no phase left to try: the solver's error may be passed on, and then nothing is claimed about the receiver
        w.ensure('solver failure is passed on only after the fall-backs are used up', cfg['fail'] >= 1)
        for n, (s, p0) in enumerate(zip(inlets, pre)):
            if p0 is not None:
                w.ensure(f'inlet {n} unchanged', W.same_snapshot(w, p0, W.snapshot(s)))
        return
    _ensure_totals(w, '', recv, expected)
    _ensure_by_phase_channels(w, '', recv, expected)
    w.ensure('receiver rep_ok (stored entries non-zero)', W.rep_ok(w, recv))
    for n, (s, p0) in enumerate(zip(inlets, pre)):
        if p0 is not None:
            w.ensure(f'inlet {n} unchanged', W.same_snapshot(w, p0, W.snapshot(s)))
    c0 = recv.chemicals.CASs[0]
    w.canary('canary: total = sum + 1', w.eq(W.total_by_CAS(recv)[c0], expected[c0] + 1))
    w.note(expected=expected, got=W.total_by_CAS(recv), phases=recv.phases)


# --------------------------------------------------------------------------- other ways into the same sum

def _prime(s):
    """Read the stream through its keyed accessors and phase views once, so that every lookup cache on the way is warm
    (the reads after the operation then go through whatever was remembered)."""
    IDs = s.chemicals.IDs
    for ID in IDs:
        s.imol[ID]
    if isinstance(s, tmo.MultiStream):
        for ph in s.phases:
            for ID in IDs:
                s.imol[ph, ID]
            s[ph].mol


def _ensure_by_phase_channels(w, tag, s, expected):
    """Multi-phase observation points: the per-phase reads `imol[phase, ID]` and the phase views `s[phase].mol[i]`,
    added up over the phases, give the same per-chemical total."""
    if not isinstance(s, tmo.MultiStream):
        return
    IDs = s.chemicals.IDs
    for n, cas in enumerate(s.chemicals.CASs):
        keyed = views = 0.
        for ph in s.phases:
            keyed = keyed + s.imol[ph, IDs[n]]
            views = views + s[ph].mol[n]
        w.ensure(f'{tag}total[{cas}] over imol[phase, ID] and over the phase views',
                 w.And(w.eq(keyed, expected.get(cas, 0.)), w.eq(views, expected.get(cas, 0.))))


def mix_entry_configs(tier):
    out = []

    def add(case, recv, inlets=(), **kw):
        nm = f"{case};recv={recv};in=" + '+'.join(f'{k}{p}' for k, p in inlets) + ''.join(f';{a}={b}' for a, b in kw.items())
        out.append(dict({'name': nm, 'case': case, 'recv': recv, 'inlets': [list(i) for i in inlets]}, **kw))

    for recv, inlets in [('l', [('l', 'A'), ('g', 'B')]), ('l', [('SELF', 'A'), ('g', 'B')]), ('l', [('l', 'A'), ('l', 'B')]),
                         ('l', [('gl', 'A'), ('s', 'B')]), ('l', [('Eg', 'A'), ('l', 'B')]), ('g', [('SELF', 'A'), ('SELF', 'A')]),
                         ('gl', [('SELF', 'A'), ('s', 'B')]), ('gl', [('l', 'A'), ('L', 'B')]), ('l', [('l', 'B')]),
                         ('l', [('SELF', 'A'), ('lL', 'A'), ('S', 'B')]),
                         # receivers that hold material in both liquids (or both solids) and are themselves an inlet: the phase set is
                         # rebuilt from the grouped phase label, the two rows fold into one (added after seeded change C01_8)
                         ('lL', [('SELF', 'A'), ('g', 'A')]), ('lL', [('SELF', 'A'), ('l', 'B')])]:
        add('conserve_phases', recv, inlets)
    for recv, inlets in [('gl', [('gL', 'A')]), ('gl', [('gL', 'B'), ('l', 'A')]), ('gL', [('gl', 'B'), ('SELF', 'A')]), ('l', [('gL', 'B'), ('L', 'A')])]:
        add('plain', recv, inlets)
    for cls, pkg, inlets in [('Stream', 'A', [('l', 'A'), ('g', 'B')]), ('Stream', 'A', [('l', 'B')]), ('Stream', 'A', []),
                             ('Stream', 'B4', [('gl', 'A'), ('l', 'B')]), ('Stream', 'A', [('gl', 'B')]),
                             ('MultiStream', 'A', [('l', 'A'), ('g', 'B')]), ('MultiStream', 'B4', [('s', 'B'), ('gl', 'A')]),
                             ('MultiStream', 'A', [('lL', 'A')])]:
        add('sum', cls, inlets, pkg=pkg)
    for case in ['only-view-of-receiver', 'views-of-receiver', 'one-view-of-receiver+x', 'views-of-other', 'receiver-is-view-of-inlet',
                 'receiver-is-view-of-inlet+x', 'proxy+x', 'flow_proxy+x', 'self+flow_proxy', 'multi:flow_proxy+s', 'multi:proxy+self']:
        add(case, 'gl' if ('view' in case and 'other' not in case) or case.startswith('multi') else 'l')
    return out


@group('C01/gap_mix_entry', configs=mix_entry_configs,
       functions=['thermosteam._stream:Stream.mix_from', 'thermosteam._stream:Stream.sum', 'thermosteam._stream:Stream.phases (setter)',
                  'thermosteam._multi_stream:MultiStream.phases (setter)', 'thermosteam._multi_stream:MultiStream.__getitem__',
                  'thermosteam._stream:Stream.proxy', 'thermosteam._stream:Stream.flow_proxy',
                  'thermosteam.indexer:ChemicalIndexer.mix_from', 'thermosteam.indexer:MaterialIndexer.mix_from',
                  'thermosteam.indexer:ChemicalIndexer.to_material_indexer', 'thermosteam.indexer:MaterialIndexer.to_material_indexer',
                  'thermosteam.indexer:MaterialIndexer._expand_phases', 'thermosteam.indexer:MaterialIndexer.get_phase',
                  'thermosteam.indexer:MaterialIndexer.__getitem__', 'thermosteam.indexer:ChemicalIndexer.__getitem__',
                  'thermosteam.base.sparse:SparseVector.mix_from'])
def gap_mix_entry(w, cfg):
    """The receiver's per-chemical totals equal the sum of the inlets' totals whichever entry point and whichever aliasing."""
    W.reset_caches()
    case = cfg['case']
    frames = []

    def inlet(n, k, p):
        if k == 'Eg':
            s, _ = _mk(w, f'i{n}', 'g', p, 'empty')
        else:
            s, _ = _mk(w, f'i{n}', k, p, 'two-maybe' if len(k) == 1 else 'pos+maybe')
        frames.append((n, s, W.snapshot(s)))
        return s

    if case in ('conserve_phases', 'plain'):
        has_self = any(k == 'SELF' for k, _ in cfg['inlets'])
        recv, _ = _mk(w, 'r', cfg['recv'], 'A', 'two-maybe' if has_self else 'pos+maybe')
        inlets = [recv if k == 'SELF' else inlet(n, k, p) for n, (k, p) in enumerate(cfg['inlets'])]
        expected = {}
        for s in inlets: _add(expected, W.total_by_CAS(s))
        _prime(recv)
        recv.mix_from(inlets, energy_balance=False, conserve_phases=case == 'conserve_phases')
    elif case == 'sum':
        inlets = [inlet(n, k, p) for n, (k, p) in enumerate(cfg['inlets'])]
        expected = {}
        for s in inlets: _add(expected, W.total_by_CAS(s))
        cls = getattr(tmo, cfg['recv'])
        recv = cls.sum(inlets, None, W.thermo(PKG[cfg['pkg']]), energy_balance=False)
        w.ensure('sum returns a new stream of the class it was called on', isinstance(recv, tmo.Stream) and all(recv is not s for s in inlets))
    else:
        if cfg['recv'] == 'gl':
            m, _ = _mk(w, 'm', 'gl', 'A', 'two-maybe')
        else:
            m, _ = _mk(w, 'm', 'l', 'A', 'two-maybe')
        _prime(m)
        x = lambda: inlet(9, 'l', 'B')
        if case == 'only-view-of-receiver':
            # one inlet: the copy shortcut of mix_from (taken whatever energy_balance says; no temperature solve is involved);
            # the inlet is a row of the receiver itself (added after a round-4 side finding: the receiver came out empty)
            recv, inlets = m, [m['l']]
        elif case == 'views-of-receiver':
            recv, inlets = m, [m['l'], m['g']]
        elif case == 'one-view-of-receiver+x':
            recv, inlets = m, [m['g'], x()]
        elif case == 'views-of-other':
            o, _ = _mk(w, 'o', 'gl', 'A', 'two-maybe')
            frames.append(('o', o, W.snapshot(o)))
            recv, inlets = m, [o['l'], o['g']]
        elif case == 'receiver-is-view-of-inlet':
            recv, inlets = m['l'], [m]
        elif case == 'receiver-is-view-of-inlet+x':
            recv, inlets = m['l'], [x(), m]
        elif case == 'proxy+x':
            recv, inlets = m, [m.proxy(), x()]
        elif case == 'flow_proxy+x':
            recv, inlets = m, [x(), m.flow_proxy()]
        elif case == 'self+flow_proxy':
            recv, inlets = m, [m, m.flow_proxy()]
        elif case == 'multi:flow_proxy+s':
            recv, inlets = m, [m.flow_proxy(), inlet(8, 's', 'B')]
        elif case == 'multi:proxy+self':
            recv, inlets = m, [m.proxy(), m]
        else:
            raise ValueError(case)
        expected = {}
        for s in inlets: _add(expected, W.total_by_CAS(s))
        g_row_before = W.row_by_CAS(m, 'g') if case.startswith('receiver-is-view') else None
        recv.mix_from(inlets, energy_balance=(case == 'only-view-of-receiver'))
        if g_row_before is not None:
            after = W.row_by_CAS(m, 'g')
            w.ensure('the phase of the inlet that is not the receiver is unchanged',
                     w.And(*[w.eq(after[c], g_row_before[c]) for c in after]))
    got = _ensure_totals(w, '', recv, expected)
    _ensure_by_phase_channels(w, '', recv, expected)
    w.ensure('receiver rep_ok (stored entries non-zero)', W.rep_ok(w, recv))
    for n, s, p0 in frames:
        w.ensure(f'inlet {n} unchanged', W.same_snapshot(w, p0, W.snapshot(s)))
    c0 = recv.chemicals.CASs[0]
    w.canary('canary: total = sum + 1', w.eq(got[c0], expected.get(c0, 0.) + 1))
    w.note(expected=expected, got=got, phases=recv.phases)


# --------------------------------------------------------------------------- operator forms (energy balance on by default)

def operator_configs(tier):
    out = []
    for op in ['add', 'builtin-sum', 'iadd', 'add-then-isub', 'iadd-then-isub']:
        for a, b in [(('l', 'A'), ('g', 'B')), (('gl', 'A'), ('l', 'B')), (('l', 'A'), ('l', 'A'))]:
            for fail in [0, 1]:
                if fail and (op in ('builtin-sum',) or a[0] == 'gl'):
                    continue       # with a multi-phase receiver among the inlets a failing solve is the known double count of gap_mix_energy
                out.append({'name': f'{op};a={a[0]}{a[1]};b={b[0]}{b[1]};fail={fail}', 'op': op, 'a': list(a), 'b': list(b), 'fail': fail})
    return out


@group('C01/gap_operators', configs=operator_configs,
       functions=['thermosteam._stream:Stream.__add__', 'thermosteam._stream:Stream.__radd__', 'thermosteam._stream:Stream.__iadd__',
                  'thermosteam._stream:Stream.__isub__', 'thermosteam._stream:Stream.sum', 'thermosteam._stream:Stream.mix_from',
                  'thermosteam._stream:Stream.separate_out', 'thermosteam._stream:Stream.copy_like',
                  'thermosteam._stream:Stream.copy_thermal_condition', 'thermosteam._stream:Stream.H (setter)'],
       notes='enthalpy model: constant molar enthalpy 1 in every phase; temperature solves return any T in [1, 1000] or raise '
             '(first n calls); T, P of all streams fixed')
def gap_operators(w, cfg):
    """s1 + s2, sum([...]), s1 += s2 conserve every chemical; s -= s2 after adding s2 restores the remainder."""
    W.reset_caches()
    thA = _stub(w, 'A', cfg['fail'])
    ths = {'A': thA}
    if cfg['b'][1] != 'A':
        ths[cfg['b'][1]] = _stub(w, cfg['b'][1])
    tmo.settings.set_thermo(thA)        # a + b builds its result on the default package
    a, _ = _on(w, 'a', ths[cfg['a'][1]], cfg['a'][0], cfg['a'][1], 'pos+maybe')
    b, _ = _on(w, 'b', ths[cfg['b'][1]], cfg['b'][0], cfg['b'][1], 'pos+maybe')
    ta, tb = W.total_by_CAS(a), W.total_by_CAS(b)
    pre_a, pre_b = W.snapshot(a), W.snapshot(b)
    op = cfg['op']
    both = _add(dict(ta), tb)
    try:
        if op == 'add':
            r = a + b; expected = both
        elif op == 'builtin-sum':
            r = sum([a, b, a]); expected = _add(dict(both), ta)
        elif op == 'iadd':
            r = a; r += b; expected = both
        elif op == 'add-then-isub':
            r = a + b
            w.ensure('a + b: totals', w.And(*[w.eq(v, both.get(c, 0.)) for c, v in W.total_by_CAS(r).items()]))
            r -= b; expected = ta
        elif op == 'iadd-then-isub':
            r = a; r += b; r -= b; expected = ta
    except SolveFailed:
        w.ensure('solver failure is passed on only after the fall-backs are used up', cfg['fail'] >= 1 and cfg['a'][0] not in 'lg')
        return
    _ensure_totals(w, '', r, expected)
    _ensure_by_phase_channels(w, '', r, expected)
    w.ensure('result rep_ok', W.rep_ok(w, r))
    if r is not a:
        w.ensure('left operand unchanged', W.same_snapshot(w, pre_a, W.snapshot(a)))
        w.ensure('result is a new stream', r is not b)
    w.ensure('right operand unchanged', W.same_snapshot(w, pre_b, W.snapshot(b)))
    c0 = r.chemicals.CASs[0]
    w.canary('canary: total + 1', w.eq(W.total_by_CAS(r)[c0], expected.get(c0, 0.) + 1))


# --------------------------------------------------------------------------- split_to: what C01/split_to leaves out

def gap_split_configs(tier):
    out = []

    def add(case, feed, outs, split, eb, **kw):
        nm = f'{case};feed={feed};outs={outs[0]}+{outs[1]};split={split};eb={eb}' + ''.join(f';{a}={b}' for a, b in kw.items())
        out.append(dict({'name': nm, 'case': case, 'feed': feed, 'outs': list(outs), 'split': split, 'eb': eb}, **kw))

    for outs in [('lA', 'lB4'), ('lB4', 'lB4')]:
        for split in ['scalar', 'vector']:
            for eb in [False, True]:
                add('plain', 'gl', outs, split, eb)
    add('plain', 'Lls', ('lA', 'lA'), 'scalar', False)
    add('plain', 'Lls', ('lA', 'lA'), 'scalar', True)
    if tier == 'thorough':
        add('plain', 'Lls', ('lA', 'lB4'), 'vector', True)
        add('plain', 'Lls', ('lB4', 'lB4'), 'vector', False)
        add('plain', 'Lls', ('glA', 'LlsA'), 'vector', True)
    for eb in [False, True]:
        add('plain', 'gl', ('glA', 'glA'), 'vector', eb)            # multi-phase outlets with prior contents in both phases
        add('plain', 'gl', ('glA', 'lA'), 'scalar', eb)
        add('plain', 'gl', ('lB4', 'glA'), 'scalar', eb)
        add('plain', 'l', ('glA', 'glA'), 'scalar', eb)             # single-phase feed, multi-phase outlets
        add('plain', 'g', ('lA', 'glA'), 'vector', eb)
    add('plain', 'lL', ('glA', 'glA'), 'scalar', True)              # outlets hold material in a phase the feed does not have
    add('plain', 'lL', ('lA', 'glA'), 'scalar', False)
    add('view', 'gl', ('lA', 'lB4'), 'vector', True)                # the feed is a phase view of a MultiStream
    add('view', 'gl', ('lA', 'lA'), 'scalar', False)
    for first, second, eb2 in [('l', 'g', True), ('gl', 'l', True), ('l', 'gl', False), ('gl', 'g', False), ('l', 'l', False)]:
        for outs in [('lA', 'lB4')] + ([('lA', 'lA')] if first != second else []):
            add('twice', second, outs, 'vector', eb2, first=first)
    return out


@group('C01/gap_split', configs=gap_split_configs,
       functions=['thermosteam._stream:Stream.split_to', 'thermosteam._multi_stream:MultiStream.split_to',
                  'thermosteam._multi_stream:MultiStream.__getitem__', 'thermosteam._multi_stream:MultiStream.phases (setter)',
                  'thermosteam._stream:Stream.phases (setter)', 'thermosteam._multi_stream:MultiStream.mol',
                  'thermosteam.indexer:MaterialIndexer.__setitem__', 'thermosteam.indexer:ChemicalIndexer.__setitem__',
                  'thermosteam.indexer:set_sparse_chemical_data'])
def gap_split(w, cfg):
    """s1 = split*feed and s2 = feed - split*feed per chemical (per phase where the outlets keep phases), feed unchanged."""
    import numpy as np
    W.reset_caches()
    case = cfg['case']

    def outlet(n, spec):
        kind, pkg = spec[:-1] if spec.endswith('A') else spec[:-2], 'A' if spec.endswith('A') else 'B4'
        # arbitrary prior contents that the split must overwrite (every row)
        present = {'default': 'zero'}
        for ph in _rows(kind):
            present[ph, 'Water'] = 'pos'
            present[ph, 'Ethanol'] = 'pos'
        return W.make_stream(w, f'o{n}', PKG[pkg], KINDS[kind], present=present)[0]

    s1, s2 = outlet(1, cfg['outs'][0]), outlet(2, cfg['outs'][1])

    def mksplit(tag):
        if cfg['split'] == 'scalar':
            x = w.real(f'split{tag}', lo=0, hi=1)
            return x, {W.chemical(i).CAS: x for i in A}
        vals = [w.real(f'split{tag}.{ID}', lo=0, hi=1) for ID in A]
        return np.array(vals, dtype=object if w.symbolic else float), {W.chemical(i).CAS: v for i, v in zip(A, vals)}

    if case == 'twice':
        # an earlier split onto the same outlets (fixed presence pattern, split strictly inside (0, 1): it is only the history)
        first, _ = _mk(w, 'f0', cfg['first'], 'A', 'both-pos')
        first.split_to(s1, s2, w.real('split0', lo=0, hi=1, lo_strict=True, hi_strict=True), energy_balance=True)
    if case == 'view':
        whole, _ = _mk(w, 'f', 'gl', 'A', 'pos+maybe')
        feed = whole['l']
        other_row = W.row_by_CAS(whole, 'g')
    else:
        feed, _ = _mk(w, 'f', cfg['feed'], 'A', 'pos+maybe' if len(cfg['feed']) > 1 else 'two-maybe')
    split, xs = mksplit('')
    pre = W.snapshot(feed)
    feed_rows = {ph: W.row_by_CAS(feed, ph) for ph, _ in W.rows_of(feed)}
    feed_total = W.total_by_CAS(feed)
    feed.split_to(s1, s2, split, energy_balance=cfg['eb'])
    w.ensure('feed unchanged', W.same_snapshot(w, pre, W.snapshot(feed)))
    if case == 'view':
        after = W.row_by_CAS(whole, 'g')
        w.ensure('the other phase of the stream the feed is a view of is unchanged', w.And(*[w.eq(after[c], other_row[c]) for c in after]))
    for nm, s, frac in (('s1', s1, lambda c: xs[c] * feed_total[c]), ('s2', s2, lambda c: feed_total[c] - xs[c] * feed_total[c])):
        exp = {c: frac(c) for c in feed_total}
        _ensure_totals(w, f'{nm}: ', s, exp)
        _ensure_by_phase_channels(w, f'{nm}: ', s, exp)
        if isinstance(s, tmo.MultiStream) and isinstance(feed, tmo.MultiStream):
            # both sides keep phases: the statement holds phase by phase
            for ph, f in feed_rows.items():
                r = W.row_by_CAS(s, ph)
                for c in f:
                    e = xs[c] * f[c] if nm == 's1' else f[c] - xs[c] * f[c]
                    w.ensure(f'{nm}[{ph},{c}] = its share of the feed in that phase', w.eq(r.get(c, 0.), e))
    w.ensure('outlets rep_ok', w.And(W.rep_ok(w, s1), W.rep_ok(w, s2)))
    c0 = feed.chemicals.CASs[0]
    w.canary('canary: s1 = feed + 1', w.eq(W.total_by_CAS(s1)[c0], feed_total[c0] + 1))


# --------------------------------------------------------------------------- separate_out: what C01/separate_out leaves out

def gap_sep_configs(tier):
    out = []

    def add(recv, a, b, which, eb=False, fail=0, rows_may_be_empty=False):
        out.append({'name': f'recv={recv};a={a[0]}{a[1]};b={b[0]}{b[1]};out={which};eb={eb}' + (f';fail={fail}' if fail else '')
                    + (';rows-may-be-empty' if rows_may_be_empty else ''),
                    'recv': recv, 'a': list(a), 'b': list(b), 'which': which, 'eb': eb, 'fail': fail, 'rme': rows_may_be_empty})

    for recv in ['l', 'gl']:
        add(recv, ('l', 'A'), ('g', 'B'), 'a')
        add(recv, ('gl', 'A'), ('l', 'B'), 'a')
        add(recv, ('l', 'B'), ('gl', 'B'), 'a+b')
        add(recv, ('g', 'A'), ('l', 'B'), 'b+a')
        add(recv, ('l', 'A'), ('g', 'B'), 'self')
        # the separated stream brought a phase the receiver did not have
        add(recv, ('l', 'A'), ('s', 'B'), 'b')
        add(recv, ('g', 'B'), ('lL', 'A'), 'b')
        add(recv, ('S', 'A'), ('l', 'A'), 'a')
        add(recv, ('lL', 'B'), ('gl', 'A'), 'a')
        # with the energy balance on
        add(recv, ('l', 'A'), ('g', 'B'), 'b', True)
        add(recv, ('gl', 'A'), ('l', 'B'), 'b', True, 1)
        add(recv, ('l', 'A'), ('g', 'B'), 'self', True)
    add('gl', ('l', 'A'), ('gL', 'A'), 'b')
    add('gl', ('g', 'A'), ('gL', 'B'), 'b')
    add('gL', ('gl', 'B'), ('l', 'A'), 'a')
    add('gl', ('l', 'A'), ('lL', 'A'), 'b', rows_may_be_empty=True)
    add('gl', ('l', 'A'), ('gl', 'B'), 'b', rows_may_be_empty=True)
    add('Lls', ('l', 'A'), ('gl', 'B'), 'b')
    add('Lls', ('s', 'B'), ('lL', 'A'), 'a')
    return out


@group('C01/gap_separate', configs=gap_sep_configs,
       functions=['thermosteam._stream:Stream.separate_out', 'thermosteam.indexer:ChemicalIndexer.separate_out',
                  'thermosteam.indexer:MaterialIndexer.separate_out', 'thermosteam.indexer:MaterialIndexer.sum_across_phases',
                  'thermosteam._stream:Stream.mix_from', 'thermosteam.indexer:MaterialIndexer._expand_phases',
                  'thermosteam._stream:Stream.empty', 'thermosteam._stream:Stream.H (setter)', 'thermosteam._multi_stream:MultiStream.H (setter)'],
       notes='energy_balance=True configurations: constant molar enthalpy 1 in every phase; temperature solves return any T in '
             '[1, 1000] or raise (first n calls); T, P of all streams fixed')
def gap_separate(w, cfg):
    """Separating a stream back out of the mixture it was mixed into restores the remainder (either inlet, both, itself)."""
    W.reset_caches()
    eb = cfg['eb']
    if eb:
        ths = {}
        def mk(name, kind, pkg, mode):
            if pkg not in ths:
                ths[pkg] = _stub(w, pkg, cfg['fail'] if pkg == 'A' else 0)
            return _on(w, name, ths[pkg], kind, pkg, mode)[0]
    else:
        def mk(name, kind, pkg, mode):
            return _mk(w, name, kind, pkg, mode)[0]
    recv = mk('r', cfg['recv'], 'A', 'empty')
    a = mk('a', cfg['a'][0], cfg['a'][1], 'pos+maybe' if eb or len(cfg['a'][0]) > 1 else 'two-maybe')
    b = mk('b', cfg['b'][0], cfg['b'][1], 'pos+maybe' if eb or (len(cfg['b'][0]) > 1 and not cfg.get('rme')) else 'two-maybe')
    ta, tb = W.total_by_CAS(a), W.total_by_CAS(b)
    pre_a, pre_b = W.snapshot(a), W.snapshot(b)
    zero = {}
    try:
        recv.mix_from([a, b], energy_balance=eb)
        _prime(recv)
        which = cfg['which']
        if which == 'a':
            recv.separate_out(a, energy_balance=eb); expected = tb
        elif which == 'b':
            recv.separate_out(b, energy_balance=eb); expected = ta
        elif which == 'a+b':
            recv.separate_out(a, energy_balance=eb); recv.separate_out(b, energy_balance=eb); expected = zero
        elif which == 'b+a':
            recv.separate_out(b, energy_balance=eb)
            _ensure_totals(w, 'after the first separation: ', recv, ta, channels=False)
            recv.separate_out(a, energy_balance=eb); expected = zero
        elif which == 'self':
            recv.separate_out(recv, energy_balance=eb); expected = zero
    except SolveFailed:
        w.ensure('solver failure is passed on only after the fall-backs are used up', cfg['fail'] >= 1)
        return
    got = _ensure_totals(w, '', recv, expected)
    _ensure_by_phase_channels(w, '', recv, expected)
    w.ensure('inlets unchanged', w.And(W.same_snapshot(w, pre_a, W.snapshot(a)), W.same_snapshot(w, pre_b, W.snapshot(b))))
    w.ensure('rep_ok', W.rep_ok(w, recv))
    c0 = recv.chemicals.CASs[0]
    w.canary('canary: remainder + 1', w.eq(got[c0], expected.get(c0, 0.) + 1))


# the two-step histories of C01/history on MultiStream receivers in the quick tier (there: thorough only)
from contracts.C01_conservation import history as _history_body


def gap_history_configs(tier):
    out = []
    pairs = [('mix', 'sep'), ('sep', 'mix2'), ('sep', 'sep'), ('copy_like', 'sep'), ('sep', 'copy_like'), ('copy_like', 'copy_like'),
             ('mix2', 'copy_like'), ('mix', 'mix2')]
    for recv in ['gl', 'Lls']:
        for first, second in pairs:
            for p1, p2 in (('B', 'B2'), ('B2', 'B')):
                for k in ['l', 'gl']:
                    if (recv == 'Lls' or k == 'gl') and (p1 == 'B2' or (first, second) not in pairs[:4]):
                        continue
                    out.append({'name': f'recv={recv};{first}[{k}{p1}]>{second}[{k}{p2}]', 'recv': recv, 'ops': [first, second],
                                'pkgs': [p1, p2], 'kind': k})
    return out


group('C01/gap_history_multi', configs=gap_history_configs,
      functions=['thermosteam.indexer:index_overlap', 'thermosteam.indexer:MaterialIndexer.mix_from',
                 'thermosteam.indexer:MaterialIndexer.separate_out', 'thermosteam.indexer:MaterialIndexer.copy_like',
                 'thermosteam._multi_stream:MultiStream.copy_like', 'thermosteam._stream:Stream.mix_from',
                 'thermosteam._stream:Stream.separate_out'],
      notes='two operations in sequence on multi-phase receivers of one package, caches reset only before the first; inlets on two '
            'foreign packages listing the same chemicals in different orders')(_history_body)


# --------------------------------------------------------------------------- copy_flow(remove=True, exclude=True), chains of moves

IDS = {'Water': 'Water', 'Ethanol': 'Ethanol', 'tWaterMethanol': ('Water', 'Methanol'), 'lMethanol': ['Methanol'],
       'lEthanolWater': ['Ethanol', 'Water'], 'all': ...}


def gap_move_configs(tier):
    out = []

    def add(dst, src, ids, phase=None, exclude=True, chain=False):
        nm = f'dst={dst};src={src[0]}{src[1]};IDs={ids}' + (f';phase={phase}' if phase else '') + f';exclude={exclude}' + (';chain' if chain else '')
        out.append({'name': nm, 'dst': dst, 'src': list(src), 'ids': ids, 'phase': phase, 'exclude': exclude, 'chain': chain})

    for src in [('l', 'A'), ('gl', 'A'), ('l', 'B'), ('gl', 'B')]:
        for ids in ['Water', 'tWaterMethanol', 'lMethanol', 'Ethanol', 'lEthanolWater']:
            if src[0] == 'gl' and ids in ('lMethanol', 'lEthanolWater'):
                continue
            add('l', src, ids)
    add('l', ('g', 'B'), 'all')
    for src in ['l', 'g', 'gl']:
        for phase in ['...', 'g', 'l']:
            for ids in ['Water', 'tWaterMethanol']:
                if ids != 'Water' and phase == '...':
                    continue
                add('gl', (src, 'A'), ids, phase)
    add('gl', ('gl', 'A'), 'all', 'g')
    add('gl', ('l', 'A'), 'all', '...')
    add('gl', ('l', 'Aclone'), 'Water', 'l')
    add('gl', ('gl', 'Aclone'), 'lMethanol', '...', False)
    # chains: src -> mid -> dst, nothing duplicated or lost on the way
    add('l', ('l', 'A'), 'all', None, False, True)
    add('l', ('gl', 'B'), 'tWaterMethanol', None, False, True)
    add('l', ('l', 'B'), 'Water', None, True, True)
    add('gl', ('gl', 'A'), 'Water', '...', False, True)
    add('gl', ('l', 'A'), 'tWaterMethanol', 'l', True, True)
    return out


_clone = {}


def _clone_thermo():
    """A second package object with the chemicals of A in the same order (MultiStream.copy_flow accepts it)."""
    if 'A' not in _clone:
        cs = tmo.Chemicals([W.chemical(i) for i in A])
        cs.compile()
        _clone['A'] = tmo.Thermo(cs)
    return _clone['A']


_clone_thermo()


@group('C01/gap_move', configs=gap_move_configs,
       functions=['thermosteam._stream:Stream.copy_flow', 'thermosteam._multi_stream:MultiStream.copy_flow',
                  'thermosteam.indexer:MaterialIndexer.get_phase_index', 'thermosteam.base.sparse:SparseArray.__setitem__',
                  'thermosteam.base.sparse:SparseArray.__getitem__', 'thermosteam.base.sparse:SparseVector.__setitem__'])
def gap_move(w, cfg):
    """Copy with removal: what the source loses is exactly what the (initially empty) target then holds; nothing else moves."""
    W.reset_caches()
    _clone_thermo().chemicals._index_cache.clear()
    ids = IDS[cfg['ids']]
    ids_list = [] if ids is ... else ([ids] if isinstance(ids, str) else list(ids))
    exclude = cfg['exclude']
    multi_dst = cfg['dst'] == 'gl'
    kind, pkg = cfg['src']

    def mk(name, kind, pkg, mode):
        if pkg == 'Aclone':
            th = _clone_thermo()
            ph = KINDS[kind]
            s = tmo.Stream(None, thermo=th, phase=ph) if isinstance(ph, str) else tmo.MultiStream(None, phases=ph, thermo=th)
            W.plant_flows(w, s, name, present=_present(A, _rows(kind), mode))
            return s
        return _mk(w, name, kind, pkg, mode)[0]

    def move(dst, src):
        if isinstance(dst, tmo.MultiStream):
            phase = ... if cfg['phase'] in (None, '...') else cfg['phase']
            dst.copy_flow(src, phase, ids, remove=True, exclude=exclude)
        else:
            dst.copy_flow(src, ids, remove=True, exclude=exclude)

    src = mk('s', kind, pkg, 'two-maybe')
    dst = mk('d', cfg['dst'], 'A', 'empty')
    before = W.total_by_CAS(src)
    rows_before = {ph: W.row_by_CAS(src, ph) for ph, _ in W.rows_of(src)}
    _prime(dst)
    if cfg['chain']:
        mid = mk('m', cfg['dst'], 'A', 'empty')
        move(mid, src)
        held_mid = W.total_by_CAS(mid)
        move(dst, mid)
        after_mid = W.total_by_CAS(mid)
    else:
        move(dst, src)
    after = W.total_by_CAS(src)
    held = W.total_by_CAS(dst)
    for cas in dst.chemicals.CASs:
        if cfg['chain']:
            w.ensure(f'[{cas}] source + intermediate + target hold what the source held before',
                     w.eq(after.get(cas, 0.) + after_mid[cas] + held[cas], before.get(cas, 0.)))
            w.ensure(f'[{cas}] nobody gains out of nothing',
                     w.And(w.le(after.get(cas, 0.), before.get(cas, 0.)), w.le(after_mid[cas], held_mid[cas]), w.le(0., after.get(cas, 0.)),
                           w.le(0., after_mid[cas]), w.le(0., held[cas])))
        else:
            w.ensure(f'[{cas}] lost by the source = held by the target', w.eq(before.get(cas, 0.) - after.get(cas, 0.), held[cas]))
            w.ensure(f'[{cas}] source never gains and never goes negative',
                     w.And(w.le(after.get(cas, 0.), before.get(cas, 0.)), w.le(0., after.get(cas, 0.))))
    _ensure_totals(w, 'target: ', dst, held)        # the keyed / positional reads agree with the rows
    _ensure_by_phase_channels(w, 'target: ', dst, held)
    w.ensure('rep_ok', w.And(W.rep_ok(w, dst), W.rep_ok(w, src)))
    if not cfg['chain']:
        # which chemicals move is fixed by the call: the designated ones (all but the designated ones with exclude=True),
        # for a multi-phase target restricted to the designated phase
        named = {W.chemical(i).CAS for i in ids_list}
        phase = None if cfg['phase'] in (None, '...') else cfg['phase']
        for ph, row in rows_before.items():
            row_after = W.row_by_CAS(src, ph)
            for cas, v in row.items():
                in_sel = (ids is ... or cas in named) and (phase is None or phase == ph or not multi_dst)
                if multi_dst and phase is not None and len(rows_before) == 1 and phase != ph and not exclude:
                    moves = False           # single-phase source of another phase than requested: nothing is copied
                else:
                    moves = in_sel != exclude
                if moves:
                    w.ensure(f'[{ph},{cas}] designated to move: the source gives all of it up', w.eq(row_after[cas], 0.))
                else:
                    w.ensure(f'[{ph},{cas}] not designated: stays in the source', w.eq(row_after[cas], v))
    c0 = dst.chemicals.CASs[0]
    w.canary('canary: the source keeps what the target received', w.And(w.gt(held[c0], 0.), w.eq(after.get(c0, 0.), before.get(c0, 0.))))


# --------------------------------------------------------------------------- scaling through histories and shared data

def gap_scale_configs(tier):
    out = []
    for kind in ['l', 'gl']:
        for seq in ['scale>imul', 'mul>rmul', 'imul>neg', 'mix>scale', 'scale>mix', 'flow_proxy:imul', 'proxy:scale', 'view:imul',
                    'copy>scale']:
            if seq == 'view:imul' and kind == 'l':
                continue
            out.append({'name': f'kind={kind};{seq}', 'kind': kind, 'seq': seq})
    return out


@group('C01/gap_scale', configs=gap_scale_configs,
       functions=['thermosteam._stream:Stream.scale', 'thermosteam._stream:Stream.__mul__', 'thermosteam._stream:Stream.__imul__',
                  'thermosteam._stream:Stream.__rmul__', 'thermosteam._stream:Stream.__neg__', 'thermosteam._stream:Stream.copy',
                  'thermosteam._stream:Stream.flow_proxy', 'thermosteam._stream:Stream.proxy',
                  'thermosteam.base.sparse:SparseVector.__imul__', 'thermosteam.base.sparse:SparseArray.__imul__'])
def gap_scale(w, cfg):
    """Multiplying a stream by k multiplies every flow by k: twice in a row, after/before a mix, seen through shared data."""
    W.reset_caches()
    s, _ = _mk(w, 's', cfg['kind'], 'A', 'pos+maybe')
    k = w.real('k')
    m = w.real('m')
    pre = W.snapshot(s)
    seq = cfg['seq']
    factor = None
    untouched = None
    if seq == 'scale>imul':
        s.scale(k); s *= m; r = s; factor = k * m
    elif seq == 'mul>rmul':
        r = m * (s * k); factor = k * m; untouched = s
    elif seq == 'imul>neg':
        s *= k; r = -s; factor = -k
        w.ensure('operand of the negation keeps k * flow',
                 w.And(*[w.eq(W.snapshot(s)['flows'].get(key, 0.), k * pre['flows'].get(key, 0.)) for key in sorted(pre['flows'])]))
    elif seq in ('mix>scale', 'scale>mix'):
        x, _ = _mk(w, 'x', 'l', 'B', 'pos+maybe')
        tx = W.total_by_CAS(x)
        ts = W.total_by_CAS(s)
        if seq == 'mix>scale':
            s.mix_from([s, x], energy_balance=False); s.scale(k)
            expected = {c: k * (ts[c] + tx.get(c, 0.)) for c in ts}
        else:
            s.scale(k); s.mix_from([x, s], energy_balance=False)
            expected = {c: k * ts[c] + tx.get(c, 0.) for c in ts}
        _ensure_totals(w, '', s, expected)
        _ensure_by_phase_channels(w, '', s, expected)
        w.ensure('rep_ok', W.rep_ok(w, s))
        c0 = s.chemicals.CASs[0]
        w.canary('canary: flows unchanged by scaling', w.eq(W.total_by_CAS(s)[c0], ts[c0] + tx.get(c0, 0.) + 1))
        return
    elif seq == 'flow_proxy:imul':
        p = s.flow_proxy(); p *= k; r = s; factor = k          # the data is shared: both report k * flow
        w.ensure('proxy reports the same flows', W.same_snapshot(w, W.snapshot(p), W.snapshot(s)))
    elif seq == 'proxy:scale':
        p = s.proxy(); s.scale(k); r = p; factor = k
    elif seq == 'view:imul':
        v = s['l']; v *= k; r = s
        post = W.snapshot(s)
        for key in sorted(set(pre['flows']) | set(post['flows'])):
            f = k if key[0] == 'l' else 1.
            w.ensure(f'flow{list(key)}: the scaled phase is multiplied by k, the other phase is left alone',
                     w.eq(post['flows'].get(key, 0.), f * pre['flows'].get(key, 0.)))
        w.ensure('rep_ok', W.rep_ok(w, s))
        w.canary('canary: flows unchanged by scaling', w.eq(post['flows'].get(('l', s.chemicals.CASs[0]), 0.), pre['flows'][('l', s.chemicals.CASs[0])] + 1))
        return
    elif seq == 'copy>scale':
        c = s.copy(); c.scale(k); r = c; factor = k; untouched = s
    post = W.snapshot(r)
    keys = set(pre['flows']) | set(post['flows'])
    for key in sorted(keys):
        w.ensure(f'flow{list(key)} multiplied by the factor', w.eq(post['flows'].get(key, 0.), factor * pre['flows'].get(key, 0.)))
    exp_tot = {}
    for (ph, cas), v in pre['flows'].items():
        exp_tot[cas] = exp_tot.get(cas, 0.) + factor * v
    _ensure_totals(w, '', r, exp_tot)
    if untouched is not None:
        w.ensure('operand unchanged', W.same_snapshot(w, pre, W.snapshot(untouched)))
    w.ensure('rep_ok', W.rep_ok(w, r))
    key = sorted(pre['flows'])[0]
    w.canary('canary: flows unchanged by scaling', w.eq(post['flows'].get(key, 0.), pre['flows'][key] + 1))


# --------------------------------------------------------------------------- mode B: the VLE route of mix_from on real data

def _vle_thermo(key):
    return W.thermo(PKG[key])          # the real packages preloaded at import time (before the workers fork)


def vle_configs(tier):
    I = lambda kind, pkg, T, flows: {'kind': kind, 'pkg': pkg, 'T': T, 'flows': flows}
    W1 = {'l': {'Water': 20., 'Ethanol': 10.}}
    G1 = {'g': {'Water': 2., 'Methanol': 8.}}
    L2 = {'l': {'Methanol': 5., 'Water': 1.}}
    M1 = {'g': {'Ethanol': 3., 'Water': 1.}, 'l': {'Water': 6.}}
    sets = [
        ('l+g', [I('l', 'A', 330., W1), I('g', 'A', 390., G1)]),
        ('l+gB', [I('l', 'A', 350., W1), I('g', 'B', 380., G1)]),
        ('self+lB', ['SELF', I('l', 'B', 340., L2)]),
        ('gl+l', [I('gl', 'A', 355., M1), I('l', 'B', 300., L2)]),
        ('self+self+g', ['SELF', 'SELF', I('g', 'A', 400., G1)]),
        ('l+empty', [I('l', 'A', 350., W1), I('g', 'B', 380., {})]),
    ]
    # one configuration = two inlet sets x receiver kind x energy balance x P (a worker pays the start-up of the compiled
    # flash kernels once per configuration)
    out = []
    for k in range(0, len(sets), 2):
        cases = []
        for nm, inlets in sets[k:k + 2]:
            for recv in ['l', 'gl']:
                for eb in [True, False]:
                    for P in ([101325.] if tier == 'quick' else [5e4, 101325., 5e5]):
                        cases.append({'name': f'{nm};recv={recv};eb={eb};P={P:g}', 'inlets': inlets, 'recv': recv, 'eb': eb, 'P': P})
        out.append({'name': 'sets=' + ','.join(nm for nm, _ in sets[k:k + 2]), 'cases': cases})
    return out


@group('C01/gap_mix_vle', configs=vle_configs, mode='B',
       functions=['thermosteam._stream:Stream.mix_from', 'thermosteam._multi_stream:MultiStream.reduce_phases',
                  'thermosteam._stream:Stream.vle', 'thermosteam._multi_stream:MultiStream.vle',
                  'thermosteam.indexer:ChemicalIndexer.mix_from', 'thermosteam.indexer:MaterialIndexer.mix_from',
                  'thermosteam.equilibrium.vle:VLE.__call__'],
       notes='mix_from(vle=True) on real property data and the real flash: Water/Ethanol/Methanol, receiver Stream(l) or '
             'MultiStream(g,l) holding prior contents, 6 inlet sets (two packages, receiver among the inlets, multi-phase and '
             'empty inlets) x energy balance on/off x P (1 quick / 3 thorough); totals compared to 1e-9 relative; calls that '
             'raise are skipped')
def gap_mix_vle(w, cfg):
    """Mixing with vle=True: whatever the flash does with the phases, every chemical's total is the sum of the inlets' totals."""
    skipped = []
    for case in cfg['cases']:
        _vle_case(w, case, skipped)
    w.canary('canary (not evaluated in mode B): every case was skipped', len(skipped) == len(cfg['cases']))
    w.note(skipped=skipped)


def _vle_case(w, cfg, skipped):
    tag = cfg['name'] + ': '
    thA = _vle_thermo('A')
    tmo.settings.set_thermo(thA)

    def build(spec):
        th = _vle_thermo(spec['pkg'])
        if spec['kind'] == 'gl':
            return tmo.MultiStream(None, thermo=th, T=spec['T'], P=cfg['P'], **{ph: list(fl.items()) for ph, fl in spec['flows'].items()})
        return tmo.Stream(None, thermo=th, T=spec['T'], P=cfg['P'], phase=spec['kind'], **spec['flows'].get(spec['kind'], {}))

    def totals(s):
        multi = isinstance(s, tmo.MultiStream)
        return {s.chemicals[i].CAS: float(sum(s.imol[ph, i] for ph in s.phases) if multi else s.imol[i]) for i in s.chemicals.IDs}

    if cfg['recv'] == 'gl':
        recv = tmo.MultiStream(None, thermo=thA, T=345., P=cfg['P'], l=[('Water', 4.), ('Methanol', 1.)], g=[('Ethanol', 0.5)])
    else:
        recv = tmo.Stream(None, thermo=thA, T=345., P=cfg['P'], Water=4., Methanol=1.)
    inlets = [recv if spec == 'SELF' else build(spec) for spec in cfg['inlets']]
    expected = {c: 0. for c in recv.chemicals.CASs}
    pre = []
    for s in inlets:
        t = totals(s)
        _add(expected, t)
        pre.append(None if s is recv else (t, tuple(s.phases), s.T, s.P))
    try:
        recv.mix_from(inlets, energy_balance=cfg['eb'], vle=True)
    except Exception as e:       # flash or temperature solve did not converge: nothing is claimed
        skipped.append((cfg['name'], repr(e)[:120]))
        return
    got = totals(recv)
    close = lambda a, b: abs(a - b) <= 1e-9 * max(1., abs(a), abs(b))
    CASs = recv.chemicals.CASs
    for n, cas in enumerate(CASs):
        w.ensure(f'{tag}total[{cas}] = sum of inlet totals (imol by name and phase, mol by position)',
                 close(got[cas], expected[cas]) and close(float(recv.mol[n]), expected[cas]), got=got[cas], expected=expected[cas])
    w.ensure(f'{tag}no negative flow', all(v >= 0. for _, row in W.rows_of(recv) for v in row.dct.values()))
    for n, (s, p0) in enumerate(zip(inlets, pre)):
        if p0 is not None:
            t = totals(s)
            w.ensure(f'{tag}inlet {n} unchanged',
                     all(close(t[c], p0[0][c]) for c in t) and tuple(s.phases) == p0[1] and s.T == p0[2] and s.P == p0[3])
