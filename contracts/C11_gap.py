# -*- coding: utf-8 -*-
"""
C11 (gap round) -- more of the real code that the property "molar, mass and volumetric views and unit conversions of a
stream always agree" depends on, under the same sentences as contracts/C11_flow_views.py:

    mass_k = MW_k * mol_k          vol_k = 1000 * V_k(phase_now, T_now, P_now) * mol_k          totals = sums of the views
    write through a view in a unit, read back in the same unit -> the written value; other unit -> value * fixed factor
    set a total -> composition unchanged;   inconsistent dimension -> rejected
    ... at every moment, i.e. after any other operation that changes the flows, T, P, phase(s), package or data links.

What is new here (coverage matrix in the report of the round):
  gap_constructors   flows and totals written in a unit by the constructors and by reset_flow (Stream, MultiStream)
  gap_view_arrays    reads and writes through the view ARRAYS and every index form of the view indexers (position, list,
                     mask, slice, ellipsis, phase row, (phase, IDs), sum across phases, in-place arithmetic, clear/empty,
                     unit-aware get_data/set_data without an index and with a (phase, ID) index, chemical groups)
  gap_channels       the other channels that report mass / volumetric flows (z_mass, z_vol, normalized flows, fractions,
                     compositions, concentrations), also after T / phase changed
  gap_histories      histories over operations the first round never interleaved with the views: proxies, flow proxies,
                     copies, scale / *= / /=, empty, mix_from (receiver among the inlets), separate_out, split_to, copy_flow,
                     get_data / set_data, temporary(), copy_phase, copy_thermal_condition, thermal_condition.T=, as_stream,
                     reduce_phases, the vle / lle / sle accessors (phase growth), reset_flow, Stream.sum, copy(thermo=)
"""
import itertools
import numpy as np
import thermosteam as tmo
from thermosteam.mixture import IdealMixture
from thermosteam import units_of_measure as UofM
from engine.api import group
from engine.sx import tmo_world as W
from contracts.C11_flow_views import (PKG, KINDS, ASSUME, package, mk, observe, observe_raw, distinct, distinct_from, attempt,
                                      eq_or_fail, Raised, pint_factor, V_expected, plant_V, _is_zero, BASE)

# a package with a chemical group (own Chemicals object: the group definition must not leak into the cached packages of W)
_GROUP_IDS = ('Water', 'Ethanol', 'Octane')
_GROUP = ('Org', ['Ethanol', 'Octane'], [0.25, 0.75])        # mass fractions of the group


def _group_chemicals():
    cs = tmo.Chemicals([W.chemical(i) for i in _GROUP_IDS])
    cs.compile()
    cs.define_group(_GROUP[0], _GROUP[1], composition=_GROUP[2], wt=True)
    return cs


_CSG = _group_chemicals()


def package_G(w):
    """(Water, Ethanol, Octane) with the group Org = 25 wt% Ethanol + 75 wt% Octane; V stubbed as in `package`."""
    _CSG._index_cache.clear()
    for c in _CSG.tuple:
        plant_V(w, c)
    return tmo.Thermo(_CSG, mixture=IdealMixture.from_chemicals(_CSG))


def per_factor(w, s, name, ph, ID, T=None, P=None):
    """What one kmol/hr of `ID` in phase `ph` shows in the base unit of the view `name`, now."""
    if name == 'mol': return 1.
    if name == 'mass': return float(s.chemicals.MW[s.chemicals.IDs.index(ID)])
    return 1000. * V_expected(w, s, ID, ph, s.T if T is None else T, s.P if P is None else P)


def pos(w, name):
    return w.real(name, lo=0, lo_strict=True)


# =========================================================================== 1. constructors and reset_flow

CTOR_UNITS = ['kmol/hr', 'mol/s', 'kg/hr', 'lb/hr', 'g/min', 'm3/hr', 'L/min', 'gal/min']


def ctor_configs(tier):
    out = []
    units = ['mol/s', 'lb/hr', 'L/min'] if tier == 'quick' else CTOR_UNITS
    for how in ('init', 'reset_flow', 'reset_flow(views-before)'):
        for kind in ('l', 'g', 'gl'):
            if kind == 'g' and (tier == 'quick' and how != 'init'):
                continue
            for u in units:
                for total in (False, True):
                    if tier == 'quick' and total and kind == 'gl' and u == 'L/min' and how != 'init':
                        continue          # (a total volumetric flow over two phases: 3-17 s of z3 per configuration; thorough tier)
                    out.append({'name': f'{how};kind={kind};units={u};total_flow={total}', 'how': how, 'kind': kind, 'units': u, 'total': total})
    for how in ('init', 'reset_flow'):
        for kind in ('l', 'gl'):
            out.append({'name': f'{how};kind={kind};units=bad', 'how': how, 'kind': kind, 'units': 'bad', 'total': False})
            for u in (['lb/hr'] if tier == 'quick' else ['kg/hr', 'lb/hr', 'g/min']):
                out.append({'name': f'{how};kind={kind};units={u};group', 'how': how, 'kind': kind, 'units': u, 'total': False, 'group': True})
    return out


FUNCS_CTOR = ['thermosteam._stream:Stream.__init__', 'thermosteam._multi_stream:MultiStream.__init__', 'thermosteam._stream:Stream.reset_flow',
              'thermosteam._multi_stream:MultiStream.reset_flow', 'thermosteam._stream:Stream._init_indexer',
              'thermosteam._multi_stream:MultiStream._init_indexer', 'thermosteam.indexer:ChemicalIndexer.__new__',
              'thermosteam.indexer:MaterialIndexer.__new__', 'thermosteam._stream:Stream._get_flow_name_and_factor',
              'thermosteam._stream:Stream.set_flow', 'thermosteam._multi_stream:MultiStream.set_flow', 'thermosteam._stream:Stream.set_total_flow']


@group('C11/gap_constructors', configs=ctor_configs, functions=FUNCS_CTOR, assumptions=ASSUME)
def gap_constructors(w, cfg):
    """
    Flows (and a total flow) handed to the constructor or to reset_flow in a unit of measure ARE writes through the view of
    that unit: read back in the same unit they are the given values (scaled to the given total with the composition of the
    given values), in another unit value * factor, and every relation between the views holds on the new stream.
    """
    W.reset_caches()
    how, kind, u = cfg['how'], cfg['kind'], cfg['units']
    grp = cfg.get('group', False)
    th = package_G(w) if grp else package(w, 'A')
    multi = kind == 'gl'
    T = pos(w, 'T'); P = pos(w, 'P')
    x = {ID: pos(w, 'x.' + ID) for ID in ('Water', 'Ethanol')}
    if grp:
        x = {'Water': x['Water'], 'Org': pos(w, 'x.Org')}
    tot = pos(w, 'total') if cfg['total'] else None
    # where each given flow goes: single phase -> that phase; multi-phase -> Water (and the group) in 'l', Ethanol in 'g'
    where = {ID: (('g' if ID == 'Ethanol' else 'l') if multi else kind) for ID in x}

    def build():
        if how == 'init':
            if multi:
                by_phase = {}
                for ID, ph in where.items(): by_phase.setdefault(ph, []).append((ID, x[ID]))
                return tmo.MultiStream(None, thermo=th, T=T, P=P, units=u if u != 'bad' else 'kg/m3', total_flow=tot, **by_phase)
            return tmo.Stream(None, thermo=th, phase=kind, T=T, P=P, units=u if u != 'bad' else 'kg/m3', total_flow=tot, **x)
        # reset_flow on an existing stream that holds other flows (and, optionally, built views)
        kind0 = 'gl' if multi else ('g' if kind == 'l' else 'l')
        if grp: s0, _ = W.stream_on(w, 's', th, KINDS[kind0], present={'default': 'pos'})
        else: s0, _ = mk(w, 's', kind0, 'A', 'all-pos', th=th)
        s0.T = T; s0.P = P
        if 'views-before' in how:
            observe(w, s0, 'before', units=())
        if multi:
            by_phase = {}
            for ID, ph in where.items(): by_phase.setdefault(ph, []).append((ID, x[ID]))
            s0.reset_flow(total_flow=tot, units=u if u != 'bad' else 'K', phases=('g', 'l'), **by_phase)
        else:
            s0.reset_flow(phase=kind, units=u if u != 'bad' else 'K', total_flow=tot, **x)
        return s0

    if u == 'bad':
        r = attempt(build)
        w.ensure('units of another dimension are rejected', isinstance(r, Raised) and isinstance(r.e, (tmo.exceptions.DimensionError, ValueError, TypeError)), got=repr(r))
        w.canary('canary: accepted', not isinstance(r, Raised))
        return
    s = build()
    name, f = pint_factor(u)
    w.ensure('the stream has the given phase(s), temperature and pressure',
             w.And(tuple(s.phases) == (('g', 'l') if multi else (kind,)), w.eq(s.T, T), w.eq(s.P, P)))
    raw = observe_raw(s)
    # the given values as flows in the base unit of the view, per chemical (a group is given by mass: split by its mass fractions)
    given = {}
    for ID, v in x.items():
        if ID == 'Org':
            for member, frac in zip(_GROUP[1], _GROUP[2]): given[where[ID], member] = frac * v
        else:
            given[where[ID], ID] = v
    gsum = w.total(given.values())
    key = lambda ph, ID: (ph, ID) if multi else ID
    for (ph, ID), v in given.items():
        per = per_factor(w, s, name, ph, ID, T, P)
        if tot is None:
            w.ensure(f'{ID}: read back in the given unit returns the given value', eq_or_fail(w, attempt(lambda: s.get_flow(u, key(ph, ID))), v))
            w.ensure(f'{ID}: molar data = value / unit factor / (1, MW, 1000 V(phase,T,P))', w.eq(raw[ph, ID] * per * f, v))
        else:
            # flows in the unit are proportional to the given values and add up to the given total
            w.ensure(f'{ID}: flow in the given unit = given value * total / sum of given values',
                     eq_or_fail(w, attempt(lambda: s.get_flow(u, key(ph, ID)) * gsum), v * tot))
            w.ensure(f'{ID}: molar data * (1, MW, 1000 V) * unit factor * sum of given = given value * total', w.eq(raw[ph, ID] * per * f * gsum, v * tot))
    w.ensure('nothing else is in the stream', w.And(*[w.eq(v, 0.) for k, v in raw.items() if k not in given]))
    if tot is not None:
        w.ensure('total read back in the given unit returns the given total', eq_or_fail(w, attempt(lambda: s.get_total_flow(u)), tot))
    if grp:
        w.ensure('the group reads back as the given group flow', eq_or_fail(w, attempt(lambda: s.get_flow(u, key(where['Org'], 'Org'))), x['Org']))
    observe(w, s, 'new', units=('mol/s', 'lb/hr', 'gal/min'))
    # vacuity canary only where the path condition is easy for the solver to satisfy (no total, not by volume): finding a MODEL of a
    # nonlinear path condition is the slow direction for z3 and flips under machine load (a proof of unsat does not)
    if tot is None and name != 'vol':
        w.canary('canary: stored value = given value + 1', w.eq(raw[where['Water'], 'Water'], x['Water'] + 1))


# =========================================================================== 2. the view arrays and every index form of the view indexers

ARRAY_OPS_SINGLE = [
    # writes: (op name, view) -- in-place arithmetic, positions, lists, masks, slices, ellipsis, whole-array assignment from a view
    'mass[k]*=c', 'vol[k]*=c', 'mass*=c', 'vol/=c', 'mass+=array', 'vol+=array', 'mass[list]=array', 'vol[mask]=x', 'mass[0:2]=array',
    'vol[:]=x', 'imass[...]=array', 'ivol[...]=array', 'imass[k]+=x', 'ivol[k]+=x', 'imass[IDs]=x', 'mass=other.mass', 'vol=other.vol',
    'mass[:]=mass', 'ivol[...]=vol', 'mass.clear()', 'ivol.empty()', 'imass.set_data(array,lb/hr)', 'ivol.set_data(array,L/min)', 'imol.set_data(array,mol/s)',
    'reads']
ARRAY_OPS_MULTI = [
    'imass.data[i,k]=x', 'ivol.data[i,k]=x', 'imass.data[:,k]=x', 'ivol[...,k]=x', 'imass[l,IDs]=array', 'ivol[l,IDs]=array', 'imass.data*=c',
    'ivol.data[i]*=c', "ms['l'].mass[k]*=c", "ms['l'].vol*=c", 'imass[l]=other.mass', 'ivol[l,...]=array', 'ivol.set_data(x,L/min,g,k)',
    'imass.set_data(x,lb/hr,(l,k))', 'imass.data.clear()', 'imass[l]=imass[l]', 'ivol.data[:]=ivol.data', 'reads']
ARRAY_OPS_GROUP = ['imass[Org]=x', 'imass[(Water,Org)]=array', 'ivol[Org]=x', 'reads-group']


def array_configs(tier):
    out = []
    for op in ARRAY_OPS_SINGLE:
        for kind in (['l'] if tier == 'quick' else ['l', 'g']):
            out.append({'name': f'kind={kind};op={op}', 'kind': kind, 'op': op})
    for op in ARRAY_OPS_MULTI:
        for kind in (['gl'] if tier == 'quick' else ['gl', 'gls']):
            out.append({'name': f'kind={kind};op={op}', 'kind': kind, 'op': op})
    for op in ARRAY_OPS_GROUP:
        for kind in ('l', 'gl'):
            out.append({'name': f'kind={kind};op={op}', 'kind': kind, 'op': op})
    return out


FUNCS_ARRAYS = ['thermosteam.indexer:ChemicalIndexer.__getitem__', 'thermosteam.indexer:ChemicalIndexer.__setitem__',
                'thermosteam.indexer:MaterialIndexer.__getitem__', 'thermosteam.indexer:MaterialIndexer.__setitem__',
                'thermosteam.indexer:MaterialIndexer._get_index_data', 'thermosteam.indexer:MaterialIndexer._get_index_and_kind',
                'thermosteam.indexer:get_sparse_chemical_data', 'thermosteam.indexer:set_sparse_chemical_data',
                'thermosteam.indexer:reset_sparse_chemical_data', 'thermosteam.indexer:Indexer.get_data', 'thermosteam.indexer:Indexer.set_data',
                'thermosteam.indexer:Indexer.empty', 'thermosteam.indexer:Indexer.copy', 'thermosteam.indexer:group_wt_compositions',
                'thermosteam.indexer:group_vol_composition',
                'thermosteam._stream:Stream.mass', 'thermosteam._stream:Stream.vol', 'thermosteam._multi_stream:MultiStream.__getitem__',
                'thermosteam.base.dictionary_view:DictionaryView.__setitem__', 'thermosteam.base.dictionary_view:DictionaryView.__getitem__',
                'thermosteam.base.dictionary_view:DictionaryView.__contains__', 'thermosteam.base.dictionary_view:DictionaryView.__iter__',
                'thermosteam.base.dictionary_view:DictionaryView.__delitem__', 'thermosteam.base.dictionary_view:DictionaryView.get',
                'thermosteam.base.dictionary_view:DictionaryView.items', 'thermosteam.base.dictionary_view:DictionaryView.values',
                'thermosteam.base.dictionary_view:DictionaryView.update', 'thermosteam.base.dictionary_view:DictionaryView.clear',
                'thermosteam.base.dictionary_view:DictionaryView.copy', 'thermosteam.base.dictionary_view:DictionaryView.pop']


def sym_array(w, xs):
    return np.array(xs, dtype=object if w.symbolic else float)


@group('C11/gap_view_arrays', configs=array_configs, functions=FUNCS_ARRAYS, assumptions=ASSUME)
def gap_view_arrays(w, cfg):
    """
    `s.mass`, `s.vol`, `s.imass.data`, `s.ivol.data` are arrays OF THE VIEW: whatever array operation writes a value to an
    entry (in-place arithmetic, a position, a list of positions, a mask, a slice, an ellipsis, a phase row, a (phase, IDs) key,
    a unit-aware set_data) is a write through the view - read back it is the written value, the molar flow is the value
    divided by (MW | 1000 V(phase,T,P)), nothing else changes; every index form reads factor * molar flow.
    """
    W.reset_caches()
    op, kind = cfg['op'], cfg['kind']
    grp = op in ARRAY_OPS_GROUP
    if grp:
        th = package_G(w)
        # (multi-phase: the group members in 'l', Water in 'g' - with every entry present the totals cost z3 ~20 s per configuration)
        s, _ = W.stream_on(w, 's', th, KINDS[kind], present={'default': 'pos'} if kind == 'l' else
                           {'default': 'zero', ('l', 'Ethanol'): 'pos', ('l', 'Octane'): 'pos', ('g', 'Water'): 'pos'})
    else:
        th = package(w, 'A3')
        s, _ = mk(w, 's', kind, 'A3', 'all-pos' if kind in 'lg' else 'diag', th=th)
    multi = isinstance(s, tmo.MultiStream)
    IDs = s.chemicals.IDs
    MW = [float(m) for m in s.chemicals.MW]
    observe(w, s, 'before', units=())              # every view and per-index cache exists
    T, P = s.T, s.P
    old = observe_raw(s)
    ph = 'l' if multi else s.phase
    x = pos(w, 'x'); c = pos(w, 'c')
    xs = [pos(w, f'x{i}') for i in range(len(IDs))]
    per = lambda name, p, ID: per_factor(w, s, name, p, ID, T, P)
    view_of = lambda name, p, ID: old[p, ID] * per(name, p, ID)       # what the view showed before

    def written(name, values, label='write'):
        """values: {(phase, ID): value written through the view `name`}.  The sentences of the property for a write."""
        new = observe_raw(s)
        ix = attempt(lambda: getattr(s, 'i' + name))
        for (p, ID), v in values.items():
            key = (p, ID) if multi else ID
            w.ensure(f'{label}: [{p},{ID}] read back through the {name} view returns the written value', eq_or_fail(w, attempt(lambda: ix[key]), v))
            w.ensure(f'{label}: [{p},{ID}] molar data = value / (1, MW, 1000 V(phase,T,P))', w.eq(new[p, ID] * per(name, p, ID), v))
        w.ensure(f'{label}: other entries, T, P unchanged', w.And(*[w.eq(new[k], old[k]) for k in old if k not in values], w.eq(s.T, T), w.eq(s.P, P)))

    canary = None
    if op in ('mass[k]*=c', 'vol[k]*=c'):
        name = op[:op.index('[')]
        arr = getattr(s, name)
        arr[1] *= c
        written(name, {(ph, IDs[1]): c * view_of(name, ph, IDs[1])})
    elif op in ('mass*=c', 'vol/=c'):
        name = op[:op.index('=') - 1]
        arr = getattr(s, name)
        if '*' in op: s.mass *= c             # (property getter, in-place kernel over the view, property setter with the same object)
        else: s.vol /= c
        # (stated multiplicatively for the quotient)
        new = observe_raw(s)
        for ID in IDs:
            w.ensure(f'{ID}: every entry of the view (and so the molar flow) is scaled by the factor',
                     w.eq(new[ph, ID] * (1. if '*' in op else c), old[ph, ID] * (c if '*' in op else 1.)))
    elif op in ('mass+=array', 'vol+=array'):
        name = op[:op.index('+')]
        arr = getattr(s, name)
        arr += sym_array(w, xs)
        written(name, {(ph, ID): view_of(name, ph, ID) + xs[i] for i, ID in enumerate(IDs)})
    elif op == 'mass[list]=array':
        s.mass[[0, 2]] = sym_array(w, [xs[0], xs[2]])
        written('mass', {(ph, IDs[0]): xs[0], (ph, IDs[2]): xs[2]})
    elif op == 'vol[mask]=x':
        s.vol[np.array([True, False, True])] = x
        written('vol', {(ph, IDs[0]): x, (ph, IDs[2]): x})
    elif op == 'mass[0:2]=array':
        s.mass[0:2] = sym_array(w, xs[:2])
        written('mass', {(ph, IDs[0]): xs[0], (ph, IDs[1]): xs[1]})
    elif op == 'vol[:]=x':
        s.vol[:] = x
        written('vol', {(ph, ID): x for ID in IDs})
    elif op in ('imass[...]=array', 'ivol[...]=array'):
        name = op[1:op.index('[')]
        getattr(s, 'i' + name)[...] = sym_array(w, xs)
        written(name, {(ph, ID): xs[i] for i, ID in enumerate(IDs)})
    elif op in ('imass[k]+=x', 'ivol[k]+=x'):
        name = op[1:op.index('[')]
        getattr(s, 'i' + name)[IDs[1]] += x
        written(name, {(ph, IDs[1]): view_of(name, ph, IDs[1]) + x})
    elif op == 'imass[IDs]=x':
        s.imass[IDs[0], IDs[2]] = x                  # one value for several chemicals
        written('mass', {(ph, IDs[0]): x, (ph, IDs[2]): x})
    elif op in ('mass=other.mass', 'vol=other.vol', 'imass[l]=other.mass'):
        name = 'mass' if 'mass' in op else 'vol'
        o, _ = mk(w, 'o', 'g', 'A3', 'all-pos', th=th)
        distinct(w, [T, o.T]); distinct(w, [P, o.P])
        oraw = observe_raw(o)
        shown = {ID: oraw['g', ID] * per_factor(w, o, name, 'g', ID) for ID in IDs}     # what the other stream's view shows
        if op.startswith('imass[l]'): s.imass['l'] = o.mass
        else: setattr(s, name, getattr(o, name))
        written(name, {(ph, ID): shown[ID] for ID in IDs})
        w.ensure('the other stream is unchanged', w.And(*[w.eq(observe_raw(o)[k], v) for k, v in oraw.items()]))
        observe(w, o, 'other', units=())
    elif op in ('mass[:]=mass', 'ivol[...]=vol', 'imass[l]=imass[l]', 'ivol.data[:]=ivol.data'):
        # the receiver is its own source: writing the values the view shows is a write of the read-back values
        if op == 'mass[:]=mass': s.mass[:] = s.mass
        elif op == 'ivol[...]=vol': s.ivol[...] = s.vol
        elif op == 'imass[l]=imass[l]': s.imass['l'] = s.imass['l']
        else: s.ivol.data[:] = s.ivol.data
        w.ensure('writing back what the view shows changes nothing', w.And(*[w.eq(v, old[k]) for k, v in observe_raw(s).items()], w.eq(s.T, T), w.eq(s.P, P)))
    elif op in ('mass.clear()', 'ivol.empty()', 'imass.data.clear()'):
        if op == 'mass.clear()': s.mass.clear()
        elif op == 'ivol.empty()': s.ivol.empty()
        else: s.imass.data.clear()
        w.ensure('emptying a view empties the stream', w.And(*[w.eq(v, 0.) for v in observe_raw(s).values()], w.eq(s.T, T), w.eq(s.P, P)))
        canary = ('canary: flows kept', w.eq(observe_raw(s)[ph, IDs[1] if not multi else IDs[1]], old[ph, IDs[1]]) if not _is_zero(old[ph, IDs[1]]) else None)
    elif op in ('imass.set_data(array,lb/hr)', 'ivol.set_data(array,L/min)', 'imol.set_data(array,mol/s)'):
        name = op[1:op.index('.')]; u = op[op.index(',') + 1:-1]
        f = pint_factor(u)[1]
        ix = getattr(s, 'i' + name)
        ix.set_data(sym_array(w, xs), u)
        back = attempt(lambda: ix.get_data(u))
        new = observe_raw(s)
        for i, ID in enumerate(IDs):
            w.ensure(f'{ID}: get_data in the same unit returns the written value', eq_or_fail(w, attempt(lambda: back[i]), xs[i]))
            w.ensure(f'{ID}: molar data = value / unit factor / (1, MW, 1000 V(phase,T,P))', w.eq(new[ph, ID] * per(name, ph, ID) * f, xs[i]))
            w.ensure(f'{ID}: get_flow in the same unit returns the written value', eq_or_fail(w, attempt(lambda: s.get_flow(u, ID)), xs[i]))
    elif op == 'reads' and not multi:
        for name in ('mass', 'vol'):
            arr = getattr(s, name); ix = getattr(s, 'i' + name)
            exp = [view_of(name, ph, ID) for ID in IDs]
            dense = attempt(lambda: arr.to_array(dtype=object) if w.symbolic else arr.to_array())
            shifted = attempt(lambda: arr + c); scaled = attempt(lambda: c * arr); cp = attempt(lambda: ix.copy())
            lst = attempt(lambda: arr[[2, 0]]); sl = attempt(lambda: arr[1:3]); it = attempt(lambda: list(arr))
            pair = attempt(lambda: ix[IDs[2], IDs[0]]); everything = attempt(lambda: ix[...])
            lb = attempt(lambda: ix.get_data({'mass': 'lb/hr', 'vol': 'L/min'}[name])); f = pint_factor({'mass': 'lb/hr', 'vol': 'L/min'}[name])[1]
            for i, ID in enumerate(IDs):
                w.ensure(f'{name}[{i}] by position = factor*mol', eq_or_fail(w, attempt(lambda: arr[i]), exp[i]))
                w.ensure(f'{name}.to_array()[{i}] = factor*mol', eq_or_fail(w, attempt(lambda: dense[i]), exp[i]))
                w.ensure(f'({name} + c)[{i}] = factor*mol + c', eq_or_fail(w, attempt(lambda: shifted[i]), exp[i] + c))
                w.ensure(f'(c * {name})[{i}] = c*factor*mol', eq_or_fail(w, attempt(lambda: scaled[i]), c * exp[i]))
                w.ensure(f'i{name}.copy()[{ID}] = factor*mol', eq_or_fail(w, attempt(lambda: cp[ID]), exp[i]))
                w.ensure(f'iteration over {name} yields factor*mol [{i}]', eq_or_fail(w, attempt(lambda: it[i]), exp[i]))
                w.ensure(f'i{name}[...][{i}] = factor*mol', eq_or_fail(w, attempt(lambda: everything[i]), exp[i]))
                w.ensure(f'i{name}.get_data(unit)[{i}] = unit factor*factor*mol', eq_or_fail(w, attempt(lambda: lb[i]), f * exp[i]))
            w.ensure(f'{name}[[2,0]] = the two entries', w.And(eq_or_fail(w, attempt(lambda: lst[0]), exp[2]), eq_or_fail(w, attempt(lambda: lst[1]), exp[0])))
            w.ensure(f'{name}[1:3] = the two entries', w.And(eq_or_fail(w, attempt(lambda: sl[0]), exp[1]), eq_or_fail(w, attempt(lambda: sl[1]), exp[2])))
            w.ensure(f'i{name}[ID2, ID0] = the two entries', w.And(eq_or_fail(w, attempt(lambda: pair[0]), exp[2]), eq_or_fail(w, attempt(lambda: pair[1]), exp[0])))
            w.ensure(f'{name}.sum() = sum, any() = not empty', w.And(eq_or_fail(w, attempt(lambda: arr.sum()), w.total(exp)), attempt(lambda: arr.any()) is True))
        w.ensure('reading changes nothing', w.And(*[w.eq(v, old[k]) for k, v in observe_raw(s).items()], w.eq(s.T, T), w.eq(s.P, P)))
        canary = ('canary: mass[1] = mol[1]', w.eq(s.mass[1], old[ph, IDs[1]]))
    # ------------------------------------------------------------- multi-phase forms
    elif op in ('imass.data[i,k]=x', 'ivol.data[i,k]=x'):
        name = op[1:op.index('.')]
        i = s.phases.index('l')
        getattr(s, 'i' + name).data[i, 0] = x
        written(name, {('l', IDs[0]): x})
    elif op == 'imass.data[:,k]=x':
        s.imass.data[:, 2] = x
        written('mass', {(p, IDs[2]): x for p in s.phases})
    elif op == 'ivol[...,k]=x':
        s.ivol[..., IDs[2]] = x
        written('vol', {(p, IDs[2]): x for p in s.phases})
    elif op in ('imass[l,IDs]=array', 'ivol[l,IDs]=array'):
        name = op[1:op.index('[')]
        getattr(s, 'i' + name)['l', (IDs[2], IDs[0])] = sym_array(w, [xs[2], xs[0]])
        written(name, {('l', IDs[2]): xs[2], ('l', IDs[0]): xs[0]})
    elif op == 'imass.data*=c':
        data = s.imass.data
        data *= c
        new = observe_raw(s)
        w.ensure('every entry of the view (and so the molar flow) is scaled by the factor', w.And(*[w.eq(new[k], c * old[k]) for k in old]))
    elif op == 'ivol.data[i]*=c':
        i = s.phases.index('l')
        row = s.ivol.data[i]
        row *= c
        new = observe_raw(s)
        w.ensure('every entry of the phase row (and so the molar flow) is scaled by the factor; other phases unchanged',
                 w.And(*[w.eq(new[k], (c if k[0] == 'l' else 1.) * old[k]) for k in old]))
    elif op == "ms['l'].mass[k]*=c":
        k = next(i for i, ID in enumerate(IDs) if not _is_zero(old['l', ID]))
        s['l'].mass[k] *= c
        written('mass', {('l', IDs[k]): c * view_of('mass', 'l', IDs[k])})
    elif op == "ms['l'].vol*=c":
        v = s['l'].vol
        v *= c
        new = observe_raw(s)
        w.ensure('every entry of the phase (and so the molar flow) is scaled by the factor; other phases unchanged',
                 w.And(*[w.eq(new[k], (c if k[0] == 'l' else 1.) * old[k]) for k in old]))
    elif op == 'ivol[l,...]=array':
        s.ivol['l', ...] = sym_array(w, xs)
        written('vol', {('l', ID): xs[i] for i, ID in enumerate(IDs)})
    elif op == 'ivol.set_data(x,L/min,g,k)':
        f = pint_factor('L/min')[1]
        s.ivol.set_data(x, 'L/min', 'g', IDs[1])
        new = observe_raw(s)
        w.ensure('get_data in the same unit returns the written value', eq_or_fail(w, attempt(lambda: s.ivol.get_data('L/min', 'g', IDs[1])), x))
        w.ensure('get_flow in the same unit returns the written value', eq_or_fail(w, attempt(lambda: s.get_flow('L/min', ('g', IDs[1]))), x))
        w.ensure('molar data = value / unit factor / 1000 V(phase,T,P)', w.eq(new['g', IDs[1]] * per('vol', 'g', IDs[1]) * f, x))
        w.ensure('other entries unchanged', w.And(*[w.eq(new[k], old[k]) for k in old if k != ('g', IDs[1])]))
    elif op == 'imass.set_data(x,lb/hr,(l,k))':
        f = pint_factor('lb/hr')[1]
        s.imass.set_data(x, 'lb/hr', ('l', IDs[2]))
        new = observe_raw(s)
        w.ensure('get_data in the same unit returns the written value', eq_or_fail(w, attempt(lambda: s.imass.get_data('lb/hr', ('l', IDs[2]))), x))
        w.ensure('molar data = value / unit factor / MW', w.eq(new['l', IDs[2]] * MW[2] * f, x))
        w.ensure('other entries unchanged', w.And(*[w.eq(new[k], old[k]) for k in old if k != ('l', IDs[2])]))
    elif op == 'reads' and multi:
        phases = tuple(s.phases)
        for name in ('mass', 'vol'):
            ix = getattr(s, 'i' + name)
            exp = {k: view_of(name, *k) for k in old}
            for i, ID in enumerate(IDs):
                w.ensure(f'i{name}[{ID}] = sum over phases of factor*mol', eq_or_fail(w, attempt(lambda: ix[ID]), w.total(exp[p, ID] for p in phases)))
                col = attempt(lambda: ix[..., ID])
                w.ensure(f'i{name}[..., {ID}] = factor*mol per phase', w.And(*[eq_or_fail(w, attempt(lambda: col[n]), exp[p, ID]) for n, p in enumerate(phases)]))
            pair = attempt(lambda: ix[(IDs[2], IDs[0])])
            w.ensure(f'i{name}[(ID2, ID0)] = sums over phases', w.And(eq_or_fail(w, attempt(lambda: pair[0]), w.total(exp[p, IDs[2]] for p in phases)),
                                                                       eq_or_fail(w, attempt(lambda: pair[1]), w.total(exp[p, IDs[0]] for p in phases))))
            for n, p in enumerate(phases):
                row = attempt(lambda: ix[p]); row2 = attempt(lambda: ix[p, ...]); two = attempt(lambda: ix[p, (IDs[1], IDs[0])])
                for i, ID in enumerate(IDs):
                    w.ensure(f'i{name}[{p}][{i}] = factor*mol', eq_or_fail(w, attempt(lambda: row[i]), exp[p, ID]))
                    w.ensure(f'i{name}[{p}, ...][{i}] = factor*mol', eq_or_fail(w, attempt(lambda: row2[i]), exp[p, ID]))
                    w.ensure(f'i{name}.data[{n},{i}] = factor*mol', eq_or_fail(w, attempt(lambda: ix.data[n, i]), exp[p, ID]))
                    w.ensure(f"ms[{p}].{name}[{i}] = factor*mol", eq_or_fail(w, attempt(lambda: getattr(s[p], name)[i]), exp[p, ID]))
                w.ensure(f'i{name}[{p}, (ID1, ID0)] = the two entries', w.And(eq_or_fail(w, attempt(lambda: two[0]), exp[p, IDs[1]]), eq_or_fail(w, attempt(lambda: two[1]), exp[p, IDs[0]])))
            u = {'mass': 'lb/hr', 'vol': 'L/min'}[name]; f = pint_factor(u)[1]
            w.ensure(f'i{name}.get_data(unit, phase, ID) = unit factor*factor*mol', eq_or_fail(w, attempt(lambda: ix.get_data(u, phases[0], IDs[0])), f * exp[phases[0], IDs[0]]))
            allu = attempt(lambda: ix.get_data(u))
            w.ensure(f'i{name}.get_data(unit) = unit factor*factor*mol, all entries',
                     w.And(*[eq_or_fail(w, attempt(lambda: allu[n, i]), f * exp[p, ID]) for n, p in enumerate(phases) for i, ID in enumerate(IDs)]))
        w.ensure('reading changes nothing', w.And(*[w.eq(v, old[k]) for k, v in observe_raw(s).items()], w.eq(s.T, T), w.eq(s.P, P)))
        canary = ('canary: imass[ID0] = imol[ID0]', w.eq(s.imass[IDs[0]], s.imol[IDs[0]]))
    # ------------------------------------------------------------- chemical groups (mass fractions 0.25 / 0.75)
    elif op in ('imass[Org]=x', 'imol[Org]=x', 'ivol[Org]=x'):
        name = op[1:op.index('[')]
        key = (ph, 'Org') if multi else 'Org'
        r = attempt(lambda: getattr(s, 'i' + name).__setitem__(key, x))
        if name == 'vol' and isinstance(r, Raised):
            # (a group has no volumetric composition: the library rejects the write; what the property asks is that a rejected
            #  write changes nothing - an accepted one would have to read back like any other write, next branch)
            w.ensure('a rejected write changes nothing', w.And(*[w.eq(v, old[k]) for k, v in observe_raw(s).items()]), got=repr(r))
        else:
            w.ensure('the group reads back as the written value', eq_or_fail(w, attempt(lambda: getattr(s, 'i' + name)[key]), x))
            new = observe_raw(s)
            w.ensure('only the members of the group change', w.And(not isinstance(r, Raised), *[w.eq(new[k], old[k]) for k in old if k not in [(ph, m) for m in _GROUP[1]]]))
            if name == 'mass':
                for m, frac in zip(_GROUP[1], _GROUP[2]):
                    w.ensure(f'{m}: mass written by group = its mass fraction of the value; molar data = that / MW',
                             w.eq(new[ph, m] * per('mass', ph, m), frac * x))
    elif op == 'imass[(Water,Org)]=array':
        key = (ph, ('Water', 'Org')) if multi else ('Water', 'Org')
        s.imass[key] = sym_array(w, xs[:2])
        back = attempt(lambda: s.imass[key])
        w.ensure('chemical and group read back as the written values', w.And(eq_or_fail(w, attempt(lambda: back[0]), xs[0]), eq_or_fail(w, attempt(lambda: back[1]), xs[1])))
        new = observe_raw(s)
        w.ensure('molar data = value / MW (the group split by its mass fractions)',
                 w.And(w.eq(new[ph, 'Water'] * per('mass', ph, 'Water'), xs[0]),
                       *[w.eq(new[ph, m] * per('mass', ph, m), frac * xs[1]) for m, frac in zip(_GROUP[1], _GROUP[2])]))
        w.ensure('other phases unchanged', w.And(*[w.eq(new[k], old[k]) for k in old if k[0] != ph]))
    elif op == 'reads-group':
        for name in ('mass', 'vol', 'mol'):
            ix = getattr(s, 'i' + name)
            tot = lambda p: w.total(view_of(name, p, m) for m in _GROUP[1])
            if multi:
                w.ensure(f'i{name}[Org] = sum of the members over all phases', eq_or_fail(w, attempt(lambda: ix['Org']), w.total(tot(p) for p in s.phases)))
                w.ensure(f'i{name}[l, Org] = sum of the members in the phase', eq_or_fail(w, attempt(lambda: ix['l', 'Org']), tot('l')))
                two = attempt(lambda: ix['g', ('Org', 'Water')])
                w.ensure(f'i{name}[g, (Org, Water)] = group sum and chemical', w.And(eq_or_fail(w, attempt(lambda: two[0]), tot('g')), eq_or_fail(w, attempt(lambda: two[1]), view_of(name, 'g', 'Water'))))
            else:
                w.ensure(f'i{name}[Org] = sum of the members', eq_or_fail(w, attempt(lambda: ix['Org']), tot(ph)))
                two = attempt(lambda: ix['Org', 'Water'])
                w.ensure(f'i{name}[Org, Water] = group sum and chemical', w.And(eq_or_fail(w, attempt(lambda: two[0]), tot(ph)), eq_or_fail(w, attempt(lambda: two[1]), view_of(name, ph, 'Water'))))
        u = 'lb/hr'; f = pint_factor(u)[1]
        w.ensure('get_flow(unit, group) = unit factor * sum of the members',
                 eq_or_fail(w, attempt(lambda: s.get_flow(u, ('l', 'Org') if multi else 'Org')), f * w.total(view_of('mass', ph, m) for m in _GROUP[1])))
        canary = ('canary: imass[Org] = imol[Org]', w.eq(s.imass['Org'], s.imol['Org']))
    else:
        raise RuntimeError(op)
    observe(w, s, 'after', units=('lb/hr', 'L/min'))
    if canary is None or canary[1] is None:
        k0 = next(k for k, v in old.items() if not _is_zero(v))
        canary = ('canary: F_mass = F_mol + 1', w.eq(s.F_mass, s.F_mol + 1))
    if 'vol' not in op:                 # (see gap_constructors: canaries only on configurations with an easy path condition)
        w.canary(*canary)


# =========================================================================== 3. the other channels that report mass / volumetric flows

def channel_configs(tier):
    out = []
    # (single-phase with three chemicals: the quotients of three-term sums cost z3 20-50 s per configuration; two chemicals: 2 s)
    for kind, pkg in (('l', 'A'), ('gl', 'A' if tier == 'quick' else 'A3')):
        for hist in (['fresh', 'views>T>phase'] if tier == 'quick' else ['fresh', 'views>T', 'views>phase', 'views>T>phase', 'views>wvol']):
            out.append({'name': f'kind={kind};pkg={pkg};hist={hist}', 'kind': kind, 'hist': hist, 'pkg': pkg})
    out.append({'name': 'kind=l;pkg=A;hist=fresh;channels=mass', 'kind': 'l', 'hist': 'fresh', 'pkg': 'A', 'only': 'mass'})     # carries the canary
    if tier != 'quick':
        out.append({'name': 'kind=l;pkg=A3;hist=fresh', 'kind': 'l', 'hist': 'fresh', 'pkg': 'A3'})
        out.append({'name': 'kind=g;pkg=A;hist=views>T>phase', 'kind': 'g', 'hist': 'views>T>phase', 'pkg': 'A'})
    return out


FUNCS_CHANNELS = ['thermosteam._stream:Stream.z_mass', 'thermosteam._stream:Stream.z_vol', 'thermosteam._stream:Stream.get_normalized_mass',
                  'thermosteam._stream:Stream.get_normalized_vol', 'thermosteam._stream:Stream.get_mass_fraction',
                  'thermosteam._stream:Stream.get_volumetric_fraction', 'thermosteam._stream:Stream.get_concentration',
                  'thermosteam._multi_stream:MultiStream.get_normalized_mass', 'thermosteam._multi_stream:MultiStream.get_normalized_vol',
                  'thermosteam._multi_stream:MultiStream.get_mass_composition', 'thermosteam._multi_stream:MultiStream.get_volumetric_composition']


@group('C11/gap_channels', configs=channel_configs, functions=FUNCS_CHANNELS, assumptions=ASSUME)
def gap_channels(w, cfg):
    """
    Compositions, fractions, normalized flows and concentrations by mass and by volume report the SAME mass and volumetric
    flows as the views: fraction_k * total = MW_k * mol_k resp. 1000 V_k(phase,T,P) * mol_k at the live T, P and phase.
    """
    W.reset_caches()
    kind = cfg['kind']
    pkg = cfg.get('pkg', 'A3')
    th = package(w, pkg)
    s, _ = mk(w, 's', kind, pkg, 'all-pos' if kind in 'lg' else 'diag', th=th)
    multi = isinstance(s, tmo.MultiStream)
    hist = cfg['hist'].split('>')
    if hist[0] == 'views':
        observe(w, s, 'before', units=())
        for ch in ('z_mass', 'z_vol'): attempt(lambda: getattr(s, ch))
    for h in hist[1:]:
        if h == 'T':
            T1 = pos(w, 'T1'); distinct(w, [s.T, T1]); s.T = T1
        elif h == 'phase':
            if multi: s.phases = ('g', 'l', 's')
            else: s.phase = 'g' if s.phase != 'g' else 'l'
        elif h == 'wvol':
            s.ivol[('l', 'Water') if multi else 'Water'] = pos(w, 'x')
    IDs = s.chemicals.IDs
    raw = observe_raw(s)
    rows = [p for p, _ in W.rows_of(s)]
    per_chem = {name: {ID: w.total(raw[p, ID] * per_factor(w, s, name, p, ID) for p in rows if not _is_zero(raw[p, ID])) for ID in IDs} for name in ('mol', 'mass', 'vol')}
    F = {name: w.total(per_chem[name].values()) for name in per_chem}
    two = ('Ethanol', 'Water')

    def each(tag, got, want_num, denom, n=None):
        """got[i] * denom = want_num[i]  (the quotient stated multiplicatively)"""
        n = len(want_num) if n is None else n
        w.ensure(tag, w.And(not isinstance(got, Raised), *[eq_or_fail(w, attempt(lambda: got[i] * denom), want_num[i]) for i in range(n)]), got=repr(got)[:200])
    each('z_mass * F_mass = MW*mol', attempt(lambda: s.z_mass), [per_chem['mass'][ID] for ID in IDs], F['mass'])
    mass_only = cfg.get('only') == 'mass'
    if mass_only:
        # (no volumetric channel on this configuration: its path condition is linear, so the vacuity canary is cheap and stable)
        part = [per_chem['mass'][ID] for ID in two]
        each('get_normalized_mass(IDs) * (sum of the mass flows of IDs) = mass flows', attempt(lambda: s.get_normalized_mass(two)), part, w.total(part))
        each('get_mass_fraction(IDs) * F_mass = mass flows', attempt(lambda: s.get_mass_fraction(two)), part, F['mass'])
        w.canary('canary: z_mass = z_mol', eq_or_fail(w, attempt(lambda: s.z_mass[0] * F['mol']), per_chem['mol'][IDs[0]]))
        return
    each('z_vol * F_vol = 1000 V(phase,T,P)*mol', attempt(lambda: s.z_vol), [per_chem['vol'][ID] for ID in IDs], F['vol'])
    for name, norm, frac in (('mass', 'get_normalized_mass', 'get_mass_composition'), ('vol', 'get_normalized_vol', 'get_volumetric_composition')):
        part = [per_chem[name][ID] for ID in two]
        each(f'{norm}(IDs) * (sum of the {name} flows of IDs) = {name} flows', attempt(lambda: getattr(s, norm)(two)), part, w.total(part))
        each(f'{frac}(IDs) * F_{name} = {name} flows', attempt(lambda: getattr(s, frac)(two)), part, F[name])
        if not multi:
            alias = {'mass': 'get_mass_fraction', 'vol': 'get_volumetric_fraction'}[name]
            each(f'{alias}(IDs) * F_{name} = {name} flows', attempt(lambda: getattr(s, alias)(two)), part, F[name])
    # concentration in num/denum units = flow in num/hr divided by total flow in denum/hr (unit factors: the pint floats, A-pint)
    fac = lambda name, u: UofM.AbsoluteUnitsOfMeasure(BASE[name]).conversion_factor(u)
    fg, fmol, fL = fac('mass', 'g/hr'), fac('mol', 'mol/hr'), fac('vol', 'L/hr')
    if multi:
        pass      # (MultiStream.get_concentration divides the flows of ONE phase by the volume of the WHOLE stream; whether that is the intended
                  #  reference volume is not for this property to say - no clause)
    else:
        each('get_concentration(IDs, g/L) * F_vol[L/hr] = mass flows [g/hr]', attempt(lambda: s.get_concentration(two, 'g/L')), [fg * per_chem['mass'][ID] for ID in two], fL * F['vol'])
        each('get_concentration(IDs, mol/L) * F_vol[L/hr] = molar flows [mol/hr]', attempt(lambda: s.get_concentration(two, 'mol/L')), [fmol * per_chem['mol'][ID] for ID in two], fL * F['vol'])
        each('get_concentration(IDs) * F_vol = molar flows', attempt(lambda: s.get_concentration(two)), [per_chem['mol'][ID] for ID in two], F['vol'])
    w.ensure('reading changes nothing', w.And(*[w.eq(v, raw[k]) for k, v in observe_raw(s).items()]))
    observe(w, s, 'after', units=())


# =========================================================================== 4. histories over the operations the first round never interleaved with the views

NEW_OPS_SINGLE = ['proxy', 'flow_proxy', 'copy', 'copy_thermo', 'scale', 'imul', 'idiv', 'empty', 'mix_self', 'mix_others', 'sep', 'split_to',
                  'copy_flow', 'set_data', 'set_data_multi', 'get_set', 'temporary', 'copy_phase', 'copy_tc', 'tcT', 'vle', 'lle', 'sle', 'sum']
NEW_OPS_MULTI = ['proxy', 'flow_proxy', 'copy', 'copy_thermo', 'scale', 'imul', 'idiv', 'empty', 'mix_self', 'mix_others', 'sep', 'split_to',
                 'set_data', 'set_data_multi', 'get_set', 'copy_tc', 'tcT', 'as_stream', 'reduce_phases', 'lle', 'sle']
OLD_OPS = ['wvol', 'wmass', 'T', 'phase', 'phases', 'unlink', 'link', 'reset']
VIA_DERIVED = ['wvol@d', 'wmass@d', 'T@d', 'phase@d']     # the same, applied to the most recent derived stream (proxy, flow proxy, copy, link partner)
STRUCTURAL = ['proxy', 'flow_proxy', 'copy', 'set_data', 'get_set', 'temporary', 'copy_phase', 'as_stream', 'reduce_phases', 'vle', 'split_to', 'mix_self',
              'copy_flow', 'empty']


def hist2_configs(tier):
    out = []
    seen = set()

    def add(start, seq, touch='all'):
        name = f'start={start};touch={touch};ops=' + '>'.join(seq)
        if name not in seen:
            seen.add(name)
            out.append({'name': name, 'start': start, 'ops': list(seq), 'touch': touch})
    for start, new in (('l', NEW_OPS_SINGLE), ('gl', NEW_OPS_MULTI)):
        for op in new:
            add(start, (op,))
        if tier == 'quick':
            for n in new:
                if n not in STRUCTURAL: continue
                for k in ('wvol', 'T', 'phase', 'unlink'):
                    add(start, (n, k))
                for k in ('wvol', 'phases', 'link'):
                    add(start, (k, n))
            for seq in [('proxy', 'unlink', 'wvol'), ('flow_proxy', 'phase', 'wvol'), ('copy', 'wmass', 'T'), ('proxy', 'reset', 'wvol'), ('proxy', 'phases', 'wvol'),
                        ('flow_proxy', 'phases', 'wmass'), ('get_set', 'wvol', 'T'), ('proxy', 'link', 'wvol'), ('flow_proxy', 'link', 'T'),
                        ('scale', 'wvol', 'idiv'), ('empty', 'wvol', 'T'), ('split_to', 'T', 'split_to'), ('mix_self', 'wvol', 'mix_self'),
                        ('proxy', 'flow_proxy', 'wvol'), ('flow_proxy', 'proxy', 'phase'), ('copy', 'copy', 'wvol')]:
                if all(o in new or o in OLD_OPS for o in seq) and not (start == 'gl' and seq in (('proxy', 'link', 'wvol'), ('mix_self', 'wvol', 'mix_self'))):
                    add(start, seq)         # (the two excluded ones take 4-10 s for the multi-phase start: thorough tier)
            for seq in [('proxy', 'wvol'), ('flow_proxy', 'phase'), ('copy', 'T'), ('set_data', 'wvol'), ('split_to', 'T'), ('proxy', 'unlink'), ('mix_self', 'wvol')]:
                add(start, seq, 'end')
            for d in ('proxy', 'flow_proxy', 'copy', 'link'):
                for v in VIA_DERIVED:
                    add(start, (d, v))
                add(start, (d, 'T', 'wvol@d')); add(start, (d, 'T@d', 'wvol')); add(start, (d, 'wvol@d'), 'end')
            add(start, ('flow_proxy', 'phase@d', 'wvol@d')); add(start, ('proxy', 'unlink', 'wvol@d'))
        else:
            for a, b in itertools.product(new + OLD_OPS, repeat=2):
                if a in new or b in new:
                    add(start, (a, b))
                    if a in STRUCTURAL or b in STRUCTURAL: add(start, (a, b), 'end')
            for d in ('proxy', 'flow_proxy', 'copy', 'link'):
                for a, b in itertools.product(VIA_DERIVED + ['wvol', 'T', 'phase', 'unlink'], repeat=2):
                    if a in VIA_DERIVED or b in VIA_DERIVED:
                        add(start, (d, a, b))
            for a, b, c in itertools.product(['proxy', 'flow_proxy', 'copy', 'get_set', 'wvol', 'T', 'phase', 'unlink'], repeat=3):
                if sum(o in new for o in (a, b, c)) >= 1 and all(o in new or o in OLD_OPS for o in (a, b, c)):
                    add(start, (a, b, c))
    # multi-phase stream that grows a phase IN PLACE while a flow proxy shares its rows (the known finding F-C11-4a..c with a flow proxy
    # in the place of the link partner): one configuration in the quick tier, the family in the thorough tier
    add('gl', ('flow_proxy', 'expand'))
    if tier != 'quick':
        for seq in [('flow_proxy', 'expand', 'wvol'), ('flow_proxy', 'expand', 'wvol@d'), ('proxy', 'expand'), ('proxy', 'expand', 'wvol@d'), ('copy', 'expand'),
                    ('expand', 'flow_proxy'), ('expand', 'proxy', 'wvol@d')]:
            add('gl', seq)
    return out


FUNCS_HIST2 = ['thermosteam._stream:Stream.proxy', 'thermosteam._stream:Stream.flow_proxy', 'thermosteam._stream:Stream.copy', 'thermosteam._stream:Stream.scale',
               'thermosteam._stream:Stream.__imul__', 'thermosteam._stream:Stream.__itruediv__', 'thermosteam._stream:Stream.empty',
               'thermosteam._stream:Stream.mix_from', 'thermosteam._stream:Stream.separate_out', 'thermosteam._stream:Stream.split_to',
               'thermosteam._multi_stream:MultiStream.split_to', 'thermosteam._stream:Stream.copy_flow', 'thermosteam._stream:Stream.get_data',
               'thermosteam._stream:Stream.set_data', 'thermosteam._stream:StreamData.__init__', 'thermosteam._stream:Stream.temporary',
               'thermosteam._stream:TemporaryStream.__enter__', 'thermosteam._stream:TemporaryStream.__exit__', 'thermosteam._stream:Stream.copy_phase',
               'thermosteam._stream:Stream.copy_thermal_condition', 'thermosteam._thermal_condition:ThermalCondition.T',
               'thermosteam._thermal_condition:ThermalCondition.copy_like', 'thermosteam._thermal_condition:ThermalCondition.copy',
               'thermosteam._multi_stream:MultiStream.as_stream', 'thermosteam._multi_stream:MultiStream.reduce_phases',
               'thermosteam._stream:Stream.vle', 'thermosteam._stream:Stream.lle', 'thermosteam._stream:Stream.sle',
               'thermosteam._multi_stream:MultiStream.lle', 'thermosteam._multi_stream:MultiStream.sle', 'thermosteam._stream:Stream.sum',
               'thermosteam.indexer:Indexer.copy', 'thermosteam.indexer:ChemicalIndexer._copy_without_data', 'thermosteam.indexer:MaterialIndexer._copy_without_data',
               'thermosteam.indexer:ChemicalIndexer.mix_from', 'thermosteam.indexer:MaterialIndexer.mix_from', 'thermosteam.indexer:ChemicalIndexer.separate_out',
               'thermosteam.indexer:MaterialIndexer.separate_out', 'thermosteam.indexer:ChemicalIndexer.copy_like', 'thermosteam.indexer:MaterialIndexer.copy_like',
               'thermosteam._stream:Stream.link_with', 'thermosteam._stream:Stream.unlink', 'thermosteam._stream:Stream._reset_thermo',
               'thermosteam.indexer:ChemicalMolarFlowIndexer.by_mass', 'thermosteam.indexer:MolarFlowIndexer.by_mass',
               'thermosteam.indexer:ChemicalMolarFlowIndexer.by_volume', 'thermosteam.indexer:MolarFlowIndexer.by_volume',
               'thermosteam.base.dictionary_view:VolumetricFlowDict.output', 'thermosteam.base.dictionary_view:VolumetricFlowDict.input']


@group('C11/gap_histories', configs=hist2_configs, functions=FUNCS_HIST2, assumptions=ASSUME)
def gap_histories(w, cfg):
    """
    After any interleaving of the operations below with view writes and changes of T, P, phase(s), links and package resets,
    EVERY stream involved (the stream, its proxies, flow proxies, copies, split outlets, link partners, mixed-in sources)
    satisfies every relation of the property at its own live temperature, pressure and phase(s); view writes read back.
    touch=all: every stream is observed after every step (all caches are filled before the next operation).
    """
    W.reset_caches()
    ops = cfg['ops']
    kind = cfg['start']
    thA = package(w, 'A'); thB = package(w, 'B')
    s, _ = mk(w, 's', kind, 'A', 'all-pos' if kind == 'l' else 'diag', th=thA)
    Ts = [s.T]; Ps = [s.P]
    live = [('s', s)]
    made = {}

    def other(name):
        if name not in made:
            k = {'ol': 'l', 'og': 'g', 'os': 's', 'ogl': 'gl', 'o': kind, 'a': kind, 'b': kind}[name]
            o, _ = mk(w, name, k, 'A', 'first-pos' if name != 'ogl' else 'diag', th=thA)
            made[name] = o
            Ts.append(o.T); Ps.append(o.P)
        return made[name]
    need = {'expand': ['os'], 'mix_self': ['ol'], 'mix_others': ['ol', 'og'], 'split_to': ['a', 'b'], 'copy_flow': ['ol'], 'set_data': ['og'], 'set_data_multi': ['ogl'],
            'copy_phase': ['og'], 'copy_tc': ['og'], 'sum': ['ol'], 'link': ['o']}
    for op in ops:                                  # all leaves of a path are created up-front, deterministically
        for name in need.get(op.partition('@')[0] if op.endswith('@d') else op, ()): other(name)
    distinct(w, Ts); distinct(w, Ps)
    touch_all = cfg['touch'] == 'all'

    def add_live(name, x_):
        if all(x_ is not y for _, y in live): live.append((name, x_))
    if touch_all:
        observe(w, s, 'step0', units=())
        for name, o in made.items():
            attempt(lambda: (o.imass, o.ivol, o.vol.sum(), o.F_vol))
    canary_done = False
    # (see gap_constructors: vacuity canaries only on histories whose path condition is easy to satisfy)
    easy = not any(o.partition('@')[0] in ('wvol', 'scale', 'imul', 'idiv', 'mix_self', 'mix_others', 'sep', 'split_to', 'temporary', 'sum', 'link') for o in ops)
    main = s
    for n, op in enumerate(ops, 1):
        tag = f'step{n}({op})'
        s = main
        if op.endswith('@d'):               # the operation goes through the most recent derived stream
            op = op[:-2]
            s = live[-1][1]
        multi = isinstance(s, tmo.MultiStream)
        ph = ('l' if 'l' in s.phases else s.phases[0])
        key = (ph, 'Water') if multi else 'Water'
        if op in ('wvol', 'wmass'):
            x = pos(w, f'x{n}')
            name = op[1:]
            getattr(s, 'i' + name)[key] = x
            raw = observe_raw(s)[ph, 'Water']
            per = per_factor(w, s, name, ph, 'Water')
            w.ensure(f'{tag}: write through the {name} view, read back the written value', eq_or_fail(w, attempt(lambda: getattr(s, 'i' + name)[key]), x))
            w.ensure(f'{tag}: molar data = value / (MW, 1000 V(phase,T,P) now)', w.eq(raw * per, x))
            if not canary_done and easy:
                w.canary('canary: view write reads back as x + 1', w.eq(raw * per, x + 1)); canary_done = True
        elif op in ('T', 'tcT'):
            v = pos(w, f'T{n}'); Ts.append(v); distinct_from(w, v, Ts[:-1])
            pre = W.snapshot(s)
            if op == 'T': s.T = v
            else: s.thermal_condition.T = v
            w.ensure(f'{tag}: molar data unchanged by a change of T', W.same_snapshot(w, pre, W.snapshot(s)))
        elif op == 'phase':
            if multi: s.phase = 'l'
            else: s.phase = 'g' if s.phase != 'g' else 'l'
        elif op == 'phases':
            if not multi: s.phases = tuple({'g', 'l', s.phase})
            elif 's' not in s.phases: s.phases = tuple(s.phases) + ('s',)
            else: s.phases = ('g', 'l', 's', 'L')
        elif op == 'unlink':
            pre = [(x_, W.snapshot(x_), x_.T, x_.P) for _, x_ in live]
            s.unlink()
            w.ensure(f'{tag}: molar data, T, P unchanged by unlink (the stream, its proxies and partners)',
                     w.And(*[w.And(W.same_snapshot(w, p_, W.snapshot(x_)), w.eq(x_.T, T_), w.eq(x_.P, P_)) for x_, p_, T_, P_ in pre]))
        elif op == 'link':
            o = other('o')
            if o._thermo is not s._thermo: o._reset_thermo(s._thermo)
            r = attempt(lambda: s.link_with(o))
            if isinstance(o._imol, type(s._imol)):
                w.ensure(f'{tag}: link succeeds for streams of the same class', not isinstance(r, Raised), got=repr(r))
                add_live('o', o)
            else:
                w.ensure(f'{tag}: link of different classes is rejected', isinstance(r, Raised) and isinstance(r.e, RuntimeError), got=repr(r))
        elif op == 'reset':
            # requires (as for link_with in the first round): streams that share one indexer use one property package -
            # a proxy is switched together with its original (left on the old package it would read the shared, re-ordered
            # data with the old chemicals; see the report of the round)
            th = thB if s._thermo is thA else thA
            for x_ in [s] + [y for _, y in live if y is not s and y._imol is s._imol]:
                x_._reset_thermo(th)
        elif op == 'proxy':
            add_live(f'px{n}', s.proxy())
        elif op == 'flow_proxy':
            add_live(f'fp{n}', s.flow_proxy())
        elif op == 'copy':
            add_live(f'cp{n}', s.copy())
        elif op == 'copy_thermo':
            add_live(f'cpB{n}', s.copy(thermo=thB if s._thermo is thA else thA))
        elif op == 'scale':
            s.scale(pos(w, f'c{n}'))
        elif op == 'imul':
            s *= pos(w, f'c{n}')
        elif op == 'idiv':
            s /= pos(w, f'c{n}')
        elif op == 'empty':
            s.empty()
        elif op == 'expand':
            s.mix_from([s, other('os')], energy_balance=False)        # (a solid stream mixed in: the multi-phase stream grows a phase in place)
            add_live('os', other('os'))
        elif op == 'mix_self':
            o = other('ol')
            if o._thermo is not s._thermo: o._reset_thermo(s._thermo)
            s.mix_from([s, o], energy_balance=False)
            add_live('ol', o)
        elif op == 'mix_others':
            s.mix_from([other('ol'), other('og')], energy_balance=False)
            add_live('ol', other('ol')); add_live('og', other('og'))
        elif op == 'sep':
            part = s.copy(); part.scale(0.25)        # (a part of the stream itself: the flows stay non-negative)
            if touch_all: observe(w, part, f'{tag}:part-before', units=())
            s.separate_out(part, energy_balance=False)
            add_live(f'part{n}', part)
        elif op == 'split_to':
            a, b = other('a'), other('b')
            s.split_to(a, b, 0.25, energy_balance=True)
            add_live('a', a); add_live('b', b)
        elif op == 'copy_flow':
            o = other('ol')
            s.copy_flow(o, remove=True)
            add_live('ol', o)
        elif op in ('set_data', 'set_data_multi'):
            o = other('og' if op == 'set_data' else 'ogl')
            s.set_data(o.get_data())
            add_live(o is made.get('og') and 'og' or 'ogl', o)
        elif op == 'get_set':
            d = s.get_data()
            v = pos(w, f'T{n}'); Ts.append(v); distinct_from(w, v, Ts[:-1])
            s.T = v
            getattr(s, 'imass')[key] = pos(w, f'x{n}')
            if multi: s.phases = tuple(s.phases) + tuple(p for p in ('s', 'L') if p not in s.phases)[:1]
            else: s.phase = 'g' if s.phase != 'g' else 'l'
            if touch_all: observe(w, s, f'{tag}:changed', units=())
            s.set_data(d)
        elif op == 'temporary':
            v = pos(w, f'T{n}'); Ts.append(v); distinct_from(w, v, Ts[:-1])
            flow = sym_array(w, [pos(w, f'y{n}.{i}') for i in range(len(s.chemicals.IDs))])
            with s.temporary(flow=flow, T=v) as t:
                observe(w, t, f'{tag}:inside', units=())
        elif op == 'copy_phase':
            if not multi: s.copy_phase(other('og'))        # (a multi-phase stream has no single phase to overwrite: the call is rejected)
        elif op == 'copy_tc':
            pre = W.snapshot(s)
            s.copy_thermal_condition(other('og'))
            w.ensure(f'{tag}: molar data unchanged by a change of T and P', W.same_snapshot(w, pre, W.snapshot(s)))
        elif op in ('as_stream', 'reduce_phases'):
            if multi: s.imass['g'] = 0.               # (only one phase holds material)
            if op == 'as_stream': s.as_stream()
            else: s.reduce_phases()
        elif op in ('vle', 'lle', 'sle'):
            attempt(lambda: getattr(s, op))           # (the accessor makes the stream multi-phase / adds the phases it needs)
        elif op == 'sum':
            o = other('ol')
            if o._thermo is not s._thermo: o._reset_thermo(s._thermo)
            add_live(f'sum{n}', tmo.Stream.sum([s, o], None, s._thermo, energy_balance=False))
        else:
            raise RuntimeError(op)
        if touch_all and n < len(ops):
            for name, x_ in live:
                observe(w, x_, f'{tag}:{name}', units=())
    s = main
    for name, x_ in live:
        observe(w, x_, f'end:{name}', units=('lb/hr', 'L/min') if name == 's' else ())
    if not canary_done and easy:
        x_ = next((y for _, y in live if not y.isempty()), None)
        if x_ is None: w.canary('canary: empty stream has F_mass = 1', w.eq(s.F_mass, 1.))
        else: w.canary('canary: F_mass = F_mol', w.eq(x_.F_mass, x_.F_mol))


# =========================================================================== 5. unit factors between any two supported units, and the units objects themselves

UNITS_BY_DIM = {'mol': ['kmol/hr', 'mol/s', 'mol/hr', 'lbmol/hr'], 'mass': ['kg/hr', 'lb/hr', 'g/min', 'kg/s'], 'vol': ['m3/hr', 'm^3/hr', 'L/min', 'gal/min', 'm3/s']}
TEXTBOOK_FROM_BASE = {'kmol/hr': 1., 'mol/s': 1000. / 3600., 'mol/hr': 1000., 'lbmol/hr': 1. / 0.45359237, 'kg/hr': 1., 'lb/hr': 1. / 0.45359237,
                      'g/min': 1000. / 60., 'kg/s': 1. / 3600., 'm3/hr': 1., 'm^3/hr': 1., 'L/min': 1000. / 60., 'gal/min': 1. / 0.003785411784 / 60., 'm3/s': 1. / 3600.}


def unit_factor_configs(tier):
    return [{'name': f'kind={k};first={first}', 'kind': k, 'first': first} for k in ('l', 'gl') for first in ('Stream', 'MultiStream')]


@group('C11/gap_unit_factors', configs=unit_factor_configs, assumptions=ASSUME, loop_free=True,
       functions=['thermosteam.units_of_measure:AbsoluteUnitsOfMeasure.__new__', 'thermosteam.units_of_measure:AbsoluteUnitsOfMeasure.conversion_factor',
                  'thermosteam.units_of_measure:AbsoluteUnitsOfMeasure.convert', 'thermosteam.units_of_measure:AbsoluteUnitsOfMeasure.unconvert',
                  'thermosteam._stream:Stream._get_flow_name_and_factor', 'thermosteam._stream:Stream.get_flow', 'thermosteam._stream:Stream.set_flow',
                  'thermosteam._multi_stream:MultiStream.get_flow', 'thermosteam._multi_stream:MultiStream.set_flow',
                  'thermosteam.indexer:Indexer.get_conversion_factor'])
def gap_unit_factors(w, cfg):
    """
    A value written in ANY supported unit and read in ANY other unit of the same dimension is the value times the fixed factor
    between the two units (textbook constants); the class-level factor cache is shared by Stream and MultiStream and gives the same
    factors whoever filled it; the units objects convert a value and back to itself.
    """
    W.reset_caches()
    s, _ = mk(w, 's', cfg['kind'], 'A', 'all-pos' if cfg['kind'] == 'l' else 'diag')
    multi = isinstance(s, tmo.MultiStream)
    classes = (tmo.Stream, tmo.MultiStream) if cfg['first'] == 'Stream' else (tmo.MultiStream, tmo.Stream)
    for name, us in UNITS_BY_DIM.items():
        for u in us:
            a = classes[0]._get_flow_name_and_factor(u); b = classes[1]._get_flow_name_and_factor(u)
            const = TEXTBOOK_FROM_BASE[u]
            w.ensure(f'{u}: view and factor are the same for Stream and MultiStream, the factor is the textbook constant',
                     a == b and a[0] == name and abs(a[1] - const) <= 1e-9 * const, got=repr((a, b)))
    key = (s.phases[0], 'Water') if multi else 'Water'
    x = pos(w, 'x'); v = pos(w, 'v')
    for name, us in UNITS_BY_DIM.items():
        for u1 in us[:1] + us[2:3]:                    # written in two of the units of the dimension ...
            s.set_flow(x, u1, key)
            f1 = pint_factor(u1)[1]
            for u2 in us:                              # ... read in every unit of the dimension
                f2 = pint_factor(u2)[1]
                w.ensure(f'written in {u1}, read in {u2}: value * factor(u2) / factor(u1)', eq_or_fail(w, attempt(lambda: s.get_flow(u2, key) * f1), x * f2))
                # the factor between the two units, taken directly from the units object of u1
                direct = attempt(lambda: UofM.AbsoluteUnitsOfMeasure(u1).conversion_factor(u2))
                w.ensure(f'factor {u1} -> {u2} = textbook ratio', (not isinstance(direct, Raised)) and
                         abs(direct - TEXTBOOK_FROM_BASE[u2] / TEXTBOOK_FROM_BASE[u1]) <= 1e-9 * direct, got=repr(direct))
            uo = UofM.AbsoluteUnitsOfMeasure(u1)
            w.ensure(f'{u1}: convert then unconvert returns the value', w.eq(uo.unconvert(uo.convert(v, us[-1]), us[-1]), v))
            w.ensure(f'{u1}: convert = value * factor', w.eq(uo.convert(v, us[-1]), v * uo.conversion_factor(us[-1])))
    observe(w, s, 'after', units=('mol/s', 'g/min', 'gal/min'))
    w.canary('canary: lb/hr reads as kg/hr', w.eq(s.get_flow('lb/hr', key), s.get_flow('kg/hr', key)))
