# -*- coding: utf-8 -*-
"""
C06 -- the heat of reaction of phase-tagged reactions in which ONE chemical appears in TWO phase rows.

Sentence of the property (S1):  reported dH = X * sum over (phase, chemical) of nu/|nu_r| * (Hf + latent heat between the
chemical's reference phase and the phase of THAT ROW) [/ MW by weight] - for every reaction object however it was produced.

The string / dict forms of a reaction name every chemical once, so a chemical with coefficients in two phase rows only
arises through a history.  The routes stated here (all real code, nothing re-implemented):
    a + b, sum([a, b]), a += b, a - b, a -= b      two written reactions with the same reactant that form the same chemical
                                                   in different phases (the net reaction names it in both rows)
    ParallelReaction([a, b]).reduce()              (+= on copies of the members), ParallelReaction + ParallelReaction
    Reaction([[row g], [row l]], phases=...)       the stoichiometry handed over as an array (also: the reactant in both rows)
    istoichiometry[phase, ID] = value              the coefficient of the other phase written through the public indexer
    copy, copy(other basis), backwards, reset_chemicals, k * rxn, members of Parallel-/SeriesReaction holding such a reaction
Everything is built with the helpers of contracts/C06_heat_of_reaction.py (private chemicals with planted Hf / MW / Hfus /
Hvap model / reference phase; specification side level / latent / spec_sum / spec_dH).

Specification side
  * `own(rxn)`: the reaction the OBJECT reports through its public attributes (stoichiometry rows x phases, reactant,
    X, basis) - the sentence (S1) read on the object itself;
  * `net(sa, sb, sign)`: the written net reaction per unit reactant, (Xa nu_a +- Xb nu_b) / (Xa +- Xb), conversion Xa +- Xb;
  * additivity: dH(a + b) = dH(a) + dH(b), dH(a - b) = dH(a) - dH(b)  (consequence of (S1): same reactant, per unit reactant).

Groups
  C06/dH_same_chemical_two_phases             every route; coefficients, conversions, Hf, Hfus, Hvap(298.15), MW symbolic
                                              (reactant coefficient -1, symbolic too in the `nu=free` configurations)
  C06/dH_same_chemical_two_phases_additivity  a, b handed over as arrays with one chemical in EVERY phase row of both (entries
                                              that may cancel in the net reaction) and another in different rows; also a and b
                                              on different bases.  quick: coefficients are numbers of the configuration
                                              (`fixed-nu`), thorough: symbolic as well (see additivity_configs).
Canaries are of the form "= specification + 1" (refuted by the model the explorer already holds; a canary that a degenerate
model - all heats 0 - satisfies costs a nonlinear satisfiability query of seconds), plus "one latent heat per chemical"
on the division-free array routes.

Requires (stated, not to make anything pass): b reacts (X_b > 0; otherwise a + b is a copy of a and no chemical is in two
rows); for a - b additionally X_a > X_b (the code divides by X_a - X_b and the net conversion stays in (0, 1]).
"""
import os
import numpy as np
import thermosteam as tmo
from engine.api import group
from engine.sx import tmo_world as W
from contracts.C06_heat_of_reaction import (
    RXN, IDS, packages, compile_clauses, latent, Spec, spec_sum, spec_dH, make_spec, make_rxn, is_scalar, _desc)

os.environ.setdefault('VERIF_PROVE_FRESH_MS', '8000')

A_, B_, C_ = IDS          # A_: the reactant, B_: the chemical that ends up in two phase rows, C_: a bystander product


# --------------------------------------------------------------------------- specification side

def per_unit(sp):
    """Coefficients of a written reaction per unit of reactant."""
    s = -sp.nu[sp.r]
    return {k: (-1. if k == sp.r else v / s) for k, v in sp.nu.items()}


def net(sa, sb, sign=1.):
    """Net of two written reactions with the same reactant: extents add (sign=+1) or subtract (sign=-1)."""
    na, nb = per_unit(sa), per_unit(sb)
    X = sa.X + sign * sb.X
    nu = {}
    for k in list(na) + [k for k in nb if k not in na]:
        nu[k] = -1. if k == sa.r else (sa.X * na.get(k, 0.) + sign * sb.X * nb.get(k, 0.)) / X
    return Spec(nu, sa.r, X, sa.basis)


def reversed_spec(sp, new_r, X=None):
    return Spec({k: -v for k, v in sp.nu.items()}, new_r, sp.X if X is None else X, sp.basis)


def scaled(sp, k):
    return Spec(sp.nu, sp.r, sp.X * k, sp.basis)


def dense_rows(rxn):
    st = rxn.stoichiometry
    return [[rw.dct.get(j, 0.) for j in range(rw.size)] for rw in st.rows]


def own(rxn):
    """The reaction the object reports about itself: rows x phases of `stoichiometry`, `reactant`, `X`, `basis`."""
    phases, ids = tuple(rxn.phases), rxn.chemicals.IDs
    rows = dense_rows(rxn)
    nu = {(ph, ID): rows[i][j] for i, ph in enumerate(phases) for j, ID in enumerate(ids)
          if not (isinstance(rows[i][j], float) and rows[i][j] == 0.)}
    return Spec(nu, tuple(rxn.reactant), rxn.X, rxn.basis)


def nz(w, x):
    """x is not zero (natively the exact test: the tolerance of the native `eq` scales with the largest leaf and would call
    a coefficient of 1e-7 next to a leaf of 1e3 zero)."""
    return w.ne(x, 0.) if w.symbolic else bool(x != 0.)


def two_rows(w, rxn, ID):
    """`ID` carries a non-zero coefficient in at least two phase rows of the object."""
    j = rxn.chemicals.IDs.index(ID)
    col = [r[j] for r in dense_rows(rxn)]
    return w.Or(*[w.And(nz(w, col[m]), nz(w, col[n])) for m in range(len(col)) for n in range(m + 1, len(col))])


def other_basis(b):
    return 'wt' if b == 'mol' else 'mol'


# --------------------------------------------------------------------------- 1. every route

ROUTES = ('add', 'sum', 'iadd', 'sub', 'isub', 'reduce', 'set-add', 'array', 'array-reactant-twice', 'indexer', 'copy',
          'copy-other-basis', 'backwards', 'reset', 'mul', 'parallel-item', 'series-item')
QUICK_WT = ('add', 'iadd', 'sub', 'reduce', 'array', 'copy-other-basis', 'backwards', 'parallel-item')


def route_configs(tier):
    out = []

    def add(route, basis, refs, tb, phases, **kw):
        nm = f'{route};refs={refs};B in {tb};phases={phases};{basis}' + ''.join(f';{k}={v}' for k, v in kw.items())
        out.append(dict({'name': nm, 'route': route, 'basis': basis, 'refs': refs, 'tb': tb, 'phases': phases}, **kw))

    for route in ROUTES:
        for basis in ('mol', 'wt'):
            if tier == 'quick' and basis == 'wt' and route not in QUICK_WT: continue
            add(route, basis, 'glg' if basis == 'mol' else 'lsl', 'gl', 'gl')
    # the chemical's reference phase is neither / the first / the second of the two rows; three phases
    add('add', 'mol', 'ggs', 'gl', 'gl'); add('iadd', 'mol', 'ssl', 'gl', 'gls'); add('reduce', 'mol', 'lgl', 'gs', 'gls')
    add('array', 'mol', 'sls', 'ls', 'gls'); add('sub', 'mol', 'lsg', 'gl', 'gl')
    # every coefficient (also the reactant's) is symbolic
    add('add', 'mol', 'glg', 'gl', 'gl', nu='free'); add('add', 'wt', 'lsl', 'gl', 'gl', nu='free')
    if tier == 'thorough':
        for route in ROUTES:
            for basis in ('mol', 'wt'):
                for refs, tb, phases in (('lgs', 'gl', 'gls'), ('sss', 'gs', 'gls'), ('ggl', 'ls', 'gls'), ('lll', 'gl', 'gl')):
                    add(route, basis, refs, tb, phases)
                add(route, basis, 'gls', 'gl', 'gl', nu='free')
    return out


ROUTE_FUNCS = [RXN + 'Reaction.dH', RXN + 'ReactionItem.dH', RXN + 'Reaction.__add__', RXN + 'Reaction.__radd__', RXN + 'Reaction.__iadd__',
               RXN + 'Reaction.__sub__', RXN + 'Reaction.__isub__', RXN + 'Reaction.__mul__', RXN + 'Reaction._math_compatible_reaction',
               RXN + 'Reaction.has_reaction', RXN + 'Reaction.copy', RXN + 'Reaction.backwards', RXN + 'Reaction.reset_chemicals',
               RXN + 'Reaction.__init__', RXN + 'Reaction._rescale', RXN + 'Reaction.istoichiometry', RXN + 'Reaction.reactant',
               RXN + 'set_reaction_basis', RXN + 'ParallelReaction.reduce', RXN + 'ParallelReaction.__add__', RXN + 'ReactionSet.__init__',
               RXN + 'ReactionSet.__getitem__', RXN + 'ReactionSet.__iter__', RXN + 'ReactionItem.__init__', RXN + 'ReactionItem.copy',
               RXN + 'ReactionItem.X', 'thermosteam.reaction._xparse:get_stoichiometric_array', 'thermosteam.base.sparse:sparse_array',
               'thermosteam.indexer:MaterialIndexer.__setitem__']


def _operands(w, cfg, chems, phases):
    """a: A,p0 -> B,p0 + C,last   b: A,p0 -> B,p1   (written with the dict form: every chemical named once)."""
    basis, tb = cfg['basis'], cfg['tb']
    unit = cfg.get('nu') != 'free'
    p0, p1 = tb
    sa = make_spec(w, 'a', _desc((A_, B_, C_), A_, p0 + p0 + phases[-1]), basis, unit_reactant=unit)
    sb = make_spec(w, 'b', _desc((A_, B_), A_, p0 + p1), basis, unit_reactant=unit)
    a = make_rxn(sa, chems, True, phases)
    b = make_rxn(sb, chems, True, phases)
    return sa, sb, a, b


@group('C06/dH_same_chemical_two_phases', configs=route_configs, l0=True, functions=ROUTE_FUNCS, assumptions=['A-models'])
def dH_two_phases(w, cfg):
    """(S1) for reactions in which the same chemical carries coefficients in two phase rows, however they were produced."""
    W.reset_caches()
    route, basis, phases = cfg['route'], cfg['basis'], tuple(cfg['phases'])
    pk, data = packages(w, ['P', 'Q'], refs=cfg['refs'], sym_MW=True)
    chems, other = pk['P'], pk['Q']
    compile_clauses(w, chems, data)
    p0, p1 = cfg['tb']

    def check(name, rxn, sp, canary=True, twice=False):
        got = rxn.dH
        w.ensure(f'{name}: dH is a number', is_scalar(got), shape=str(np.shape(got)))
        if not is_scalar(got): return got
        w.ensure(f'{name}: dH = X * sum over (phase, chemical) of nu (Hf + latent of that phase) [/MW] of the written reaction',
                 w.eq(got, spec_dH(sp, data)))
        w.ensure(f'{name}: dH = X * sum over (phase, chemical) of nu (Hf + latent of that phase) [/MW] of the reaction the object reports',
                 w.eq(got, spec_dH(own(rxn), data)))
        if canary:
            w.canary(f'canary: {name}: dH = spec + 1', w.eq(got, spec_dH(sp, data) + 1))
        if twice:
            # one latent heat per chemical (that of the first row it is named in) is NOT the sentence
            first = {}
            for (ph, ID) in sp.nu: first.setdefault(ID, ph)
            wrong = sp.X * sum([v / (-sp.nu[sp.r]) * (data[ID]['Hf'] + latent(data[ID], first[ID])) / (data[ID]['MW'] if sp.basis == 'wt' else 1.)
                                for (ph, ID), v in sp.nu.items()], 0.)
            w.canary(f'canary: {name}: one latent heat per chemical', w.eq(got, wrong))
        return got

    if route in ('array', 'array-reactant-twice'):
        ids = chems.IDs
        X = w.real('rx.X', lo=0., hi=1.)
        nu = {(p0, A_): -1., (p0, B_): w.real('nu.B.0', nonzero=True), (p1, B_): w.real('nu.B.1', nonzero=True),
              (phases[-1], C_): w.real('nu.C', nonzero=True)}
        if route == 'array-reactant-twice': nu[p1, A_] = w.real('nu.A.1', hi=0., hi_strict=True)
        rows = [[nu.get((ph, ID), 0.) for ID in ids] for ph in phases]
        rxn = tmo.Reaction(rows, reactant=A_, X=X, chemicals=chems, basis=basis, phases=phases)
        first = min(phases.index(p0), phases.index(p1)) if route == 'array-reactant-twice' else phases.index(p0)
        w.ensure('phases and reactant of the reaction handed over as an array', tuple(rxn.phases) == phases and rxn.reactant == (phases[first], A_))
        sp = Spec(nu, (phases[first], A_), X, basis)
        w.ensure('the chemical is in two phase rows', two_rows(w, rxn, B_))
        check('handed over as an array', rxn, sp, twice=True)
        return

    sa, sb, a, b = _operands(w, cfg, chems, phases)
    w.assume(w.gt(sb.X, 0.))                                         # b reacts
    minus = route in ('sub', 'isub')
    if minus: w.assume(w.gt(sa.X, sb.X))
    dHa = check('operand a', a, sa, canary=False)
    dHb = check('operand b', b, sb, canary=False)
    if not (is_scalar(dHa) and is_scalar(dHb)): return
    sc = net(sa, sb, -1. if minus else 1.)

    if route == 'indexer':
        v = w.real('nu.B.1', nonzero=True)
        a.istoichiometry[p1, B_] = v
        nu = per_unit(sa); nu[p1, B_] = v
        sp = Spec(nu, sa.r, sa.X, basis)
        w.ensure('the coefficient written through the indexer is reported', w.eq(a.istoichiometry[p1, B_], v))
        check('coefficient of the second phase written through istoichiometry', a, sp)
        return

    if route == 'add': c = a + b
    elif route == 'sum': c = sum([a, b])
    elif route == 'iadd': c = a; c += b
    elif route == 'sub': c = a - b
    elif route == 'isub': c = a; c -= b
    elif route == 'reduce':
        red = tmo.ParallelReaction([a, b]).reduce()
        w.ensure('reduce: one reaction per reactant', len(list(red)) == 1)
        c = red[0]
    elif route == 'set-add':
        Pa, Pb = tmo.ParallelReaction([a]), tmo.ParallelReaction([b])
        c = (Pa + Pb)[0]
    else:
        c = a + b
    w.ensure('the chemical is in two phase rows unless a does not react', w.Or(w.Not(nz(w, sa.X)), two_rows(w, c, B_)))
    w.ensure('net reaction: same phases and reactant', tuple(c.phases) == phases and tuple(c.reactant) == sa.r)

    if route in ('add', 'sum', 'iadd', 'sub', 'isub', 'reduce', 'set-add'):
        got = check(f'net reaction ({route})', c, sc)
        if is_scalar(got):
            if minus: w.ensure('dH(a - b) = dH(a) - dH(b)', w.eq(got, dHa - dHb))
            else: w.ensure('dH(a + b) = dH(a) + dH(b)', w.eq(got, dHa + dHb))
            w.canary('canary: dH of the net reaction = dH(a) +- dH(b) + 1', w.eq(got, (dHa - dHb if minus else dHa + dHb) + 1))
        if route in ('add', 'sum', 'sub'):
            check('operand a after the operation', a, sa, canary=False)
        check('operand b after the operation', b, sb, canary=False)
    elif route == 'copy':
        cp = c.copy()
        check('copy of the net reaction', cp, sc)
        cp.X = X2 = w.real('X2', lo=0., hi=1.)
        check('copy after its conversion was set', cp, Spec(sc.nu, sc.r, X2, basis), canary=False)
        check('net reaction after its copy was changed', c, sc, canary=False)
    elif route == 'copy-other-basis':
        ob = other_basis(basis)
        cp = c.copy(ob)
        w.ensure('copy has the requested basis', cp.basis == ob)
        got_c, got = c.dH, cp.dH
        w.ensure('copy on the other basis: dH is a number', is_scalar(got))
        if is_scalar(got) and is_scalar(got_c):
            mw = data[A_]['MW']
            by_wt, by_mol = (got, got_c) if basis == 'mol' else (got_c, got)
            w.ensure('copy on the other basis: dH by weight * MW of the reactant = dH by mol', w.eq(by_wt * mw, by_mol))
            w.ensure('copy on the other basis: dH = X * sum over (phase, chemical) of nu (Hf + latent of that phase) [/MW] of the reaction the object reports',
                     w.eq(got, spec_dH(own(cp), data)))
            w.canary('canary: copy on the other basis: dH by weight * MW of the reactant = dH by mol + 1', w.eq(by_wt * mw, by_mol + 1))
        check('net reaction after copy(basis)', c, sc, canary=False)
    elif route == 'backwards':
        bw = c.backwards(reactant=B_)
        r = tuple(bw.reactant)
        w.ensure('reverse reaction: the reactant is the chemical in one of its two rows', r in ((p0, B_), (p1, B_)))
        if r in sc.nu:
            w.ensure('reverse reaction: the row of the reactant is one where the chemical takes part', nz(w, sc.nu[r]))
            check('reverse of the net reaction', bw, reversed_spec(sc, r))
        check('net reaction after backwards', c, sc, canary=False)
    elif route == 'reset':
        c.reset_chemicals(other)
        w.ensure('reaction is on the new package', c.chemicals is other)
        w.ensure('reactant unchanged by the move', tuple(c.reactant) == sa.r)
        check('net reaction moved to the other package', c, sc)
        c.reset_chemicals(chems)
        check('net reaction moved back', c, sc, canary=False)
    elif route == 'mul':
        k = w.real('k', lo=0., hi=1.)
        check('k * net reaction', k * c, scaled(sc, k))
        check('net reaction after the product was made', c, sc, canary=False)
    elif route in ('parallel-item', 'series-item'):
        sd = make_spec(w, 'd', _desc((B_, C_), B_, p1 + phases[-1]), basis, unit_reactant=True)
        d = make_rxn(sd, chems, True, phases)
        obj = (tmo.ParallelReaction if route == 'parallel-item' else tmo.SeriesReaction)([c, d])
        check('member 0 (indexed) of the set', obj[0], sc)
        check('member 0 (iterated) of the set', list(obj)[0], sc, canary=False)
        check('member 1 of the set', obj[1], sd, canary=False)
        check('copy of member 0', obj[0].copy(), sc, canary=False)
    w.ensure('package Hf array unchanged', w.all_eq(list(chems.Hf), [data[i]['Hf'] for i in chems.IDs]))


# --------------------------------------------------------------------------- 2. additivity for general a, b over the same phases

def additivity_configs(tier):
    """quick: the coefficients are numbers of the configuration (`fixed-nu`, as for the reaction sets of C06/isothermal; the
    conversions and the chemicals' data stay symbolic) - a FALSE additivity clause over symbolic coefficients costs the
    solver minutes per path (measured on the seeded change C06_5), and C06/dH_same_chemical_two_phases states additivity
    with symbolic coefficients for the written reactions; thorough: symbolic coefficients as well."""
    out = []

    def add(op, basis, refs, phases, nu, **kw):
        nm = f'{op};refs={refs};phases={phases};{basis}' + ('+' + other_basis(basis) if kw.get('mixed') else '') + (';fixed-nu' if nu == 'fixed' else '')
        out.append(dict({'name': nm, 'op': op, 'basis': basis, 'refs': refs, 'phases': phases, 'nu': nu}, **kw))

    for nu in ('fixed',) + (('free',) if tier == 'thorough' else ()):
        for op in ('add', 'iadd', 'sub', 'reduce'):
            for basis in ('mol', 'wt'):
                add(op, basis, 'lgs', 'gl', nu)
                if tier == 'thorough' or (op, basis) in (('add', 'mol'), ('sub', 'wt')): add(op, basis, 'sgl', 'gls', nu)
        add('add', 'mol', 'gls', 'gl', nu, mixed=True)
        add('iadd', 'wt', 'gls', 'gl', nu, mixed=True)
    return out


_NUMBERS = {'a': (2., 0.5, 3., 1.5), 'b': (0.75, 1.25, -0.25, 4.)}


def _array_rxn(w, tag, chems, phases, basis, X, c_row, fixed=False):
    """A phase-tagged reaction handed over as an array: the reactant in the first row (-1), the chemical B in EVERY phase
    row, the chemical C in row `c_row` (a and b name it in different rows, so the net reaction has it in two rows as well;
    the entries of B overlap: every one of them may cancel in the net reaction)."""
    ids = chems.IDs
    num = iter(_NUMBERS[tag])
    coef = (lambda name: next(num)) if fixed else (lambda name: w.real(name, nonzero=True))
    nu = {(phases[0], A_): -1., (phases[c_row], C_): coef(f'{tag}.nu.{phases[c_row]}.{C_}')}
    for ph in phases: nu[ph, B_] = coef(f'{tag}.nu.{ph}.{B_}')
    rows = [[nu.get((ph, ID), 0.) for ID in ids] for ph in phases]
    rxn = tmo.Reaction(rows, reactant=A_, X=X, chemicals=chems, basis=basis, phases=phases)
    return Spec(nu, (phases[0], A_), X, basis), rxn


@group('C06/dH_same_chemical_two_phases_additivity', configs=additivity_configs, l0=True,
       functions=[RXN + 'Reaction.dH', RXN + 'ReactionItem.dH', RXN + 'Reaction.__add__', RXN + 'Reaction.__iadd__', RXN + 'Reaction.__sub__',
                  RXN + 'Reaction._math_compatible_reaction', RXN + 'Reaction.has_reaction', RXN + 'Reaction.copy', RXN + 'set_reaction_basis',
                  RXN + 'ParallelReaction.reduce', RXN + 'Reaction.__init__', RXN + 'Reaction._rescale'],
       assumptions=['A-models'])
def dH_additivity(w, cfg):
    """dH(a + b) = dH(a) + dH(b), dH(a - b) = dH(a) - dH(b) for phase-tagged a, b over the same phases with the same reactant,
    one chemical in EVERY phase row of both, another in different rows of a and b; each side is the sentence (S1) of its reaction."""
    W.reset_caches()
    op, basis, phases = cfg['op'], cfg['basis'], tuple(cfg['phases'])
    pk, data = packages(w, ['P'], refs=cfg['refs'], sym_MW=True)
    chems = pk['P']
    Xa = w.real('a.X', lo=0., hi=1.)
    Xb = w.real('b.X', lo=0., hi=1., lo_strict=True)
    if op == 'sub': w.assume(w.gt(Xa, Xb))
    fixed = cfg.get('nu') == 'fixed'
    sa, a = _array_rxn(w, 'a', chems, phases, basis, Xa, 0, fixed)
    sb, b = _array_rxn(w, 'b', chems, phases, other_basis(basis) if cfg.get('mixed') else basis, Xb, -1, fixed)
    dHa, dHb = a.dH, b.dH
    w.ensure('dH of a, b are numbers', is_scalar(dHa) and is_scalar(dHb))
    if not (is_scalar(dHa) and is_scalar(dHb)): return
    w.ensure('dH(a) = X * sum over (phase, chemical) of nu (Hf + latent of that phase) [/MW]', w.eq(dHa, spec_dH(sa, data)))
    w.ensure('dH(b) = X * sum over (phase, chemical) of nu (Hf + latent of that phase) [/MW]', w.eq(dHb, spec_dH(sb, data)))
    w.canary('canary: dH(b) ignores the latent heats', w.eq(dHb, sb.X * spec_sum(sb, data, 'Hf')))        # (no division: cheap)
    if cfg.get('mixed'):
        # b is brought to the basis of a by the operator: its heat per unit of the (same) reactant on that basis
        mw = data[A_]['MW']
        dHb = dHb * mw if basis == 'mol' else dHb / mw       # b is by weight (J/g) and a by mol (J/mol), or the other way round
    if op == 'add': c = a + b
    elif op == 'iadd': c = a; c += b
    elif op == 'sub': c = a - b
    else: c = tmo.ParallelReaction([a, b]).reduce()[0]
    got = c.dH
    w.ensure('dH of the net reaction is a number', is_scalar(got))
    if not is_scalar(got): return
    if op == 'sub':
        w.ensure('dH(a - b) = dH(a) - dH(b)', w.eq(got, dHa - dHb))
    else:
        w.ensure('dH(a + b) = dH(a) + dH(b)', w.eq(got, dHa + dHb))
    w.ensure('net reaction: dH = X * sum over (phase, chemical) of nu (Hf + latent of that phase) [/MW] of the reaction the object reports',
             w.eq(got, spec_dH(own(c), data)))
    w.canary('canary: dH of the net reaction = dH(a) +- dH(b) + 1', w.eq(got, (dHa - dHb if op == 'sub' else dHa + dHb) + 1))
