# -*- coding: utf-8 -*-
"""
C14 (gap round) — every derived stream property reflects the current state, never a stale one.

The sentence of the property is the `ensures` of every read below (helpers of contracts/C14_property_cache.py):

    value of property p read from stream x  ==  value of p read from a *freshly created* stream on the
    same property package with the same flows, phase(s), T and P

What the groups of C14_property_cache.py do not look at, and what is added here

  C14/gap_views        the phase views ms[phase] of a multi-phase stream as an observation channel AFTER the stream itself
                       went through a structural mutator (phases=, property-package change, link_with, unlink,
                       copy_like / mix_from / set_data that add phases in place, collapse and re-expansion, proxy).
                       A view fetched after the mutation must show the value of a fresh single-phase stream made of
                       the PARENT's row, T, P and package (the view is the parent's phase); a view object held from
                       before the mutation must at least be fresh with respect to its own flows/T/P/package.
  C14/gap_mutators     public mutators never run by C14: mass/volume-basis totals and flows (F_mass=, F_vol=,
                       set_total_flow, set_flow in kg/hr, imass[...]=, mass=), h=, Hnet=, MultiStream.S=/F_mol=,
                       += / -= / /=, mix_from with energy balance and two inlets / Q / conserve_phases / all inlets empty /
                       a multi-phase inlet, separate_out with energy balance, split_to (both receivers, both classes,
                       receiver on another package), copy_flow with IDs / exclude / remove (the SOURCE is mutated) and
                       the MultiStream form with a phase, partial links (flow only, T/P only), the low-level public
                       channels (thermal_condition.T=, thermal_condition.copy_like, imol.phase=, mol[i]=, mol*=,
                       mol.clear(), imol.empty(), _update_material_flows, empty_negative_flows, reduce_phases, as_stream),
                       reset_flow with total_flow/units, MultiStream.reset_flow, temporary(), the H setter's
                       "first phase fails" fall-back, and sources of another class / phase set / property package.
  C14/gap_new_objects  streams PRODUCED from a stream whose memo is filled (copy, copy(thermo=), __copy__, sum, +, -x,
                       x*k, k*x, x/k, from_data, __reduce__): the product and the source are read in all orders while
                       either is mutated; neither may show a value memoised for the other.
  C14/gap_real         (mode B) real property package, real flash solvers: vle / lle / vlle / mix_from(vle=True) /
                       receive_vent / volume-basis writes (ivol[...]=, vol=, set_flow in m3/hr) interleaved with reads
                       of the stream and of its phase views.
"""
import copy as _copy
import itertools
import thermosteam as tmo
from engine.api import group, CheckAbort
from engine.sx import tmo_world as W
from contracts.C14_property_cache import (A, B, X, KINDS, _present, _Prefixed, fresh_of, state_of, same_state, read,
                                          apply, final_reads, _canary, _early_canary, PRIMARY)

W.preload([A, B])


# --------------------------------------------------------------------------- oracle for a phase view

def view_oracle(s, ph):
    """A freshly created single-phase stream on the parent's package with the parent's row of `ph`, T and P."""
    f = tmo.Stream(None, thermo=s._thermo, phase=ph)
    row = dict(W.rows_of(s))[ph]
    for i, v in row.dct.items():
        f._imol.data.dct[i] = v
    tc = s._thermal_condition
    f._thermal_condition._T = tc._T
    f._thermal_condition._P = tc._P
    return f


def read_view(x, s, ph, prop, label):
    """Read `prop` through the view s[ph] (fetched now); fresh with respect to the parent's current state."""
    w = x.w
    pre = state_of(s)
    v = s[ph]
    val = getattr(v, prop)
    ref = getattr(view_oracle(s, ph), prop)
    w.ensure(f'{label}: {prop} through the view [{ph}] = value on a fresh stream of that phase', w.eq(val, ref), prop=prop)
    w.ensure(f'{label}: reading the view [{ph}] leaves flows/phase/T/P of the stream unchanged', same_state(w, pre, state_of(s)))
    return val, ref


def _early_view_canary(x, prop='H'):
    """Vacuity guard on a side path that ends right after the world is built (see C14_property_cache._early_canary)."""
    w = x.w; s = x.s
    x.early = True
    if w.real('canary.switch') > 0.:
        ph = s.phases[-1]
        w.canary(f'canary: {prop} through a view is off by one', w.eq(getattr(s[ph], prop), getattr(view_oracle(s, ph), prop) + 1.))
        raise CheckAbort()


# --------------------------------------------------------------------------- more operations (tokens)

def _fail_first_solve(mix):
    """For the H setter's fall-back: the first temperature solve raises (as a real solver does when the enthalpy is out of
    reach of the phase), every later one obeys A-root.  Returns the class to restore."""
    base = type(mix)
    state = {'n': 0}

    class FirstSolveFails(base):
        __slots__ = ()

        def solve_T_at_HP(self, phase, mol, H, T_guess, P):
            state['n'] += 1
            if state['n'] == 1:
                raise RuntimeError('no temperature in this phase has that enthalpy')
            return base.solve_T_at_HP(self, phase, mol, H, T_guess, P)
    mix.__class__ = FirstSolveFails
    return base


GKINDS = dict(KINDS, s='s', ls=('l', 's'))
FIXED_FLOWS = (2.0, 3.0, 0.5, 1.25, 4.0, 0.75, 1.5, 2.5, 3.5, 0.25, 5.0, 6.0)


def other2(x):
    if getattr(x, 'o2', None) is None:
        phases = GKINDS[x.o_kind]
        x.o2, _ = W.stream_on(x.w, 'o2', x.thA, phases, present=_present(phases, 'pos+pos'))
    return x.o2


def gapply(x, tok):
    """One token of a history.  New tokens are handled here, all others by C14_property_cache.apply."""
    op, _, arg = tok.partition(':')
    if op not in GAP_OPS:
        return apply(x, tok)
    w = x.w; s = x.s
    x.step += 1
    lab = f'step{x.step} {tok}'
    multi = isinstance(s, tmo.MultiStream)
    pos = lambda base: x.leaf(base, lo=0., lo_strict=True)
    # ---- totals and flows on a mass / volume basis
    if op == 'Fmass':
        s.F_mass = pos('F')
    elif op == 'Fmass0':
        s.F_mass = 0.
    elif op == 'Fvol':
        s.F_vol = pos('F')
    elif op == 'Fmol':                         # (MultiStream too)
        s.F_mol = pos('F')
    elif op == 'tot':
        s.set_total_flow(pos('F'), arg)
    elif op == 'setflowu':
        if multi: s.set_flow(pos('n'), arg, (s.phases[-1], 'Ethanol'))
        else: s.set_flow(pos('n'), arg, 'Ethanol')
    elif op == 'imass':
        if multi: s.imass[s.phases[-1], 'Ethanol'] = pos('m')
        else: s.imass['Ethanol'] = pos('m')
    elif op == 'mass=':
        if multi: return False
        s.mass = [pos('m'), pos('m')]
    # ---- energy specifications
    elif op == 'h=':
        s.h = x.leaf('hspec')
    elif op == 'Hnet=':
        s.Hnet = x.leaf('Hspec')
    elif op == 'H=fail':
        if multi: return False
        base = _fail_first_solve(s.mixture)
        try:
            s.H = x.leaf('Hspec')
        finally:
            s.mixture.__class__ = base
        w.ensure(f'{lab}: harness: the fall-back changed the phase', s.phase == 'g')
    # ---- operators
    elif op == 'iadd':
        s += x.other()
    elif op == 'isub':
        s += x.other()
        s -= x.o
    elif op == 'idiv':
        s /= pos('k')
    # ---- mixing / separating / splitting
    elif op == 'mixH':
        s.mix_from([s, x.other()], energy_balance=True)
    elif op == 'mixHQ':
        s.mix_from([s, x.other()], energy_balance=True, Q=x.leaf('Q', nonzero=True))
    elif op == 'mix2o':
        s.mix_from([x.other(), other2(x)], energy_balance=(arg == 'H'))
    elif op == 'mixcons':
        s.mix_from([s, x.other()], energy_balance=False, conserve_phases=True)
    elif op == 'mix0':
        o = x.other(); o.empty()
        s.mix_from([o, other2(x)] if arg == '2' else [o], energy_balance=(arg != 'noH'))
    elif op == 'sepH':
        s.mix_from([s, x.other()], energy_balance=False)
        s.separate_out(x.o, energy_balance=True)
    elif op == 'sepself':
        s.separate_out(s, energy_balance=False)
    elif op == 'split':                        # the stream under observation is the first receiver
        src = x.other()
        k = x.leaf('split', lo=0., hi=1., lo_strict=True, hi_strict=True)
        src.split_to(s, other2(x), k, energy_balance=(arg != 'noE'))
    elif op == 'split2':                       # ... the second receiver
        src = x.other()
        k = x.leaf('split', lo=0., hi=1., lo_strict=True, hi_strict=True)
        src.split_to(other2(x), s, k, energy_balance=(arg != 'noE'))
    elif op == 'splitsrc':                     # ... the source
        k = x.leaf('split', lo=0., hi=1., lo_strict=True, hi_strict=True)
        s.split_to(x.other(), other2(x), k, energy_balance=(arg != 'noE'))
    # ---- copy_flow forms
    elif op == 'cf':
        o = x.other()
        if arg == 'ID': s.copy_flow(o, 'Ethanol') if not multi else s.copy_flow(o, ..., 'Ethanol')
        elif arg == 'IDs': s.copy_flow(o, ('Ethanol', 'Water')) if not multi else s.copy_flow(o, ..., ('Ethanol', 'Water'))
        elif arg == 'excl': s.copy_flow(o, ('Water',), exclude=True) if not multi else s.copy_flow(o, ..., ('Water',), exclude=True)
        elif arg == 'rm': s.copy_flow(o, remove=True)
        elif arg == 'IDrm': s.copy_flow(o, 'Ethanol', remove=True) if not multi else s.copy_flow(o, ..., 'Ethanol', remove=True)
        elif arg == 'phase':
            if not multi: return False
            s.copy_flow(o, s.phases[-1])
        elif arg == 'phaseID':
            if not multi: return False
            s.copy_flow(o, s.phases[-1], 'Ethanol')
        elif arg == 'phaserm':
            if not multi: return False
            s.copy_flow(o, s.phases[-1], remove=True)
        else:
            raise RuntimeError(tok)
    # ---- low-level public channels to the state
    elif op == 'tcT':
        s.thermal_condition.T = pos('T')
    elif op == 'tcP':
        s.thermal_condition.P = pos('P')
    elif op == 'tccopy':
        s.thermal_condition.copy_like(x.other().thermal_condition)
    elif op == 'iphase':
        if multi: return False
        s.imol.phase = arg
    elif op == 'molidx':
        v = pos('n')
        if multi: s.imol.data[len(s.phases) - 1, 1] = v
        else: s.mol[1] = v
    elif op == 'molimul':
        d = s.imol.data
        d *= pos('k')
    elif op == 'molclear':
        s.imol.data.clear()
    elif op == 'imolempty':
        s.imol.empty()
    elif op == 'umf':
        if multi: return False
        if arg == 'idx': s._update_material_flows(pos('n'), 1)
        else: s._update_material_flows([pos('n'), pos('n')])
    elif op == 'negfix':                       # a negative flow is planted first, then removed
        if multi: s.imol.data[len(s.phases) - 1, 1] = x.leaf('neg', hi=0., hi_strict=True)
        else: s.mol[1] = x.leaf('neg', hi=0., hi_strict=True)
        s.empty_negative_flows()
    elif op == 'redph':
        s.reduce_phases()
    elif op == 'asstream':
        if not multi: s.as_stream(); return True
        for ph in s.phases[:-1]:               # leave one phase only, then cast
            s.imol[ph] = 0
        s.as_stream()
    elif op == 'mreset':
        if not multi: return False
        s.reset_flow(**{s.phases[-1]: [('Water', pos('n'))]}, units='kmol/hr', phases=s.phases)
    elif op == 'resetflowtot':
        if multi: return False
        s.reset_flow(Water=pos('n'), Ethanol=pos('n'), total_flow=pos('F'), units='kg/hr')
    elif op == 'temp':                         # temporary(): reads inside the block and after it
        with s.temporary(T=pos('T'), P=pos('P') if arg == 'TP' else None) as t:
            read(x, t, 'H', f'{lab} inside')
        read(x, s, 'H', f'{lab} after')
    elif op == 'tempflow':
        with s.temporary(flow=[pos('n'), pos('n')]) as t:
            if multi: raise RuntimeError('harness')
            read(x, t, 'H', f'{lab} inside')
        read(x, s, 'H', f'{lab} after')
    # ---- partial links
    elif op == 'linkflow':
        o = x.other()
        if type(o) is not type(s): return False
        s.link_with(o, TP=False, phase=False)
        x.linked = True
    elif op == 'linkTP':
        o = x.other()
        if type(o) is not type(s): return False
        s.link_with(o, flow=False, phase=False)
        x.linked = True
    elif op == 'linkphase':
        o = x.other()
        if type(o) is not type(s) or multi: return False
        s.link_with(o, flow=False, TP=False)
        x.linked = True
    elif op == 'rowzero':                      # a whole phase is emptied
        if not multi or arg not in s.phases: return False
        s.imol[arg] = 0
    elif op == 'oP':
        x.other().P = pos('P')
    elif op == 'oempty':
        x.other().empty()
    elif op == 'osc':
        x.other().scale(pos('k'))
    # ---- views as handles
    elif op == 'pvr':                          # read through a view of the proxy   pvr:<phase>:<prop>
        if x.p is None or not isinstance(x.p, tmo.MultiStream): return False
        ph, _, prop = arg.partition(':')
        if ph not in x.p.phases: return False
        read_view(x, x.p, ph, prop, lab)
    elif op == 'vrp':                          # read through a view, parent-derived oracle   vrp:<phase>:<prop>
        if not multi: return False
        ph, _, prop = arg.partition(':')
        if ph not in s.phases: return False
        read_view(x, s, ph, prop, lab)
    else:
        raise RuntimeError(f'unknown token {tok}')
    return True


GAP_OPS = {'Fmass', 'Fmass0', 'Fvol', 'Fmol', 'tot', 'setflowu', 'imass', 'mass=', 'h=', 'Hnet=', 'H=fail', 'iadd', 'isub', 'idiv',
           'mixH', 'mixHQ', 'mix2o', 'mixcons', 'mix0', 'sepH', 'sepself', 'split', 'split2', 'splitsrc', 'cf', 'tcT', 'tcP', 'tccopy',
           'iphase', 'molidx', 'molimul', 'molclear', 'imolempty', 'umf', 'negfix', 'redph', 'asstream', 'mreset', 'resetflowtot',
           'temp', 'tempflow', 'linkflow', 'linkTP', 'linkphase', 'oP', 'oempty', 'osc', 'pvr', 'vrp', 'rowzero'}
# tokens that take the other stream(s) as a source only (frame: the source is unchanged) -- checked here for the new ones
SOURCE_ONLY = {'iadd', 'isub', 'mixH', 'mixHQ', 'mix2o', 'mixcons', 'sepH', 'tccopy'}


def run(x, ops):
    for tok in ops:
        op = tok.partition(':')[0]
        if op in SOURCE_ONLY and not x.linked:
            o = x.other(); pre = state_of(o)
            ok = gapply(x, tok)
            x.w.ensure(f'step{x.step} {tok}: source stream unchanged', same_state(x.w, pre, state_of(o)))
        else:
            ok = gapply(x, tok)
        if not ok:
            raise CheckAbort()


def make_world(w, cfg):
    """X of C14_property_cache with the other stream on a chosen class / phase set / package."""
    x = X(w, cfg['kind'])
    x.o_kind = cfg.get('o_kind') or cfg['kind']
    x.o2 = None
    if cfg.get('o_pkg') == 'B' or x.o_kind not in KINDS:
        phases = GKINDS[x.o_kind]
        x.o, _ = W.stream_on(w, 'o', x.pkgB() if cfg.get('o_pkg') == 'B' else x.thA, phases, present=_present(phases, 'pos+pos'))
    if cfg.get('fixed_flows'):
        # energy balances over two or more inlets: the target enthalpy is a sum of memoised per-mole values times totals
        # (n_i / N * N ...), which the nonlinear solver does not get through; the flows are then part of the structure
        # (fixed numbers, all different), T, P and every model stay symbolic
        x.other(); other2(x)
        vals = iter(FIXED_FLOWS)
        for t_ in (x.s, x.o, x.o2):
            for ph, sv in W.rows_of(t_):
                for i in sorted(sv.dct):
                    sv.dct[i] = next(vals)
    return x


def all_handles_fresh(x, props, label='final'):
    """The statement at the end of a history: every property read from every handle (and every phase view) is fresh."""
    final_reads(x, props, label)
    if getattr(x, 'o2', None) is not None:
        for p in props:
            read(x, x.o2, p, f'{label} other2')
    for n, t in (('s', x.s), ('o', x.o)):
        if t is not None and isinstance(t, tmo.MultiStream):
            for ph in t.phases:
                for p in props[:2]:
                    read_view(x, t, ph, p, f'{label} {n}')


# --------------------------------------------------------------------------- phase views after structural mutators

# name -> (tokens before the views are created and primed, mutator tokens, other-stream kind, other-stream package)
VIEW_MUTATORS = {
    'none': ([], [], None, None),
    'T': ([], ['T'], None, None), 'P': ([], ['P'], None, None), 'flow edit': ([], ['fl'], None, None),
    'scale': ([], ['sc'], None, None), 'empty': ([], ['empty'], None, None),
    'view flow edit (other phase)': ([], ['vfl:g'], None, None), 'view T=': ([], ['vT:g'], None, None),
    'phases=gls': ([], ['phs:gls'], None, None), 'phases=gls then flow edit': ([], ['phs:gls', 'fl'], None, None),
    'phases=gl (same set)': ([], ['phs:gl'], None, None),
    'collapse': ([], ['ph:l'], None, None), 'collapse, expand': ([], ['ph:l', 'phs:gl'], None, None),
    'collapse, _reset_thermo': ([], ['ph:l', 'thermo:B'], None, None),
    'collapse, expand, T': ([], ['ph:l', 'phs:gl', 'T'], None, None),
    '_reset_thermo': ([], ['thermo:B'], None, None), '_reset_thermo, T': ([], ['thermo:B', 'T'], None, None),
    '_reset_thermo there and back': ([], ['thermo:B', 'thermo:A'], None, None),
    'link_with': ([], ['link'], None, None), 'link_with, partner T=': ([], ['link', 'oT'], None, None),
    'link_with, partner flow edit': ([], ['link', 'ofl'], None, None),
    'link_with (partner has more phases)': ([], ['link'], 'gls', None),
    'link_with (partner has more phases), partner T=': ([], ['link', 'oT'], 'gls', None),
    'link_with flow only, partner flow edit': ([], ['linkflow', 'ofl'], None, None),
    'link_with T/P only, partner T=': ([], ['linkTP', 'oT'], None, None),
    'unlink': (['link'], ['unlink'], None, None), 'unlink, T': (['link'], ['unlink', 'T'], None, None),
    'unlink, former partner T=': (['link'], ['unlink', 'oT'], None, None),
    'link_with, unlink, T': ([], ['link', 'unlink', 'T'], None, None),
    'link_with, unlink, former partner T=': ([], ['link', 'unlink', 'oT'], None, None),
    'copy_like': ([], ['copylike'], None, None), 'copy_like (source has more phases)': ([], ['copylike'], 'gls', None),
    'copy_like (single-phase source)': ([], ['copylike'], 'l', None),
    'copy_like (single-phase source in a new phase)': ([], ['copylike'], 's', None),
    'copy_like (other package)': ([], ['copylike'], None, 'B'),
    'mix_from (source has more phases)': ([], ['mixo'], 'gls', None), 'mix_from(self+other)': ([], ['mix'], None, None),
    'mix_from (single-phase source in a new phase)': ([], ['mixo'], 's', None),
    'mix_from(self+other) energy balance': ([], ['mixH'], None, None),
    'copy_flow': ([], ['copyflow'], None, None), 'copy_flow(phase)': ([], ['cf:phase'], None, None),
    'set_data(get_data())': (['getdata'], ['T', 'fl', 'setdata'], None, None),
    'get_data;phases;set_data': (['getdata'], ['phs:gls', 'setdata'], None, None),
    'reset_cache': ([], ['resetcache'], None, None), 'H=': ([], ['H='], None, None), 'h=': ([], ['h='], None, None),
    'F_mol=': ([], ['Fmol'], None, None), 'reduce_phases': ([], ['redph'], None, None),
    'reduce_phases (one phase left)': ([], ['rowzero:g', 'redph'], None, None),
    'proxy, T through the proxy': (['proxy'], ['pT'], None, None),
    'proxy, flow edit through the proxy': (['proxy'], ['pfl'], None, None),
    'proxy, T': (['proxy'], ['T'], None, None),
}
VIEW_QUICK = {'none', 'T', 'flow edit', 'view flow edit (other phase)', 'phases=gls', 'collapse, expand', 'collapse, _reset_thermo',
              '_reset_thermo', '_reset_thermo, T', 'link_with', 'link_with, partner T=', 'link_with (partner has more phases), partner T=',
              'link_with T/P only, partner T=', 'unlink, T', 'unlink, former partner T=', 'link_with, unlink, former partner T=',
              'copy_like (source has more phases)', 'copy_like (single-phase source in a new phase)', 'copy_like (other package)',
              'mix_from (source has more phases)', 'mix_from(self+other)', 'copy_flow(phase)', 'get_data;phases;set_data',
              'reduce_phases', 'proxy, T through the proxy', 'proxy, T'}


def views_configs(tier):
    out = []
    for name, (pre, mut, o_kind, o_pkg) in VIEW_MUTATORS.items():
        if tier == 'quick' and name not in VIEW_QUICK: continue
        for kind in (['gl'] if tier == 'quick' else ['gl', 'gls']):
            if kind == 'gls' and ('gls' in name or o_kind == 'gls' or 'phases=gl' in name or 'expand' in name): continue
            for prime in (['H'] if tier == 'quick' else ['H', 'sigma']):
                out.append({'name': f'kind={kind};prime={prime};mutator={name}', 'kind': kind, 'o_kind': o_kind or kind, 'o_pkg': o_pkg,
                            'pre': pre, 'mut': mut, 'prime': prime, 'fixed_flows': 'energy balance' in name})
    return out


@group('C14/gap_views', configs=views_configs,
       functions=['thermosteam._multi_stream:MultiStream.__getitem__', 'thermosteam._multi_stream:MultiStream.phases',
                  'thermosteam._multi_stream:MultiStream.phase', 'thermosteam._multi_stream:MultiStream.reset_cache',
                  'thermosteam._multi_stream:MultiStream.reduce_phases', 'thermosteam._multi_stream:MultiStream.copy_like',
                  'thermosteam._multi_stream:MultiStream.copy_flow',
                  'thermosteam._stream:Stream._reset_thermo', 'thermosteam._stream:Stream.link_with', 'thermosteam._stream:Stream.unlink',
                  'thermosteam._stream:Stream.phases', 'thermosteam._stream:Stream.proxy', 'thermosteam._stream:Stream.set_data',
                  'thermosteam._stream:Stream.mix_from', 'thermosteam._stream:Stream._get_property',
                  'thermosteam.indexer:MaterialIndexer._expand_phases', 'thermosteam.indexer:MaterialIndexer.get_phase'],
       assumptions=['A-models', 'A-root'])
def gap_views(w, cfg):
    x = make_world(w, cfg)
    _early_view_canary(x)
    s = x.s
    run(x, cfg['pre'])
    held = {ph: s[ph] for ph in s.phases}          # view objects a caller keeps across the mutation
    for ph in s.phases:
        read_view(x, s, ph, cfg['prime'], 'prime')
    read(x, s, cfg['prime'], 'prime s')
    if x.p is not None:
        for ph in x.p.phases:
            read_view(x, x.p, ph, cfg['prime'], 'prime proxy')
    run(x, cfg['mut'])
    props = [cfg['prime']] + [p for p in ('H', 'sigma', 'V') if p != cfg['prime']]
    # (a) views fetched now: the parent's phase as it is now
    if isinstance(s, tmo.MultiStream):
        for ph in s.phases:
            for p in props:
                read_view(x, s, ph, p, 'after: fetched')
    else:
        read(x, s[s.phase], props[0], 'after: fetched (single phase)')
    if x.p is not None and isinstance(x.p, tmo.MultiStream) and x.p._imol is s._imol:
        for ph in x.p.phases:
            read_view(x, x.p, ph, props[0], 'after: fetched through the proxy')
    # (b) views held from before: fresh with respect to what they themselves show
    for ph, v in held.items():
        for p in props[:2]:
            read(x, v, p, f'after: held view [{ph}]')
    # (c) the stream and every other handle
    final_reads(x, props[:2])


# --------------------------------------------------------------------------- public mutators that C14 never ran

# name -> (setup tokens before priming, mutator tokens, kinds ('l' single-phase, 'm' multi-phase), other kind, other package)
# other kind: None = same as the stream; '*' = the opposite class ('gl' for a single-phase stream, 'l' for a multi-phase one)
GAP_MUTATORS = {
    # totals / flows on another basis
    'F_mass=': ([], ['Fmass'], 'lm', None, None), 'F_mass=0': ([], ['Fmass0'], 'lm', None, None),
    'F_vol=': ([], ['Fvol'], 'lm', None, None), 'F_mol= (multi-phase)': ([], ['Fmol'], 'm', None, None),
    'set_total_flow(kg/hr)': ([], ['tot:kg/hr'], 'lm', None, None), 'set_total_flow(m3/hr)': ([], ['tot:m3/hr'], 'l', None, None),
    'set_total_flow(mol/s)': ([], ['tot:mol/s'], 'lm', None, None),
    'set_flow(kg/hr)': ([], ['setflowu:kg/hr'], 'lm', None, None), 'set_flow(lbmol/hr)': ([], ['setflowu:lbmol/hr'], 'l', None, None),
    'imass[ID]=': ([], ['imass'], 'lm', None, None), 'mass=array': ([], ['mass='], 'l', None, None),
    # energy specifications
    'h=': ([], ['h='], 'lm', None, None), 'Hnet=': ([], ['Hnet='], 'lm', None, None), 'S= (multi-phase)': ([], ['S='], 'm', None, None),
    'H= (first phase fails)': ([], ['H=fail'], 'l', None, None),
    # operators
    '+=': ([], ['iadd'], 'l', None, None), '+= then -=': ([], ['isub'], 'l', None, None), '/=': ([], ['idiv'], 'lm', None, None),
    '+= (multi-phase source)': ([], ['iadd'], 'l', '*', None),
    # mixing
    'mix_from(self+other) energy balance': ([], ['mixH'], 'lm', None, None),
    'mix_from(self+other) energy balance, Q': ([], ['mixHQ'], 'l', None, None),
    'mix_from(other+other2)': ([], ['mix2o'], 'lm', None, None), 'mix_from(other+other2) energy balance': ([], ['mix2o:H'], 'l', None, None),
    'mix_from(self+other) conserve_phases': ([], ['mixcons'], 'l', 'g', None),
    'mix_from(empty) energy balance': ([], ['mix0'], 'lm', None, None), 'mix_from(empty)': ([], ['mix0:noH'], 'lm', None, None),
    'mix_from(empty+other2)': ([], ['mix0:2'], 'l', None, None),
    'mix_from(other of the other class)': ([], ['mixo'], 'lm', '*', None),
    'mix_from(other of the other class) energy balance': ([], ['mixHo'], 'lm', '*', None),
    'mix_from(self+other of the other class)': ([], ['mix'], 'l', '*', None),
    'mix_from(other, other package)': ([], ['mixo'], 'lm', None, 'B'), 'mix_from(self+other, other package)': ([], ['mix'], 'lm', None, 'B'),
    'mix_from(other in another phase)': ([], ['mixo'], 'l', 'g', None),
    'separate_out energy balance': ([], ['sepH'], 'l', None, None), 'separate_out(self)': ([], ['sepself'], 'lm', None, None),
    # splitting
    'split_to: first receiver': ([], ['split'], 'lm', None, None), 'split_to: second receiver': ([], ['split2'], 'l', None, None),
    'split_to: source': ([], ['splitsrc'], 'lm', None, None), 'split_to without energy balance: first receiver': ([], ['split:noE'], 'lm', None, None),
    'split_to: receiver of another class': ([], ['split'], 'lm', '*', None),
    'split_to without energy balance: receiver of another class': ([], ['split:noE'], 'l', '*', None),
    'split_to: source on another package': ([], ['split'], 'l', None, 'B'),
    # copy_flow forms
    'copy_flow(ID)': ([], ['cf:ID'], 'lm', None, None), 'copy_flow(IDs)': ([], ['cf:IDs'], 'l', None, None),
    'copy_flow(exclude)': ([], ['cf:excl'], 'lm', None, None), 'copy_flow(remove)': ([], ['cf:rm'], 'lm', None, None),
    'copy_flow(ID, remove)': ([], ['cf:IDrm'], 'lm', None, None),
    'copy_flow(phase)': ([], ['cf:phase'], 'm', None, None), 'copy_flow(phase, ID)': ([], ['cf:phaseID'], 'm', None, None),
    'copy_flow(phase, remove)': ([], ['cf:phaserm'], 'm', None, None),
    'copy_flow(other class)': ([], ['copyflow'], 'lm', '*', None), 'copy_flow(other class, remove)': ([], ['cf:rm'], 'lm', '*', None),
    'copy_flow(other package)': ([], ['copyflow'], 'l', None, 'B'), 'copy_flow(ID, other package)': ([], ['cf:ID'], 'l', None, 'B'),
    # copies from sources of another class / package
    'copy_like(other class)': ([], ['copylike'], 'lm', '*', None), 'copy_like(other package)': ([], ['copylike'], 'lm', None, 'B'),
    'copy_like(other in another phase)': ([], ['copylike'], 'l', 'g', None),
    'copy_phase(other in another phase)': ([], ['copyphase'], 'l', 'g', None),
    # low-level public channels
    'thermal_condition.T=': ([], ['tcT'], 'lm', None, None), 'thermal_condition.P=': ([], ['tcP'], 'l', None, None),
    'thermal_condition.copy_like': ([], ['tccopy'], 'lm', None, None), 'imol.phase=': ([], ['iphase:g'], 'l', None, None),
    'mol[i]=': ([], ['molidx'], 'lm', None, None), 'mol*=': ([], ['molimul'], 'lm', None, None), 'mol.clear()': ([], ['molclear'], 'lm', None, None),
    'imol.empty()': ([], ['imolempty'], 'lm', None, None), '_update_material_flows': ([], ['umf'], 'l', None, None),
    '_update_material_flows(index)': ([], ['umf:idx'], 'l', None, None), 'empty_negative_flows': ([], ['negfix'], 'lm', None, None),
    'reduce_phases': ([], ['redph'], 'lm', None, None), 'reduce_phases (one phase left)': ([], ['rowzero:g', 'redph'], 'm', None, None),
    'as_stream': ([], ['asstream'], 'lm', None, None),
    'reset_flow(total_flow, units)': ([], ['resetflowtot'], 'l', None, None), 'MultiStream.reset_flow': ([], ['mreset'], 'm', None, None),
    'temporary(T)': ([], ['temp'], 'lm', None, None), 'temporary(T, P)': ([], ['temp:TP'], 'l', None, None),
    'temporary(flow)': ([], ['tempflow'], 'l', None, None),
    # partial links
    'link_with(flow only), partner flow edit': ([], ['linkflow', 'ofl'], 'lm', None, None),
    'link_with(flow only), partner T=': ([], ['linkflow', 'oT'], 'l', None, None),
    'link_with(flow only), partner scaled': ([], ['linkflow', 'osc'], 'l', None, None),
    'link_with(T/P only), partner T=': ([], ['linkTP', 'oT'], 'lm', None, None),
    'link_with(T/P only), partner flow edit': ([], ['linkTP', 'ofl'], 'l', None, None),
    'link_with(phase only), partner phase=': ([], ['linkphase', 'oph:g'], 'l', None, None),
    'link_with(flow only), unlink, partner flow edit': ([], ['linkflow', 'unlink', 'ofl'], 'l', None, None),
    'link_with (partner has more phases), partner T=': ([], ['link', 'oT'], 'm', 'gls', None),
    'linked stream P=': (['link'], ['oP'], 'lm', None, None), 'linked stream scaled': (['link'], ['osc'], 'lm', None, None),
    'linked stream emptied': (['link'], ['oempty'], 'l', None, None),
}
GAP_MUT_QUICK_BOTH = {'F_mass=', 'h=', 'mix_from(self+other) energy balance', 'split_to: first receiver', 'copy_flow(remove)',
                      'copy_like(other class)', 'mix_from(other of the other class) energy balance', 'link_with(T/P only), partner T=',
                      'temporary(T)', 'thermal_condition.T='}


# energy balance over >= 2 inlets: flows are fixed numbers (see make_world)
FIXED = {'+=', '+= then -=', '+= (multi-phase source)', 'mix_from(self+other) energy balance', 'mix_from(self+other) energy balance, Q',
         'mix_from(other+other2) energy balance', 'separate_out energy balance'}


def gap_mutator_configs(tier):
    out = []
    for kind in ['l', 'gl']:
        tag = 'm' if len(kind) > 1 else 'l'
        for name, (pre, mut, where, o_kind, o_pkg) in GAP_MUTATORS.items():
            if tag not in where: continue
            if tier == 'quick' and tag == 'm' and 'l' in where and name not in GAP_MUT_QUICK_BOTH: continue
            ok = {None: kind, '*': 'l' if tag == 'm' else 'gl'}.get(o_kind, o_kind)
            primes = [('H',)] if tier == 'quick' else [('H',), ('sigma',)]
            afters = ['none'] if tier == 'quick' else ['none', 'T', 'fl']
            for prime in primes:
                for after in afters:
                    if after != 'none' and prime != ('H',): continue
                    out.append({'name': f'kind={kind};prime={"+".join(prime)};mutator={name};after={after}', 'kind': kind, 'o_kind': ok,
                                'o_pkg': o_pkg, 'pre': pre, 'prime': list(prime), 'mut': mut, 'fixed_flows': name in FIXED or (name.startswith('split_to') and (tag == 'm' or o_kind == '*')),
                                'after': {'none': [], 'T': ['T'], 'fl': ['fl']}[after]})
    return out


@group('C14/gap_mutators', configs=gap_mutator_configs,
       functions=['thermosteam._stream:Stream.F_mass', 'thermosteam._stream:Stream.F_vol', 'thermosteam._stream:Stream.F_mol',
                  'thermosteam._stream:Stream.set_total_flow', 'thermosteam._stream:Stream.set_flow', 'thermosteam._multi_stream:MultiStream.set_flow',
                  'thermosteam._stream:Stream.imass', 'thermosteam._stream:Stream.mass',
                  'thermosteam._stream:Stream.h', 'thermosteam._multi_stream:MultiStream.h', 'thermosteam._stream:Stream.Hnet',
                  'thermosteam._multi_stream:MultiStream.S', 'thermosteam._stream:Stream.H',
                  'thermosteam._stream:Stream.__iadd__', 'thermosteam._stream:Stream.__isub__', 'thermosteam._stream:Stream.__itruediv__',
                  'thermosteam._stream:Stream.mix_from', 'thermosteam._stream:Stream.separate_out',
                  'thermosteam._stream:Stream.split_to', 'thermosteam._multi_stream:MultiStream.split_to',
                  'thermosteam._stream:Stream.copy_flow', 'thermosteam._multi_stream:MultiStream.copy_flow',
                  'thermosteam._stream:Stream.copy_like', 'thermosteam._multi_stream:MultiStream.copy_like', 'thermosteam._stream:Stream.copy_phase',
                  'thermosteam._thermal_condition:ThermalCondition.T', 'thermosteam._thermal_condition:ThermalCondition.P',
                  'thermosteam._thermal_condition:ThermalCondition.copy_like', 'thermosteam.indexer:ChemicalIndexer.phase',
                  'thermosteam._stream:Stream.mol', 'thermosteam._stream:Stream._update_material_flows',
                  'thermosteam._stream:Stream.empty_negative_flows', 'thermosteam._stream:Stream.reduce_phases',
                  'thermosteam._multi_stream:MultiStream.reduce_phases', 'thermosteam._stream:Stream.as_stream',
                  'thermosteam._multi_stream:MultiStream.as_stream', 'thermosteam._stream:Stream.reset_flow',
                  'thermosteam._multi_stream:MultiStream.reset_flow', 'thermosteam._stream:Stream.temporary',
                  'thermosteam._stream:TemporaryStream.__enter__', 'thermosteam._stream:TemporaryStream.__exit__',
                  'thermosteam._stream:Stream.link_with', 'thermosteam._stream:Stream.unlink',
                  'thermosteam._stream:Stream._get_property', 'thermosteam._multi_stream:MultiStream._get_property'],
       assumptions=['A-models', 'A-root'])
def gap_mutators(w, cfg):
    x = make_world(w, cfg)
    _early_canary(x, force=True)        # on a side path right after the world is built: cheap and stable under load
    run(x, cfg['pre'])
    for p in cfg['prime']:
        read(x, x.s, p, f'prime {p}')
        if x.o is not None:                      # sources and partners carry a memo of their own
            read(x, x.o, p, f'prime other {p}')
    run(x, cfg['mut'])
    run(x, cfg['after'])
    props = list(cfg['prime']) + [p for p in PRIMARY if p not in cfg['prime']]
    all_handles_fresh(x, props)
    _canary(x, cfg['prime'][0])


# --------------------------------------------------------------------------- streams produced from a stream with a filled memo

def _same_chemicals_other_models(x):
    """A second package on the SAME Chemicals object whose mixture has other (prefix B:) models."""
    mixB = W.stub_thermo(_Prefixed(x.w, 'B:'), A).mixture
    return tmo.Thermo(x.thA.chemicals, mixture=mixB)


class _default_thermo:
    """`Stream.sum` / `+` create the result on the default package of the session (settings.set_thermo)."""
    def __init__(self, th): self.th = th
    def __enter__(self):
        self.old = getattr(tmo.settings, '_thermo', None)
        tmo.settings._thermo = self.th
    def __exit__(self, *a):
        if self.old is None:
            try: del tmo.settings._thermo
            except AttributeError: pass
        else:
            tmo.settings._thermo = self.old


def produce(x, how):
    with _default_thermo(x.thA):
        return _produce(x, how)


def _produce(x, how):
    """Return a NEW stream made from x.s by a public producer."""
    w = x.w; s = x.s
    pos = lambda base: x.leaf(base, lo=0., lo_strict=True)
    if how == 'copy': return s.copy()
    if how == '__copy__': return _copy.copy(s)
    if how == 'copy(thermo=other order)': return s.copy(thermo=x.pkgB())
    if how == 'copy(thermo=same chemicals, other models)': return s.copy(thermo=_same_chemicals_other_models(x))
    if how == 'sum': return tmo.Stream.sum([s, x.other()], energy_balance=False)
    if how == 'sum energy balance': return tmo.Stream.sum([s, x.other()])
    if how == 'sum([s])': return tmo.Stream.sum([s])
    if how == 'sum(thermo=other order)': return tmo.Stream.sum([s, x.other()], thermo=x.pkgB(), energy_balance=False)
    if how == 's + o': return s + x.other()
    if how == '-s': return -s
    if how == 's * k': return s * pos('k')
    if how == 'k * s': return pos('k') * s
    if how == 's / k': return s / pos('k')
    if how == 'from_data': return type(s).from_data(s.get_data(), thermo=s.thermo) if not isinstance(s, tmo.MultiStream) else tmo.Stream.from_data(s.get_data(), thermo=s.thermo)
    if how == '__reduce__':
        f, args = s.__reduce__()
        return f(*args)
    if how == 'flow_proxy': return s.flow_proxy()
    raise RuntimeError(how)


PRODUCERS = {   # name -> (kinds, fixed flows)
    'copy': ('lm', False), '__copy__': ('l', False), 'copy(thermo=other order)': ('lm', False),
    'copy(thermo=same chemicals, other models)': ('lm', False),
    'sum': ('l', False), 'sum energy balance': ('l', True), 'sum([s])': ('lm', False), 'sum(thermo=other order)': ('l', False),
    's + o': ('l', True), '-s': ('l', False), 's * k': ('lm', False), 'k * s': ('l', False), 's / k': ('l', False),
    'from_data': ('lm', False), '__reduce__': ('lm', False), 'flow_proxy': ('l', False),
}
# what happens between producing and the final reads: n = the product, s = the source
NEW_SEQS_QUICK = [[], ['nT'], ['sT'], ['nT', 'sr', 'sT'], ['sT', 'nr', 'nT'], ['nfl', 'sr'], ['sfl', 'nr'], ['nT', 'nr', 'sTn']]
NEW_SEQS_THOROUGH = NEW_SEQS_QUICK + [['nr', 'sT', 'sr', 'nT'], ['nfl', 'sr', 'sfl'], ['sfl', 'nr', 'nfl'], ['nP', 'sr'], ['sph', 'nr'], ['nph', 'sr'],
                                      ['nr', 'nT', 'sTn', 'sr'], ['nsc', 'sr', 'ssc']]
NEW_QUICK_ALL_SEQS = {'copy', 'copy(thermo=same chemicals, other models)'}


def new_object_configs(tier):
    out = []
    for kind in ['l', 'gl']:
        tag = 'm' if len(kind) > 1 else 'l'
        for how, (where, fixed) in PRODUCERS.items():
            if tag not in where: continue
            if tier == 'quick' and tag == 'm' and how not in ('copy', 'copy(thermo=same chemicals, other models)', '__reduce__'): continue
            seqs = NEW_SEQS_THOROUGH if tier == 'thorough' else (NEW_SEQS_QUICK if (how in NEW_QUICK_ALL_SEQS and tag == 'l') else [['nT', 'sr', 'sT'], ['sfl', 'nr']])
            for prime in (['H'] if tier == 'quick' else ['H', 'sigma']):
                for seq in seqs:
                    if tag == 'm' and ('sph' in seq or 'nph' in seq): continue
                    if prime == 'sigma' and seq not in ([], ['nT', 'sr', 'sT'], ['sfl', 'nr'], ['nT', 'nr', 'sTn']): continue
                    out.append({'name': f'kind={kind};prime={prime};producer={how};then={",".join(seq) or "nothing"}', 'kind': kind, 'how': how,
                                'prime': prime, 'seq': seq, 'fixed_flows': fixed})
    return out


@group('C14/gap_new_objects', configs=new_object_configs,
       functions=['thermosteam._stream:Stream.copy', 'thermosteam._stream:Stream.sum', 'thermosteam._stream:Stream.__add__',
                  'thermosteam._stream:Stream.__neg__', 'thermosteam._stream:Stream.__mul__', 'thermosteam._stream:Stream.__rmul__',
                  'thermosteam._stream:Stream.__truediv__', 'thermosteam._stream:Stream.from_data', 'thermosteam._stream:Stream.__reduce__',
                  'thermosteam._stream:Stream.get_data', 'thermosteam._stream:Stream.set_data', 'thermosteam._stream:Stream.flow_proxy',
                  'thermosteam._stream:Stream.reset_cache', 'thermosteam._multi_stream:MultiStream.reset_cache',
                  'thermosteam._stream:Stream._get_property', 'thermosteam._multi_stream:MultiStream._get_property'],
       assumptions=['A-models', 'A-root'])
def gap_new_objects(w, cfg):
    x = make_world(w, cfg)
    _early_canary(x, force=True)
    s = x.s
    prime = cfg['prime']
    read(x, s, prime, 'prime source')
    n = produce(x, cfg['how'])
    w.ensure('harness: the producer returned a new object', n is not s)
    k = 0
    for tok in cfg['seq']:
        k += 1
        lab = f'step{k} {tok}'
        tgt = n if tok[0] == 'n' else s
        op = tok[1:]
        if op == 'r': read(x, tgt, prime, lab, frame=[('source', s)] if tgt is n else [('product', n)])
        elif op == 'T': tgt.T = x.leaf('T', lo=0., lo_strict=True)
        elif op == 'Tn': tgt.T = n.T                        # the source is moved to the product's temperature
        elif op == 'P': tgt.P = x.leaf('P', lo=0., lo_strict=True)
        elif op == 'sc': tgt.scale(x.leaf('k', lo=0., lo_strict=True))
        elif op == 'ph': tgt.phase = 'g'
        elif op == 'fl':
            v = x.leaf('n', lo=0., lo_strict=True)
            if isinstance(tgt, tmo.MultiStream): tgt.imol[tgt.phases[-1], 'Ethanol'] = v
            else: tgt.imol['Ethanol'] = v
        else: raise RuntimeError(tok)
    props = [prime] + [p for p in ('H', 'sigma', 'V', 'Cn', 'S') if p != prime]
    for p in props:
        read(x, n, p, 'final product', frame=[('source', s)])
    for p in props:
        read(x, s, p, 'final source', frame=[('product', n)])
    for t_, nm in ((n, 'product'), (s, 'source')):
        if isinstance(t_, tmo.MultiStream):
            for ph in t_.phases:
                read_view(x, t_, ph, prime, f'final {nm}')
    if x.o is not None:
        read(x, x.o, prime, 'final other')
    _canary(x, prime)


# --------------------------------------------------------------------------- mode B: real property data, real solvers

REAL_NOTES = ('bounded: 2 chemicals (Water, Ethanol) on the real ideal-mixture package and on the real Peng-Robinson (equation-of-state) '
              'package; start states: liquid / gas single-phase stream and a gas-liquid MultiStream with fixed flows, T, P; histories: '
              'the listed operation sequences (length <= 6 quick, all pairs/triples of the alphabet in the thorough tier) with the '
              'fixed increments written in the tokens; after every history every property of the stream and of each phase view is '
              'compared with a stream created from scratch (same flows, phases, T, P) on an INDEPENDENT twin of the package '
              '(same chemicals, its own mixture object), so that state kept inside the mixture object by a solver is seen as well; '
              'relative tolerance 1e-7.  An operation that raises ends the history (the statement is about states that were reached).')
_REAL = {}


def real_pkg(name):
    """(package, independent twin) on the real chemicals; built once per process."""
    if name not in _REAL:
        chems = W.thermo(A).chemicals
        if name == 'ideal':
            mk = lambda: tmo.Thermo(chems)
        elif name == 'PR':
            mk = lambda: tmo.Thermo(chems, mixture=tmo.PRMixture.from_chemicals(chems))
        else:
            raise RuntimeError(name)
        _REAL[name] = (mk(), mk())
    return _REAL[name]


REAL_START = {
    'l': ('l', 320., 101325., {('l', 'Water'): 2.0, ('l', 'Ethanol'): 3.0}),
    'g': ('g', 420., 101325., {('g', 'Water'): 2.0, ('g', 'Ethanol'): 3.0}),
    'gl': (('g', 'l'), 355., 101325., {('g', 'Water'): 0.5, ('g', 'Ethanol'): 1.5, ('l', 'Water'): 1.5, ('l', 'Ethanol'): 1.5}),
    # the same gas / liquid, the flows entered in the OTHER order than the chemicals of the package (added after seeded change C14_10: a
    # mixture-level cache that remembers the order in which the first stream entered its flows)
    'g-rev': ('g', 420., 101325., {('g', 'Ethanol'): 3.0, ('g', 'Water'): 2.0}),
    'l-rev': ('l', 320., 101325., {('l', 'Ethanol'): 3.0, ('l', 'Water'): 2.0}),
}


def real_stream(th, kind, scale=1.0, T=None):
    phases, T0, P, flows = REAL_START[kind]
    if isinstance(phases, str):
        s = tmo.Stream(None, thermo=th, phase=phases, T=T or T0, P=P)
        for (ph, ID), v in flows.items(): s.imol[ID] = v * scale
    else:
        s = tmo.MultiStream(None, thermo=th, phases=phases, T=T or T0, P=P)
        for (ph, ID), v in flows.items(): s.imol[ph, ID] = v * scale
    return s


def twin_fresh(s, twin, ph=None):
    """Created from scratch on the twin package: same flows, phase(s), T, P (ph: the single-phase stream of that phase)."""
    tc = s._thermal_condition
    if ph is not None:
        f = tmo.Stream(None, thermo=twin, phase=ph, T=tc._T, P=tc._P)
        row = dict(W.rows_of(s))[ph]
        for i, v in sorted(row.dct.items()): f._imol.data.dct[i] = v
    elif isinstance(s, tmo.MultiStream):
        f = tmo.MultiStream(None, thermo=twin, phases=s.phases, T=tc._T, P=tc._P)
        for (p_, sv), (_, fv) in zip(W.rows_of(s), W.rows_of(f)):
            for i, v in sorted(sv.dct.items()): fv.dct[i] = v
    else:
        f = tmo.Stream(None, thermo=twin, phase=s.phase, T=tc._T, P=tc._P)
        for i, v in sorted(s._imol.data.dct.items()): f._imol.data.dct[i] = v
    return f


class _Undefined:
    pass


def _get(obj, prop):
    try:
        return getattr(obj, prop)
    except Exception as e:          # real property data: some models are undefined for some phases / conditions
        u = _Undefined(); u.e = e
        return u


def read_real(w, s, twin, prop, label, ph=None):
    tgt = s if ph is None else s[ph]
    ref = _get(twin_fresh(s, twin, ph), prop)
    if isinstance(ref, _Undefined):
        return
    val = _get(tgt, prop)
    where = '' if ph is None else f' through the view [{ph}]'
    if isinstance(val, _Undefined):
        w.ensure(f'{label}: {prop}{where} = value on a fresh stream', False, raised=repr(val.e)[:200], fresh=ref)
    else:
        w.ensure(f'{label}: {prop}{where} = value on a fresh stream', w.eq(val, ref), got=val, fresh=ref)


REAL_PROPS = ('H', 'h', 'S', 'C', 'Cn', 'V', 'kappa', 'mu', 'sigma', 'epsilon', 'Hvap', 'rho', 'nu', 'alpha', 'Pr', 'Cp', 'F_vol', 'Hnet')


def real_apply(w, st, tok, k):
    """One token on the real stream st['s'].  Returns False when the operation is not applicable."""
    s = st['s']; twin = st['twin']
    multi = isinstance(s, tmo.MultiStream)
    op, _, arg = tok.partition(':')
    lab = f'step{k} {tok}'
    last = s.phases[-1]
    if op == 'r':
        read_real(w, s, twin, arg, lab)
    elif op == 'vr':
        ph, _, prop = arg.partition(':')
        if not multi or ph not in s.phases: return False
        read_real(w, s, twin, prop, lab, ph)
    elif op == 'T': s.T = s.T + 7.5
    elif op == 'P': s.P = s.P * 0.9
    elif op == 'fl':
        if multi: s.imol[last, 'Ethanol'] = s.imol[last, 'Ethanol'] + 0.7
        else: s.imol['Ethanol'] = s.imol['Ethanol'] + 0.7
    elif op == 'sc': s.scale(1.5)
    elif op == 'ph':
        s.phase = arg
    elif op == 'H+': s.H = s.H + float(arg or 3000.)
    elif op == 'S+': s.S = s.S + float(arg or 5.)
    elif op == 'h+': s.h = s.h + float(arg or 500.)
    elif op == 'vleTP': s.vle(T=float(arg or 355.), P=101325.)
    elif op == 'vleVP': s.vle(V=float(arg or 0.4), P=101325.)
    elif op == 'vleHP': s.vle(H=s.H + float(arg or 20000.), P=101325.)
    elif op == 'vleTV': s.vle(T=s.T, V=float(arg or 0.6))
    elif op == 'lle': s.lle(T=s.T, P=s.P)
    elif op == 'vlle': s.vlle(s.T, s.P)
    elif op == 'reduce': s.reduce_phases()
    elif op == 'ivol':
        if multi: s.ivol['l', 'Ethanol'] = 0.05
        else: s.ivol['Ethanol'] = 0.05
    elif op == 'vol=':
        if multi: return False
        s.vol = [0.03, 0.06]
    elif op == 'setflowvol':
        s.set_flow(0.04, 'm3/hr', ('l', 'Water') if multi else 'Water')
    elif op == 'totvol': s.set_total_flow(0.2, 'm3/hr')
    elif op == 'Fvol': s.F_vol = 0.3
    elif op == 'mixvle':
        o = real_stream(st['th'], arg or 'g', scale=0.5)
        s.mix_from([s, o], vle=True)
    elif op == 'mixvleT':
        o = real_stream(st['th'], arg or 'g', scale=0.5)
        s.mix_from([s, o], vle=True, energy_balance=False)
    elif op == 'vent':
        if multi or s.phase != 'g': return False
        o = st['o'] = real_stream(st['th'], 'l', scale=0.5, T=350.)
        s.T = 360.
        read_real(w, s, twin, 'H', lab + ' (gas before)')
        read_real(w, o, twin, 'H', lab + ' (liquid before)')
        s.receive_vent(o, energy_balance=(arg != 'noH'))
    elif op == 'thermo':
        th, tw = real_pkg(arg)
        s._reset_thermo(th)
        st['th'], st['twin'] = th, tw
    else:
        raise RuntimeError(tok)
    return True


REAL_QUICK = {
    'l': [['r:H', 'H+', 'r:H'], ['r:S', 'S+', 'P', 'r:S'], ['r:h', 'h+', 'fl'], ['r:H', 'vleTP', 'r:H', 'vr:g:H', 'vleVP'], ['r:H', 'vleHP', 'vr:l:H', 'T'],
          ['r:H', 'vleVP', 'r:S', 'vleTP:300'], ['r:V', 'ivol', 'r:V'], ['r:H', 'vol=', 'T'], ['r:mu', 'setflowvol'], ['r:H', 'totvol'], ['r:V', 'Fvol', 'P'],
          ['r:H', 'mixvle', 'r:H', 'vr:g:H'], ['r:H', 'mixvleT', 'T'], ['r:H', 'lle', 'r:H', 'T'], ['r:H', 'vlle', 'r:H'], ['r:H', 'ph:g', 'S+', 'r:H'],
          ['r:H', 'thermo:PR', 'r:H', 'S+', 'fl'], ['r:H', 'vleVP', 'reduce', 'r:H'], ['r:H', 'vleTP', 'ph:l', 'r:H', 'H+']],
    'g': [['r:H', 'S+', 'P', 'fl', 'r:H'], ['r:S', 'H+', 'P', 'r:S'], ['r:H', 'vent', 'r:H'], ['r:H', 'vent:noH', 'T'], ['r:H', 'vleTP', 'r:H', 'S+'],
          ['r:H', 'mixvle:l', 'r:H'], ['r:Cn', 'h+', 'P', 'fl', 'r:Cn']],
    'g-rev': [['r:H', 'r:S', 'r:Cn'], ['r:H', 'T', 'r:H', 'S+']],
    'l-rev': [['r:H', 'r:S', 'r:Cn'], ['r:H', 'H+', 'r:H']],
    'gl': [['r:H', 'vr:g:H', 'H+', 'P', 'fl'], ['r:S', 'S+', 'P', 'fl'], ['r:H', 'h+', 'sc'], ['r:H', 'vleTP', 'r:H'], ['r:H', 'vr:l:H', 'vleVP', 'vr:l:H', 'vleHP'],
           ['r:H', 'vleHP', 'P', 'vleTV'], ['vr:l:V', 'ivol', 'vr:l:V'], ['r:H', 'setflowvol', 'T'], ['r:H', 'mixvle', 'vr:g:H', 'T'],
           ['r:H', 'lle', 'r:H'], ['r:H', 'vlle', 'vr:l:H'], ['r:H', 'thermo:PR', 'vr:g:H', 'H+', 'fl'], ['r:H', 'vleVP:1.0', 'reduce', 'r:H', 'T']],
}
REAL_ALPHABET = ['r:H', 'r:S', 'T', 'P', 'fl', 'sc', 'H+', 'S+', 'h+', 'vleTP', 'vleVP', 'vleHP', 'ivol', 'setflowvol', 'Fvol', 'mixvle', 'lle',
                 'reduce', 'ph:g', 'ph:l', 'vr:g:H', 'vr:l:S']


_warm = set()


def _warm_up(tier):
    """JIT-compile the numba kernels of the flash once in the parent (the configurations are enumerated there, before the
    native pool is forked) instead of once per worker.  numba's on-disk cache index is shared with concurrently running
    checks and SAVING to it can fail with `ReferenceError: underlying object has vanished` on the first compilation in a
    process; the compiled kernel stays in memory, so the call is simply repeated (environment, not the code under check)."""
    if tier in _warm: return
    _warm.add(tier)
    th, _ = real_pkg('ideal')
    for attempt in range(6):
        try:
            s = real_stream(th, 'l')
            s.vle(T=355., P=101325.); s.vle(V=0.4, P=101325.); s.vle(H=s.H + 20000., P=101325.); s.vle(T=s.T, V=0.6)
            s.mix_from([s, real_stream(th, 'g', scale=0.5)], vle=True)
            if tier == 'thorough':
                s = real_stream(th, 'l'); s.lle(T=s.T, P=s.P)
            break
        except ReferenceError:
            continue
        except Exception:
            break
    W.reset_caches()


def real_configs(tier):
    _warm_up(tier)
    out = []
    seen = set()

    def add(pkg, kind, seq):
        key = (pkg, kind, tuple(seq))
        if key in seen: return
        seen.add(key)
        out.append({'name': f'pkg={pkg};start={kind};ops={",".join(seq)}', 'pkg': pkg, 'kind': kind, 'ops': list(seq)})
    for pkg in ('ideal', 'PR'):
        for kind, seqs in REAL_QUICK.items():
            for seq in seqs:
                if pkg == 'PR' and 'thermo:PR' in seq:
                    seq = [('thermo:ideal' if t == 'thermo:PR' else t) for t in seq]
                # the liquid-liquid solver costs every worker process that meets it several seconds of start-up:
                # one history each in the quick tier, all of them in the thorough tier
                if tier == 'quick' and ('lle' in seq or 'vlle' in seq) and (pkg, kind) != ('ideal', 'l'): continue
                add(pkg, kind, seq)
    if tier == 'thorough':
        for pkg in ('ideal', 'PR'):
            for kind in ('l', 'g', 'gl'):
                for d in (2, 3):
                    for seq in itertools.product(REAL_ALPHABET, repeat=d):
                        if any(a == b for a, b in zip(seq, seq[1:])): continue
                        if not seq[0].startswith(('r:', 'vr:')): continue
                        if seq[-1].startswith(('r:', 'vr:')): continue
                        if kind != 'gl' and seq[0].startswith('vr:'): continue
                        if d == 3 and not any(t in ('H+', 'S+', 'h+', 'vleHP') for t in seq): continue
                        if d == 3 and pkg == 'ideal' and kind != 'gl': continue
                        add(pkg, kind, seq)
    return out


@group('C14/gap_real', configs=real_configs, mode='B', notes=REAL_NOTES,
       functions=['thermosteam._stream:Stream.vle', 'thermosteam._multi_stream:MultiStream.vle', 'thermosteam._stream:Stream.lle',
                  'thermosteam._multi_stream:MultiStream.lle', 'thermosteam._stream:Stream.vlle', 'thermosteam._stream:Stream.receive_vent',
                  'thermosteam._stream:Stream.mix_from', 'thermosteam._stream:Stream.ivol', 'thermosteam._stream:Stream.vol',
                  'thermosteam._stream:Stream.set_flow', 'thermosteam._multi_stream:MultiStream.set_flow', 'thermosteam._stream:Stream.set_total_flow',
                  'thermosteam._stream:Stream.F_vol', 'thermosteam._stream:Stream.H', 'thermosteam._stream:Stream.S', 'thermosteam._stream:Stream.h',
                  'thermosteam._multi_stream:MultiStream.H', 'thermosteam._multi_stream:MultiStream.S', 'thermosteam._multi_stream:MultiStream.h',
                  'thermosteam._stream:Stream.Hnet', 'thermosteam._stream:Stream._reset_thermo',
                  'thermosteam.mixture.mixture:Mixture.solve_T_at_HP', 'thermosteam.mixture.mixture:Mixture.solve_T_at_SP',
                  'thermosteam.mixture.mixture:Mixture.xsolve_T_at_HP', 'thermosteam.mixture.mixture:Mixture.xsolve_T_at_SP',
                  'thermosteam.mixture.mixture:EOSMixture.H', 'thermosteam.mixture.mixture:EOSMixture.S', 'thermosteam.mixture.mixture:EOSMixture.Cn',
                  'thermosteam._stream:Stream._get_property', 'thermosteam._multi_stream:MultiStream._get_property',
                  'thermosteam._multi_stream:MultiStream.__getitem__'])
def gap_real(w, cfg):
    W.reset_caches()
    th, twin = real_pkg(cfg['pkg'])
    st = {'s': real_stream(th, cfg['kind']), 'th': th, 'twin': twin, 'o': None}
    done = 0
    for k, tok in enumerate(cfg['ops'], 1):
        try:
            try:
                ok = real_apply(w, st, tok, k)
            except ReferenceError:      # numba failed to SAVE a kernel it just compiled (see _warm_up): the call is repeated
                ok = real_apply(w, st, tok, k)
        except Exception as e:          # a real solver that gives up: no state was reached by this call
            w.note(**{f'step{k}_{tok}_raised': repr(e)[:120]})
            break
        if not ok: break
        done += 1
    w.note(steps_done=done)
    s = st['s']; twin = st['twin']
    for p in REAL_PROPS:
        read_real(w, s, twin, p, 'final')
    if isinstance(s, tmo.MultiStream):
        for ph in s.phases:
            for p in ('H', 'S', 'Cn', 'V', 'mu', 'kappa', 'sigma'):
                read_real(w, s, twin, p, 'final', ph)
    if st['o'] is not None:
        for p in ('H', 'S', 'V'):
            read_real(w, st['o'], twin, p, 'final other')
    w.canary('canary: H is off by one', w.eq(s.H, twin_fresh(s, twin).H + 1.))
