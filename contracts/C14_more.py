# -*- coding: utf-8 -*-
"""
C14 - additional group (added after the seeded change C14_7 was missed): the quantities DERIVED from the memoised ones
(rho, nu, alpha, Pr, Cp, F_vol: functions of V, Cn, mu, kappa and of the molecular weight of the current composition) as the
priming read AND as the first read after a change of the composition only / the total only / everything / T.  The existing
derived family primes with primary properties and moves only T, so a quantity that a derived property leaves behind in the
memo (or reads before the memo was validated) is never consulted across a composition change.
Same body and clauses as C14/get_property (every read = the value on a freshly created stream; frame of a read).
"""
from engine.api import group
from contracts.C14_property_cache import get_property, DERIVED, ALLP


def configs(tier):
    out = []
    if tier == 'quick':      # (the nonlinear VCs of the derived quantities cost 10-60 s per configuration: the quick tier keeps the decisive ones)
        fam = [('l', prime, 'comp', first) for prime in (('rho',), ('Cp',), ('alpha',)) for first in ('Cp', 'rho', 'Pr')]
        fam += [('gl', ('rho',), 'comp', 'Cp'), ('l', ('rho',), 'all', 'Cp')]
    else:
        primes = [(p,) for p in DERIVED] + [('rho', 'Cp'), ('Cp', 'rho')]
        fam = [(kind, prime, mv, first) for kind in ('l', 'g', 'gl') for prime in primes for mv in ('comp', 'total', 'all', 'T', 'P', 'comp0')
               for first in (DERIVED if mv == 'comp' else ('Cp', 'rho', 'Pr'))]
    for kind, prime, mv, first in fam:
        out.append({'name': f'kind={kind};prime={"+".join(prime)};move={mv};read={first}', 'kind': kind, 'prime': list(prime), 'move': mv,
                    'first': first, 'derived': True})
    return out


@group('C14/derived_after_derived', configs=configs,
       functions=['thermosteam._stream:Stream._get_property', 'thermosteam._multi_stream:MultiStream._get_property'] +
                 [f'thermosteam._stream:Stream.{p}' for p in DERIVED] + ['thermosteam._stream:Stream.MW', 'thermosteam._stream:Stream.F_mass'],
       assumptions=['A-models'])
def derived_after_derived(w, cfg):
    get_property(w, cfg)
