# -*- coding: utf-8 -*-
"""
C19 — the simulation order derived from a flowsheet is complete and follows material flow.

Contracts on the real `thermosteam.network.Network.from_units` (and on the pieces it is made of:
`Network.sort`, `AbstractUnit.get_downstream_units/get_upstream_units`, the local path surgery of `Network`).
The flowsheets are real `AbstractUnit` objects connected through real `AbstractStream` objects; the
*expected* graph is never read back from the library: it is the JSON specification of the configuration
(units, ports, edges), so the clauses compare what `from_units` reports with an independent description.

The structure (graph shape, port order, order of the unit list) is the whole input here: there are no
real-valued leaves.  `Network.sort` is checked in mode S with a *symbolic reachability relation* (one sign
leaf per ordered pair of items, constrained to a strict partial order: the explorer enumerates the orders
that sort can tell apart); everything else is mode B — run-time contracts on stated, exhaustive-up-to-a-bound
or seeded families.

Groups
  C19/sort_partial_orders          S   Network.sort, symbolic strict partial order on 1..4 (5) items
  C19/from_units_dag_exhaustive    B   the statement, all connected DAGs with 2-4 (5) units, all unit orders
  C19/from_units_dag_random        B   the statement, seeded DAGs with 5-10 units
  C19/from_units_cyclic_exhaustive B   the statement, the DAGs above + 1-3 added streams that close cycles
  C19/from_units_cyclic_random     B   the statement, seeded DAGs with 4-10 units + 1-3 added streams
  C19/sort_flowsheets              B   Network.sort with the real PathSource on all digraphs with <= 3 (4) units
  C19/reachability                 B   get_downstream_units / get_upstream_units = reachability closure
  C19/path_surgery                 B   add_recycle, get_all_recycles, _remove_overlap, _insert_*/_append_* (local effects)

Outside the statement, counted as observations only (see run_from_units): on cyclic flowsheets a unit may be
listed more than once (in front of a loop and again inside it) and Network.sort may warn "network path could
not be determined"; C19 demands "every unit appears once" only for acyclic flowsheets.
"""
import os
import random
import warnings
import functools
import itertools

import thermosteam as tmo
from thermosteam import network as nw
from engine.api import group

SEED = int(os.environ.get('VERIF_SEED', '0') or 0)
MAXPORTS = 3

try:
    tmo.settings.set_thermo([])
except Exception:      # pragma: no cover
    pass


# =========================================================================== flowsheet specifications
# spec = {'ins': [n_ins per unit], 'outs': [n_outs per unit], 'edges': [[u, outlet index, v, inlet index], ...]}
# Every inlet that is not the head of an edge is a feed (a real stream without source), every outlet that is
# not the tail of an edge is a product (a real stream without sink).

def _weakly_connected(n, edges):
    adj = {i: set() for i in range(n)}
    for a, b in edges:
        adj[a].add(b); adj[b].add(a)
    seen = {0}; todo = [0]
    while todo:
        for j in adj[todo.pop()]:
            if j not in seen:
                seen.add(j); todo.append(j)
    return len(seen) == n


@functools.lru_cache(None)
def connected_dags(n, maxdeg=MAXPORTS):
    """All weakly connected simple DAGs on n nodes with in/out degree <= maxdeg, one per isomorphism class.
    Returned with a topological labelling (every edge i -> j has i < j)."""
    pairs = [(i, j) for i in range(n) for j in range(i + 1, n)]
    perms = list(itertools.permutations(range(n)))
    seen = set(); out = []
    for mask in range(1 << len(pairs)):
        edges = [p for k, p in enumerate(pairs) if mask >> k & 1]
        indeg = [0] * n; outdeg = [0] * n
        for a, b in edges:
            outdeg[a] += 1; indeg[b] += 1
        if max(indeg) > maxdeg or max(outdeg) > maxdeg:
            continue
        if not _weakly_connected(n, edges):
            continue
        canon = min(tuple(sorted((p[a], p[b]) for a, b in edges)) for p in perms)
        if canon in seen:
            continue
        seen.add(canon)
        out.append(tuple(edges))
    return tuple(out)


def make_spec(n, edges, variant, rng=None):
    """Assign ports. `edges` is a list of (u, v) (multi-edges allowed).
    variant: 'asc' | 'desc'  minimal ports (a feed/product only where a unit has no inlet/outlet edge), edge ports
                             in ascending / descending order of the neighbour;
             'xfirst' | 'xlast'  additionally one feed and one product port on every unit that has room for it,
                             placed before / after the connected ports (multiple feeds and products);
             'rand'          random port order and random extra feeds/products (needs rng)."""
    outs = [[] for _ in range(n)]; ins = [[] for _ in range(n)]
    for k, (a, b) in enumerate(edges):
        outs[a].append(k); ins[b].append(k)
    for side in (outs, ins):
        for u in range(n):
            slots = side[u]
            if len(slots) > MAXPORTS:
                return None
            if variant == 'desc':
                slots.reverse()
            elif variant == 'rand':
                rng.shuffle(slots)
            if not slots:
                slots.append(None)
            elif variant == 'xfirst' and len(slots) < MAXPORTS:
                slots.insert(0, None)
            elif variant == 'xlast' and len(slots) < MAXPORTS:
                slots.append(None)
            elif variant == 'rand':
                while len(slots) < MAXPORTS and rng.random() < 0.4:
                    slots.insert(rng.randrange(len(slots) + 1), None)
    es = []
    for k, (a, b) in enumerate(edges):
        es.append([a, outs[a].index(k), b, ins[b].index(k)])
    return {'ins': [len(s) for s in ins], 'outs': [len(s) for s in outs], 'edges': es}


def _succ(spec):
    n = len(spec['ins'])
    s = {u: set() for u in range(n)}
    for a, _, b, _ in spec['edges']:
        s[a].add(b)
    return s


def _reach(succ):
    """Transitive closure: reach[u] = units reachable from u by >= 1 stream."""
    reach = {}
    for u in succ:
        seen = set(); todo = list(succ[u])
        while todo:
            v = todo.pop()
            if v not in seen:
                seen.add(v); todo.extend(succ[v])
        reach[u] = seen
    return reach


def is_cyclic(spec):
    r = _reach(_succ(spec))
    return any(u in r[u] for u in r)


def all_reach_a_product(spec):
    n = len(spec['ins'])
    used = [0] * n
    for a, _, _, _ in spec['edges']:
        used[a] += 1
    has_product = {u for u in range(n) if used[u] < spec['outs'][u]}
    r = _reach(_succ(spec))
    return all(u in has_product or (r[u] & has_product) for u in range(n))


def add_edge(spec, a, b, where):
    """Return a copy of spec with one more stream a -> b, or None if there is no room (<= MAXPORTS per side).
    A new port is opened when the unit has room ('first': at index 0, 'last': at the end); otherwise a product
    outlet of `a` is used (feed inlets of `b` are never used up)."""
    spec = {'ins': list(spec['ins']), 'outs': list(spec['outs']), 'edges': [list(e) for e in spec['edges']]}
    # outlet side
    used_o = {e[1] for e in spec['edges'] if e[0] == a}
    if spec['outs'][a] < MAXPORTS:
        spec['outs'][a] += 1
        if where == 'first':
            for e in spec['edges']:
                if e[0] == a: e[1] += 1
            o = 0
        else:
            o = spec['outs'][a] - 1
    else:
        free = [k for k in range(spec['outs'][a]) if k not in used_o]
        if not free: return None
        o = free[0] if where == 'first' else free[-1]
    if spec['ins'][b] < MAXPORTS:
        spec['ins'][b] += 1
        if where == 'first':
            for e in spec['edges']:
                if e[2] == b: e[3] += 1
            i = 0
        else:
            i = spec['ins'][b] - 1
    else:
        # never turn a feed into a recycle: the family is "the acyclic flowsheet plus ADDED streams", so every unit
        # keeps the feeds it had (a flowsheet without any feed is outside the quantifier of C19)
        return None
    spec['edges'].append([a, o, b, i])
    return spec


_unit_classes = {}


def unit_class(nin, nout, variable=False):
    key = (nin, nout, variable)
    cls = _unit_classes.get(key)
    if cls is None:
        cls = type(f"U{nin}x{nout}{'v' if variable else ''}", (nw.AbstractUnit,),
                   {'_N_ins': nin, '_N_outs': nout, '_ins_size_is_fixed': not variable,
                    '_outs_size_is_fixed': not variable})
        _unit_classes[key] = cls
    return cls


def build(spec):
    """Real units and streams for a specification. IDs start with '.' so nothing is put into a registry."""
    units = [unit_class(ni, no)(f'.U{k}', ins=(), outs=()) for k, (ni, no) in enumerate(zip(spec['ins'], spec['outs']))]
    for a, o, b, i in spec['edges']:
        units[b].ins[i] = units[a].outs[o]
    # harness sanity (C18 territory): the library objects realise the specification
    for a, o, b, i in spec['edges']:
        s = units[a].outs[o]
        assert s is units[b].ins[i] and s.source is units[a] and s.sink is units[b], 'harness: edge not realised'
    for k, u in enumerate(units):
        assert len(u.ins) == spec['ins'][k] and len(u.outs) == spec['outs'][k], 'harness: port count'
        assert all(isinstance(s, nw.AbstractStream) for s in list(u.ins) + list(u.outs)), 'harness: missing stream'
    return units


def connections(units):
    """Snapshot of the flowsheet as identities (for frame clauses)."""
    snap = []
    for u in units:
        snap.append((id(u), tuple((id(s), id(s._source), id(s._sink)) for s in u._ins._streams),
                     tuple((id(s), id(s._source), id(s._sink)) for s in u._outs._streams)))
    return snap


# =========================================================================== observing a Network

def flatten(net, out=None):
    if out is None: out = []
    for i in net.path:
        if isinstance(i, nw.Network):
            flatten(i, out)
        else:
            out.append(i)
    return out


def loops(net, out=None):
    """Unit sets of every (sub)network that carries a recycle = the recycle loops that are reported."""
    if out is None: out = []
    if net.recycle:
        out.append(set(flatten(net)))
    for i in net.path:
        if isinstance(i, nw.Network):
            loops(i, out)
    return out


def any_recycle_attribute(net):
    if net.recycle: return True
    return any(any_recycle_attribute(i) for i in net.path if isinstance(i, nw.Network))


def show(net, index):
    """Compact, JSON-able picture of a network: nested lists of unit numbers, recycles as 'a.o>b.i'."""
    def st(s):
        src = s._source; snk = s._sink
        a = f'{index[src]}.{src._outs._streams.index(s)}' if src in index else '?'
        b = f'{index[snk]}.{snk._ins._streams.index(s)}' if snk in index else '?'
        return f'{a}>{b}'
    r = net.recycle
    if r is None or not r: rr = None
    elif hasattr(r, 'sink'): rr = st(r)
    else: rr = sorted(st(i) for i in r)
    items = [show(i, index) if isinstance(i, nw.Network) else index.get(i, '?') for i in net.path]
    return {'path': items, 'recycle': rr} if rr is not None else items


class Tally:
    """Aggregates a clause over many runs inside one configuration (one obligation per clause and configuration)."""

    def __init__(self):
        self.count = {}
        self.fail = {}
        self.seen = {}

    def check(self, clause, ok, **info):
        self.count[clause] = self.count.get(clause, 0) + 1
        if not ok and clause not in self.fail:
            self.fail[clause] = {k: str(v)[:260] for k, v in info.items()}
        elif not ok:
            self.fail[clause]['more_failures'] = int(self.fail[clause].get('more_failures', 0)) + 1

    def observe(self, what, n):
        self.seen[what] = self.seen.get(what, 0) + int(n)

    def emit(self, w):
        if self.seen: w.note(observations=self.seen)
        for clause in sorted(self.count):
            f = self.fail.get(clause)
            w.ensure(clause, f is None, runs=self.count[clause], **(f or {}))


def run_from_units(spec, perm, tally, canary=None):
    """One call of the real Network.from_units on a fresh flowsheet; the statement of C19 as run-time contract."""
    units = build(spec)
    index = {u: k for k, u in enumerate(units)}
    given = [units[k] for k in perm]
    given_ids = [id(u) for u in given]
    before = connections(units)
    prio_before = dict(tmo.AbstractStream.feed_priorities)
    disj_before = list(nw.disjunctions)
    cyclic = is_cyclic(spec)
    info = {'perm': list(perm)}
    try:
        with warnings.catch_warnings(record=True) as caught:
            warnings.simplefilter('always')
            net = nw.Network.from_units(given)
    except Exception as e:
        tally.check('no-unexpected-exception', False, exception=f'{type(e).__name__}: {e}', **info)
        return None
    tally.check('no-unexpected-exception', True)
    warned = any('could not be determined' in str(c.message) for c in caught)
    flat = flatten(net)
    info['network'] = show(net, index)
    recycles = net.get_all_recycles()
    # ---- completeness: "yields a path that contains exactly the given units"
    tally.check('path contains exactly the given units',
                set(map(id, flat)) == set(given_ids) and all(u in index for u in flat), **info)
    tally.check('Network.units is the set of given units', set(map(id, net.units)) == set(given_ids), **info)
    pos = {}; last = {}
    for p, u in enumerate(flat):
        pos.setdefault(u, p); last[u] = p
    # a stream a -> b runs against the path order when (some listing of) b does not come after (some listing of) a;
    # units are listed once in the acyclic case, where this is simply pos[a] >= pos[b]
    against = [e for e in spec['edges'] if units[e[0]] in pos and units[e[2]] in pos and last[units[e[0]]] >= pos[units[e[2]]]]
    if not cyclic:
        tally.check('acyclic: every unit appears exactly once', len(flat) == len(units) and len(set(map(id, flat))) == len(flat), **info)
        tally.check('acyclic: every unit comes after all units that feed it', not against and len(pos) == len(units),
                    against=against, **info)
        tally.check('acyclic: no recycle stream is reported', not recycles and not any_recycle_attribute(net),
                    reported=len(recycles), **info)
        # auxiliary (not a sentence of C19, but an order "after all units that feed it" presupposes it): sort did not give up
        tally.check('acyclic (auxiliary): no "network path could not be determined" warning', not warned, **info)
    else:
        tally.check('cyclic: at least one recycle stream is reported', len(recycles) >= 1, **info)
        lps = loops(net)
        bad = [e for e in against if not any(units[e[0]] in L and units[e[2]] in L for L in lps)]
        tally.check('cyclic: every stream against the path order connects two units of a common recycle loop',
                    not bad and len(pos) == len(units), not_in_a_loop=bad, **info)
        # observations outside the statement (C19 does not constrain them when there are cycles); counted, never failed
        tally.observe('cyclic runs', 1)
        tally.observe('cyclic runs in which a unit is listed more than once', len(flat) != len(set(map(id, flat))))
        tally.observe('cyclic runs with the warning "network path could not be determined"', warned)
    # ---- frame
    tally.check('frame: flowsheet connections unchanged', connections(units) == before, **info)
    tally.check('frame: the given unit list is unchanged', [id(u) for u in given] == given_ids, **info)
    tally.check('frame: feed priorities and disjunctions unchanged',
                dict(tmo.AbstractStream.feed_priorities) == prio_before and list(nw.disjunctions) == disj_before, **info)
    if canary is not None:
        canary(units, flat, pos, net, recycles)
    return net


def some_perms(n, k, rng):
    """identity, reverse and k seeded shuffles"""
    ident = list(range(n))
    out = [ident, ident[::-1]]
    for _ in range(k):
        p = ident[:]; rng.shuffle(p)
        if p not in out: out.append(p)
    return out


def perms_of(cfg):
    n = len(cfg['spec']['ins'])
    if cfg['perms'] == 'all':
        return [list(p) for p in itertools.permutations(range(n))]
    return cfg['perms']


def check_flowsheet(w, cfg):
    """Body shared by the from_units groups."""
    spec = cfg['spec']
    tally = Tally()
    state = {'reversed_refuted': 0, 'runs': 0}

    def canary(units, flat, pos, net, recycles):
        # vacuity guard of the order clause: the reversed path must be rejected by the same test
        rpos = {}
        for p, u in enumerate(reversed(flat)):
            rpos.setdefault(u, p)
        state['runs'] += 1
        if any(rpos[units[e[0]]] >= rpos[units[e[2]]] for e in spec['edges'] if units[e[0]] in rpos and units[e[2]] in rpos):
            state['reversed_refuted'] += 1

    for perm in perms_of(cfg):
        run_from_units(spec, perm, tally, canary)
    tally.emit(w)
    w.ensure('canary refuted: the reversed path violates the order test', state['reversed_refuted'] == state['runs'] > 0)
    w.canary('canary: the reversed path is also a valid order', state['reversed_refuted'] == 0)
    w.note(spec=spec, cyclic=is_cyclic(spec), runs=state['runs'])


# =========================================================================== families

VARIANTS = ('asc', 'desc', 'xfirst', 'xlast')


def _multi(edges, n, which):
    """Duplicate edge number `which` (two parallel streams between the same two units)."""
    return list(edges) + [edges[which]]


def dag_exhaustive_configs(tier):
    nmax = 4 if tier == 'quick' else 5
    rng = random.Random(SEED * 7919 + 19)
    out = []
    for n in range(2, nmax + 1):
        for gi, edges in enumerate(connected_dags(n)):
            for var in VARIANTS:
                spec = make_spec(n, edges, var)
                if spec is None: continue
                perms = 'all' if n <= 4 else some_perms(n, 10, rng)
                out.append({'name': f'n={n};dag={gi};ports={var}', 'spec': spec, 'perms': perms})
            # parallel streams: duplicate each edge in turn where both units have room
            for k in range(len(edges)):
                spec = make_spec(n, _multi(edges, n, k), 'asc')
                if spec is None: continue
                perms = 'all' if n <= 4 else some_perms(n, 4, rng)
                out.append({'name': f'n={n};dag={gi};double-edge={k}', 'spec': spec, 'perms': perms})
    return out


def random_dag(rng, n):
    """A weakly connected DAG with <= MAXPORTS in/out edges per unit; node numbers are a random relabelling
    of a topological order."""
    p = rng.choice([0.25, 0.4, 0.6])
    order = list(range(n)); rng.shuffle(order)
    indeg = [0] * n; outdeg = [0] * n
    edges = []
    pairs = [(i, j) for i in range(n) for j in range(i + 1, n)]
    rng.shuffle(pairs)
    for i, j in pairs:
        near = (j - i) <= 3
        if rng.random() < (p if near else p / 3) and outdeg[i] < MAXPORTS and indeg[j] < MAXPORTS:
            edges.append((i, j)); outdeg[i] += 1; indeg[j] += 1
    # connect the components
    comp = list(range(n))
    def find(x):
        while comp[x] != x: x = comp[x]
        return x
    for i, j in edges: comp[find(i)] = find(j)
    for i, j in pairs:
        if find(i) != find(j) and outdeg[i] < MAXPORTS and indeg[j] < MAXPORTS:
            edges.append((i, j)); outdeg[i] += 1; indeg[j] += 1; comp[find(i)] = find(j)
    if len({find(i) for i in range(n)}) != 1:
        return None
    if rng.random() < 0.3:    # some parallel streams
        i, j = rng.choice(edges)
        if outdeg[i] < MAXPORTS and indeg[j] < MAXPORTS:
            edges.append((i, j)); outdeg[i] += 1; indeg[j] += 1
    return [(order[i], order[j]) for i, j in edges]


def dag_random_configs(tier):
    rng = random.Random(SEED * 104729 + 1)
    N = 120 if tier == 'quick' else 1500
    out = []
    k = 0
    while len(out) < N:
        k += 1
        n = 5 + (k % 6)
        edges = random_dag(rng, n)
        if edges is None: continue
        spec = make_spec(n, edges, 'rand', rng)
        if spec is None: continue
        out.append({'name': f'random#{len(out)};n={n}', 'spec': spec, 'perms': some_perms(n, 6 if tier == 'quick' else 12, rng)})
    return out


def back_edge_candidates(spec):
    """(j, i) with i -> ... -> j in the flowsheet, so that a stream j -> i closes a cycle."""
    r = _reach(_succ(spec))
    return [(j, i) for i in sorted(r) for j in sorted(r[i]) if i != j]


def add_back_edges(spec, backs, where):
    for j, i in backs:
        spec = add_edge(spec, j, i, where)
        if spec is None: return None
    if not is_cyclic(spec) or not all_reach_a_product(spec):
        return None
    return spec


def cyclic_exhaustive_configs(tier):
    """Every connected DAG (2..nmax units, up to isomorphism) with every single back-edge, every pair (quick: n <= 3,
    thorough: n <= 4) and seeded triples."""
    nmax = 4 if tier == 'quick' else 5
    rng = random.Random(SEED * 15485863 + 3)
    out = []
    for n in range(2, nmax + 1):
        for gi, edges in enumerate(connected_dags(n)):
            if n == 5:      # thorough only: every single back-edge, two port layouts, 12 unit orders
                for var in ('asc', 'xlast'):
                    base = make_spec(n, edges, var)
                    if base is None: continue
                    for c in back_edge_candidates(base):
                        spec = add_back_edges(base, (c,), 'last')
                        if spec is None: continue
                        out.append({'name': f'n={n};dag={gi};ports={var};back={c[0]}>{c[1]};last', 'spec': spec,
                                    'perms': some_perms(n, 10, rng)})
                continue
            for var in (('asc', 'xlast') if tier == 'quick' else VARIANTS):
                base = make_spec(n, edges, var)
                if base is None: continue
                cands = back_edge_candidates(base)
                sets = [(c,) for c in cands]
                pairs = list(itertools.combinations(cands, 2))
                triples = list(itertools.combinations(cands, 3))
                if n <= 3 or tier != 'quick':
                    sets += pairs
                else:
                    sets += rng.sample(pairs, min(len(pairs), 3))
                sets += rng.sample(triples, min(len(triples), 2 if tier == 'quick' else 8))
                for backs in sets:
                    for where in ('last', 'first'):
                        spec = add_back_edges(base, backs, where)
                        if spec is None: continue
                        nm = '+'.join(f'{j}>{i}' for j, i in backs)
                        out.append({'name': f'n={n};dag={gi};ports={var};back={nm};{where}', 'spec': spec, 'perms': 'all'})
    return out


def cyclic_random_configs(tier):
    rng = random.Random(SEED * 32452843 + 5)
    N = 120 if tier == 'quick' else 1500
    out = []
    k = 0
    while len(out) < N:
        k += 1
        n = 4 + (k % 7)
        edges = random_dag(rng, n)
        if edges is None: continue
        base = make_spec(n, edges, 'rand', rng)
        if base is None: continue
        cands = back_edge_candidates(base)
        nb = 1 + (k // 7) % 3
        if len(cands) < nb: continue
        spec = add_back_edges(base, rng.sample(cands, nb), rng.choice(['first', 'last']))
        if spec is None: continue
        out.append({'name': f'random#{len(out)};n={n};back-edges={nb}', 'spec': spec,
                    'perms': some_perms(n, 6 if tier == 'quick' else 12, rng)})
    return out


FROM_UNITS = ['thermosteam.network:Network.from_units', 'thermosteam.network:Network.from_feedstock',
              'thermosteam.network:find_linear_and_cyclic_paths_with_recycle', 'thermosteam.network:fill_path',
              'thermosteam.network:simplified_linear_paths', 'thermosteam.network:Network.join_linear_network',
              'thermosteam.network:Network.join_recycle_network', 'thermosteam.network:Network.join_network_at_unit',
              'thermosteam.network:Network.reduce_recycles', 'thermosteam.network:Network.sort',
              'thermosteam.network:Network.get_all_recycles', 'thermosteam.network:sort_feeds_big_to_small',
              'thermosteam.utils.stream_filters:feeds_from_units', 'thermosteam.utils.stream_filters:products_from_units']


@group('C19/from_units_dag_exhaustive', configs=dag_exhaustive_configs, functions=FROM_UNITS, mode='B',
       notes='ALL weakly connected simple DAGs with 2-4 (quick) / 2-5 (thorough) units and <= 3 edges per side, one per '
             'isomorphism class, x 4 port layouts (ascending/descending port order, with/without an extra feed and product '
             'port on every unit) + each edge doubled in turn (parallel streams); every permutation of the unit list for '
             '<= 4 units, identity/reverse/10 seeded permutations for 5 units')
def from_units_dag_exhaustive(w, cfg):
    check_flowsheet(w, cfg)


@group('C19/from_units_dag_random', configs=dag_random_configs, functions=FROM_UNITS, mode='B',
       notes='seeded (VERIF_SEED) random weakly connected DAGs with 5-10 units, 1-3 inlets/outlets per unit, random port '
             'order, random extra feeds/products, occasional parallel streams; 120 (quick) / 1500 (thorough) flowsheets x '
             'identity, reverse and 6 / 12 seeded permutations of the unit list')
def from_units_dag_random(w, cfg):
    check_flowsheet(w, cfg)


@group('C19/from_units_cyclic_exhaustive', configs=cyclic_exhaustive_configs, functions=FROM_UNITS, mode='B',
       notes='every connected DAG with 2-4 units (up to isomorphism; 2 port layouts quick / 4 thorough) + every single '
             'added stream j->i that closes a cycle (i upstream of j), every pair of them (quick: <= 3 units + 3 seeded pairs '
             'for 4 units), seeded triples; new port first/last, feeds are never used up; only flowsheets in which every unit '
             'still reaches a product; every permutation of the unit list; thorough: also 5 units + every single added stream, '
             '2 port layouts, identity/reverse/10 seeded unit orders')
def from_units_cyclic_exhaustive(w, cfg):
    check_flowsheet(w, cfg)


@group('C19/from_units_cyclic_random', configs=cyclic_random_configs, functions=FROM_UNITS, mode='B',
       notes='seeded random DAGs with 4-10 units + 1-3 seeded back-edges closing a cycle, every unit still reaches a '
             'product; 120 (quick) / 1500 (thorough) flowsheets x identity, reverse and 6 / 12 seeded permutations')
def from_units_cyclic_random(w, cfg):
    check_flowsheet(w, cfg)


# =========================================================================== Network.sort, mode S
# The reachability answers of PathSource.downstream_from come from a SYMBOLIC relation R over the path items
# (R[i][j]: item i reaches item j; one sign leaf per ordered pair), required to be a strict partial order.
# The real Network.sort runs on it; every comparison forks, so the explorer enumerates exactly the partial orders
# that sort can tell apart, and each clause is discharged for all relations compatible with the path.

def sort_sym_configs(tier):
    return [{'name': f'N={n}', 'n': n} for n in ((1, 2, 3, 4) if tier == 'quick' else (1, 2, 3, 4, 5))]


def _plain_units(n):
    return [unit_class(1, 1)(f'.I{k}', ins=(), outs=()) for k in range(n)]


@group('C19/sort_partial_orders', configs=sort_sym_configs,
       functions=['thermosteam.network:Network.sort'],
       assumptions=['PathSource.downstream_from(a, b) answers "b reaches a" for a relation that is a strict partial order '
                    '(its implementation on real flowsheets is checked in C19/reachability and C19/sort_flowsheets, mode B)'])
def sort_partial_orders(w, cfg):
    n = cfg['n']
    items = _plain_units(n)
    idx = {u: k for k, u in enumerate(items)}
    r = {(i, j): w.real(f'r{i}{j}') for i in range(n) for j in range(n) if i != j}
    R = lambda i, j: w.gt(r[i, j], 0)
    for i in range(n):
        for j in range(n):
            if i == j: continue
            if i < j: w.assume(w.Not(w.And(R(i, j), R(j, i))))                    # antisymmetric
            for k in range(n):
                if k != i and k != j: w.assume(w.Implies(w.And(R(i, j), R(j, k)), R(i, k)))   # transitive

    class StubPathSource:
        __slots__ = ('source', 'units')

        def __init__(self, source, ends=None):
            self.source = source
            self.units = None

        def downstream_from(self, other):          # "self.source in other.units": other reaches self
            return r[idx[other.source], idx[self.source]] > 0

    net = nw.Network(list(items))
    units_before = set(net.units)
    real = nw.PathSource
    nw.PathSource = StubPathSource
    try:
        with warnings.catch_warnings(record=True) as caught:
            warnings.simplefilter('always')
            net.sort(set())
    finally:
        nw.PathSource = real
    path = net.path
    w.ensure('result is a permutation of the items', sorted(idx.get(u, -1) for u in path) == list(range(n)))
    pos = {idx[u]: p for p, u in enumerate(path) if u in idx}
    for i in range(n):
        for j in range(n):
            if i != j and i in pos and j in pos:
                w.ensure(f'item {i} reaches item {j} -> {i} comes before {j}', w.Implies(R(i, j), pos[i] < pos[j]))
    w.ensure('the loop ends with stop true (no "path could not be determined" warning)',
             not any('could not be determined' in str(c.message) for c in caught))
    w.ensure('no recycle is added', net.recycle is None)
    w.ensure('frame: Network.units unchanged', net.units == units_before)
    if n >= 2 and 0 in pos and 1 in pos:
        w.canary('canary: item 0 reaches item 1 -> 1 comes before 0', w.Implies(R(0, 1), pos[1] < pos[0]))
    else:
        w.canary('canary: a single item is moved', False)
    w.note(order=[idx.get(u) for u in path])


# =========================================================================== Network.sort on real flowsheets, mode B

def loose_spec(n, edges):
    """Ports for an arbitrary digraph (no port limit): one outlet per out-edge, one inlet per in-edge, in edge order;
    a feed / product where a unit has none."""
    outs = [[] for _ in range(n)]; ins = [[] for _ in range(n)]
    for k, (a, b) in enumerate(edges):
        outs[a].append(k); ins[b].append(k)
    for side in (outs, ins):
        for s in side:
            if not s: s.append(None)
    return {'ins': [len(s) for s in ins], 'outs': [len(s) for s in outs],
            'edges': [[a, outs[a].index(k), b, ins[b].index(k)] for k, (a, b) in enumerate(edges)]}


def digraph_configs(nmax, self_loops=False):
    out = []
    for n in range(1, nmax + 1):
        pairs = [(i, j) for i in range(n) for j in range(n) if i != j or self_loops]
        for mask in range(1 << len(pairs)):
            edges = [p for k, p in enumerate(pairs) if mask >> k & 1]
            out.append({'name': f'n={n};edges={mask:0{max(1, len(pairs))}b}', 'n': n, 'edges': [list(e) for e in edges]})
    return out


def sort_flowsheet_configs(tier):
    return digraph_configs(3 if tier == 'quick' else 4)


def _item_reach(groups, reach):
    """Item-level reachability: X reaches Y iff some unit of X reaches some unit of Y (X != Y)."""
    m = len(groups)
    return {x: {y for y in range(m) if y != x and any(b in reach[a] for a in groups[x] for b in groups[y])} for x in range(m)}


@group('C19/sort_flowsheets', configs=sort_flowsheet_configs, mode='B',
       functions=['thermosteam.network:Network.sort', 'thermosteam.network:PathSource.__init__',
                  'thermosteam.network:PathSource.downstream_from', 'thermosteam.network:Network.add_recycle'],
       notes='Network.sort with the real PathSource on ALL labelled digraphs without self-loops on 1-3 (quick) / 1-4 '
             '(thorough) units (= every initial order of every flowsheet), x ends in {nothing, every stream against a '
             'hidden ranking (all n! rankings) so that the rest is acyclic}, x items = units or the first two units '
             'grouped into a sub-network')
def sort_flowsheets(w, cfg):
    n = cfg['n']; edges = [tuple(e) for e in cfg['edges']]
    spec = loose_spec(n, edges)
    tally = Tally()
    ncanary = [0, 0]
    cuts = [None] + [list(p) for p in itertools.permutations(range(n))]
    for rank in cuts:
        for grouped in ((False, True) if n >= 3 else (False,)):
            units = build(spec)
            index = {u: k for k, u in enumerate(units)}
            cut = [] if rank is None else [e for e in spec['edges'] if rank[e[0]] >= rank[e[2]]]
            ends = {units[e[0]].outs[e[1]] for e in cut}
            ends_before = set(ends)
            kept = [(e[0], e[2]) for e in spec['edges'] if e not in cut]
            succ = {u: set() for u in range(n)}
            for a, b in kept: succ[a].add(b)
            reach = _reach(succ)
            if grouped:
                sub = nw.Network([units[0], units[1]])
                items = [sub] + units[2:]
                groups = [[0, 1]] + [[k] for k in range(2, n)]
            else:
                sub = None
                items = list(units)
                groups = [[k] for k in range(n)]
            ireach = _item_reach(groups, reach)
            acyclic = not any(x in ireach[y] for x in ireach for y in ireach[x]) and not any(u in reach[u] for u in reach)
            net = nw.Network(list(items))
            before = connections(units)
            info = {'ends_rank': rank, 'grouped': grouped}
            try:
                with warnings.catch_warnings(record=True) as caught:
                    warnings.simplefilter('always')
                    net.sort(ends)
            except Exception as e:
                tally.check('no-unexpected-exception', False, exception=f'{type(e).__name__}: {e}', **info)
                continue
            tally.check('no-unexpected-exception', True)
            warned = any('could not be determined' in str(c.message) for c in caught)
            path = net.path
            info['result'] = show(net, index)
            tally.check('result is a permutation of the items',
                        len(path) == len(items) and all(any(p is i for p in path) for i in items), **info)
            tally.check('flattened path contains every unit exactly once', sorted(index.get(u, -1) for u in flatten(net)) == list(range(n)), **info)
            ipos = {k: next((p for p, x in enumerate(path) if x is i), None) for k, i in enumerate(items)}
            if None in ipos.values():
                continue
            against = [(x, y) for x in ireach for y in ireach[x] if ipos[x] > ipos[y]]     # x reaches y but comes later
            if acyclic:
                tally.check('acyclic: every item comes after all items that reach it', not against, against=against, **info)
                tally.check('acyclic: no recycle is added', not any_recycle_attribute(net), **info)
                tally.check('acyclic: the loop ends with stop true (no warning)', not warned, **info)
                if sub is not None:
                    a, b = flatten(sub) if len(flatten(sub)) == 2 else (None, None)
                    tally.check('acyclic: the sub-network is sorted as well',
                                a is not None and not (index[a] in reach[index[b]]), **info)
                if any(ireach.values()):
                    ncanary[1] += 1
                    if any(ipos[x] < ipos[y] for x in ireach for y in ireach[x]): ncanary[0] += 1
            else:
                # items that stay against the flow are mutually reachable (inside one loop) ...
                bad = [(x, y) for x, y in against if x not in ireach[y]]
                # ... as long as sort did not give up
                tally.check('cyclic: an item stays before one that reaches it only if both reach each other, or sort warns',
                            not bad or warned, not_mutual=bad, **info)
            tally.check('frame: flowsheet connections unchanged', connections(units) == before, **info)
            tally.check('frame: ends unchanged', ends == ends_before, **info)
    tally.emit(w)
    if ncanary[1]:
        w.ensure('canary refuted: "the sorted order is against the flow" is rejected in every acyclic run with a reaching pair',
                 ncanary[0] == ncanary[1])
    w.canary('canary: the sorted order is against the flow', ncanary[0] == 0)
    w.note(spec=spec)


# =========================================================================== reachability closures, mode B

def reach_configs(tier):
    out = digraph_configs(3, self_loops=True) if tier == 'quick' else digraph_configs(3, self_loops=True) + [
        dict(c, name='noloops;' + c['name']) for c in digraph_configs(4) if c['n'] == 4]
    return out


@group('C19/reachability', configs=reach_configs, mode='B',
       functions=['thermosteam.network:AbstractUnit.get_downstream_units', 'thermosteam.network:AbstractUnit.get_upstream_units',
                  'thermosteam.network:AbstractUnit._add_downstream_neighbors_to_set',
                  'thermosteam.network:AbstractUnit._add_upstream_neighbors_to_set',
                  'thermosteam.network:AbstractUnit.get_recycle_units', 'thermosteam.network:PathSource.__init__'],
       notes='ALL labelled digraphs on 1-3 units including self-loops (quick) + all on 4 units without self-loops '
             '(thorough); every start unit; ends in {None, empty, each single stream, all streams against the labelling}; '
             'fresh result set and a result set pre-seeded with the closure of another unit; one unit optionally universal')
def reachability(w, cfg):
    n = cfg['n']; edges = [tuple(e) for e in cfg['edges']]
    spec = loose_spec(n, edges)
    tally = Tally()
    cut_sets = [None, []] + [[e] for e in spec['edges']] + [[e for e in spec['edges'] if e[0] >= e[2]]]
    wrong = [0, 0]
    for cut in cut_sets:
        for universal_unit in (None, 0):
            units = build(spec)
            if universal_unit is not None:
                units[universal_unit]._universal = True       # instance attribute shadows the class flag
            ends = None if cut is None else {units[e[0]].outs[e[1]] for e in cut}
            ends_before = None if ends is None else set(ends)
            kept = [(e[0], e[2]) for e in spec['edges'] if not (cut and e in cut)]
            before = connections(units)
            for universal in (True, False):
                skip = universal_unit if not universal else None
                succ = {u: set() for u in range(n)}; pred = {u: set() for u in range(n)}
                for a, b in kept:
                    if b != skip: succ[a].add(b)
                    if a != skip: pred[b].add(a)
                # a universal unit is not entered when universal=False: nothing is reached through it either
                def closure(nb, start):
                    seen = set(); todo = list(nb[start])
                    while todo:
                        v = todo.pop()
                        if v not in seen:
                            seen.add(v)
                            todo.extend(nb[v])
                    return seen
                info = {'cut': cut, 'universal_unit': universal_unit, 'universal': universal}
                for k, u in enumerate(units):
                    down = u.get_downstream_units(ends=ends, universal=universal)
                    up = u.get_upstream_units(ends=ends, universal=universal)
                    exp_d = closure(succ, k); exp_u = closure(pred, k)
                    tally.check('get_downstream_units = units reachable through >= 1 stream not in ends',
                                {units.index(x) for x in down} == exp_d, unit=k, got=sorted(units.index(x) for x in down), expected=sorted(exp_d), **info)
                    tally.check('get_upstream_units = units that reach it through >= 1 stream not in ends',
                                {units.index(x) for x in up} == exp_u, unit=k, got=sorted(units.index(x) for x in up), expected=sorted(exp_u), **info)
                    if k not in exp_d:          # vacuity guard: the wrong claim "a unit is downstream of itself" must be rejected here
                        wrong[1] += 1
                        if {units.index(x) for x in down} != exp_d | {k}: wrong[0] += 1
                    # seeded with the (closed) result of another unit: the union of both closures, same set object
                    for k2, u2 in enumerate(units):
                        seed = u2.get_downstream_units(ends=ends, universal=universal)
                        got = u.get_downstream_units(ends=ends, universal=universal, downstream_units=seed)
                        tally.check('seeded get_downstream_units returns the seed object holding the union of both closures',
                                    got is seed and {units.index(x) for x in got} == exp_d | closure(succ, k2),
                                    unit=k, seed_of=k2, got=sorted(units.index(x) for x in got), **info)
                        seed = u2.get_upstream_units(ends=ends, universal=universal)
                        got = u.get_upstream_units(ends=ends, universal=universal, upstream_units=seed)
                        tally.check('seeded get_upstream_units returns the seed object holding the union of both closures',
                                    got is seed and {units.index(x) for x in got} == exp_u | closure(pred, k2),
                                    unit=k, seed_of=k2, got=sorted(units.index(x) for x in got), **info)
                    if cut is None and universal_unit is None and not universal:
                        rec = u.get_recycle_units()
                        tally.check('get_recycle_units = units on a common cycle with the unit',
                                    {units.index(x) for x in rec} == exp_d & exp_u, unit=k, **info)
            tally.check('frame: flowsheet connections unchanged', connections(units) == before, **info)
            tally.check('frame: ends unchanged', ends == ends_before, **info)
    tally.emit(w)
    if wrong[1]:
        w.ensure('canary refuted: "a unit is always downstream of itself" is rejected for every unit that is not on a cycle',
                 wrong[0] == wrong[1])
    w.canary('canary: the unit itself is always in its downstream set', wrong[0] == 0)
    w.note(spec=spec)


# =========================================================================== local path surgery of Network, mode B
# shape = {'p': [unit number | shape, ...], 'r': 0 | 1 | 2}   (r: no recycle / one stream / a set of two streams)

def _mk_network(shape, units, streams):
    path = [(_mk_network(i, units, streams) if isinstance(i, dict) else units[i]) for i in shape['p']]
    r = shape.get('r', 0)
    rec = None if r == 0 else (streams.pop() if r == 1 else {streams.pop(), streams.pop()})
    return nw.Network(path, rec)


def _picture(net, index):
    """Structure of a network with identities resolved to unit numbers and recycle streams to their ids."""
    r = net.recycle
    rr = None if r is None else (('s', id(r)) if hasattr(r, 'sink') else ('set', tuple(sorted(map(id, r)))))
    return ([(_picture(i, index) if isinstance(i, nw.Network) else index[i]) for i in net.path], rr)


def _recycle_ids(net, out=None):
    if out is None: out = set()
    r = net.recycle
    if r is not None:
        out.update([id(r)] if hasattr(r, 'sink') else map(id, r))
    for i in net.path:
        if isinstance(i, nw.Network): _recycle_ids(i, out)
    return out


def surgery_configs(tier):
    selfs = [{'p': [0, 1, 2]}, {'p': [0, 1, 2], 'r': 1}, {'p': [0, {'p': [1, 2], 'r': 1}, 3]}, {'p': [0, {'p': [1, 2], 'r': 2}, 3], 'r': 1},
             {'p': []}, {'p': [{'p': [0, 1], 'r': 1}]}]
    others = [{'p': [4, 5]}, {'p': [4, 5], 'r': 1}, {'p': [1, 4]}, {'p': [2, 4, 0], 'r': 2}, {'p': [4, {'p': [5, 1], 'r': 1}]}, {'p': []}]
    out = []
    for si, s in enumerate(selfs):
        for oi, o in enumerate(others):
            for op in ('_insert_linear_network', '_append_linear_network', '_append_recycle_network', '_append_network', '_remove_overlap'):
                idxs = range(len(s['p']) + 1) if op == '_insert_linear_network' else [None]
                for k in idxs:
                    out.append({'name': f'{op};self={si};other={oi};index={k}', 'op': op, 'self': s, 'other': o, 'index': k})
    recs = ['none', 's1', '{s1}', '{s1,s2}']
    args = ['none', 's1', 's3', '{s1}', '{s3}', '{s2,s3}', '{}']
    for r in recs:
        for a in args:
            out.append({'name': f'add_recycle;recycle={r};arg={a}', 'op': 'add_recycle', 'recycle': r, 'arg': a})
    for si, s in enumerate(selfs):
        out.append({'name': f'get_all_recycles;self={si}', 'op': 'get_all_recycles', 'self': s})
    return out


@group('C19/path_surgery', configs=surgery_configs, mode='B',
       functions=['thermosteam.network:Network.add_recycle', 'thermosteam.network:Network.get_all_recycles',
                  'thermosteam.network:Network._remove_overlap', 'thermosteam.network:Network._insert_linear_network',
                  'thermosteam.network:Network._append_linear_network', 'thermosteam.network:Network._append_recycle_network',
                  'thermosteam.network:Network._append_network', 'thermosteam.network:Network.__init__'],
       notes='6 receiver shapes (flat / nested / empty, with and without recycle) x 6 argument networks (disjoint, overlapping, '
             'nested, empty) x every insertion index; add_recycle: 4 receiver states x 7 arguments (None, stream, same stream, sets)')
def path_surgery(w, cfg):
    units = _plain_units(6)
    index = {u: k for k, u in enumerate(units)}
    streams = [u.outs[0] for u in units] + [u.ins[0] for u in units]
    op = cfg['op']
    if op == 'add_recycle':
        s1, s2, s3 = streams[:3]
        mk = {'none': lambda: None, 's1': lambda: s1, 's3': lambda: s3, '{s1}': lambda: {s1}, '{s3}': lambda: {s3},
              '{s1,s2}': lambda: {s1, s2}, '{s2,s3}': lambda: {s2, s3}, '{}': lambda: set()}
        net = nw.Network([units[0], units[1]], mk[cfg['recycle']]())
        arg = mk[cfg['arg']]()
        view = lambda r: set() if r is None else ({id(r)} if hasattr(r, 'sink') else set(map(id, r)))
        before = view(net.recycle); argv = view(arg); path_before = list(net.path); units_before = set(net.units)
        net.add_recycle(arg)
        w.ensure('recycles after = recycles before U argument', view(net.recycle) == before | argv, got=len(view(net.recycle)))
        w.ensure('get_all_recycles agrees with the recycle attribute', set(map(id, net.get_all_recycles())) == before | argv)
        w.ensure('frame: path and units unchanged', net.path == path_before and net.units == units_before)
        w.ensure('frame: the argument is not modified', view(arg) == argv)
        w.canary('canary: add_recycle replaces the old recycle', view(net.recycle) == argv)
        return
    pool = list(streams)
    net = _mk_network(cfg['self'], units, pool)
    if op == 'get_all_recycles':
        expect = _recycle_ids(net)
        pic = _picture(net, index)
        got = net.get_all_recycles()
        w.ensure('get_all_recycles = union over all nested networks', set(map(id, got)) == expect)
        seed = {streams[-1]}
        got2 = net.get_all_recycles(seed)
        w.ensure('seeded: same set object, seed kept', got2 is seed and set(map(id, got2)) == expect | {id(streams[-1])})
        w.ensure('frame: network unchanged', _picture(net, index) == pic)
        w.canary('canary: only the top-level recycle is reported', set(map(id, got)) == _recycle_ids(nw.Network([], net.recycle)))
        return
    other = _mk_network(cfg['other'], units, pool)
    flat0 = [index[u] for u in flatten(net)]; oflat = [index[u] for u in flatten(other)]
    path0 = list(net.path); units0 = set(net.units); rec0 = _recycle_ids(net)
    opic = _picture(other, index); ounits = set(other.units); orec = _recycle_ids(other)
    if op == '_insert_linear_network':
        k = cfg['index']
        net._insert_linear_network(k, other)
        w.ensure('path = path[:index] + network.path + path[index:]', net.path == path0[:k] + other.path + path0[k:])
        w.ensure('units = units U network.units', net.units == units0 | ounits)
    elif op == '_append_linear_network':
        net._append_linear_network(other)
        w.ensure('path = path + network.path', net.path == path0 + other.path)
        w.ensure('units = units U network.units', net.units == units0 | ounits)
    elif op == '_append_recycle_network':
        net._append_recycle_network(other)
        w.ensure('path = path + [network]', len(net.path) == len(path0) + 1 and net.path[:-1] == path0 and net.path[-1] is other)
        w.ensure('units = units U network.units', net.units == units0 | ounits)
    elif op == '_append_network':
        net._append_network(other)
        w.ensure('units = units U network.units', net.units == units0 | ounits)
        w.ensure('all recycles = recycles of both', _recycle_ids(net) == rec0 | orec)
        if rec0 and cfg['self'].get('r'):
            w.ensure('a network with a recycle is wrapped: the loop stays closed around its own units only',
                     net.recycle is None and isinstance(net.path[0], nw.Network) and net.path[0].path == path0)
    elif op == '_remove_overlap':
        net._remove_overlap(other, tuple(path0))
        w.ensure('path = the items that are sub-networks or not units of the other network, in order',
                 net.path == [i for i in path0 if isinstance(i, nw.Network) or i not in ounits])
        w.ensure('frame: units attribute unchanged', net.units == units0)
    if op != '_remove_overlap':
        w.ensure('no unit lost or duplicated: flattened path = old flattened path + flattened network (as multisets)',
                 sorted(index[u] for u in flatten(net)) == sorted(flat0 + oflat))
        w.ensure('relative order of the old items and of the new items is kept',
                 _is_interleaving([index[u] for u in flatten(net)], flat0, oflat))
    w.ensure('frame: the argument network is unchanged', _picture(other, index) == opic and other.units == ounits)
    w.canary('canary: the receiver path is unchanged', net.path == path0)


def _is_interleaving(z, x, y):
    """z is an interleaving of the sequences x and y (both keep their order)."""
    if len(z) != len(x) + len(y): return False
    ok = {(0, 0)}
    for k, v in enumerate(z):
        nxt = set()
        for i, j in ok:
            if i < len(x) and x[i] == v: nxt.add((i + 1, j))
            if j < len(y) and y[j] == v: nxt.add((i, j + 1))
        ok = nxt
        if not ok: return False
    return (len(x), len(y)) in ok
