# -*- coding: utf-8 -*-
"""
C19 — the simulation order derived from a flowsheet is complete and follows material flow.

Contracts on the real `thermosteam.network.Network.from_units` (and on the pieces it is made of:
`Network.sort`, `AbstractUnit.get_downstream_units/get_upstream_units`, the local path surgery of `Network`).
The flowsheets are real `AbstractUnit` objects connected through real `AbstractStream` objects; the
*expected* graph is never read back from the library: it is the JSON specification of the configuration
(units, ports, edges), so the clauses compare what `from_units` reports with an independent description.

The structure (graph shape, port order, order of the unit list) is the whole input here: there are no
real-valued leaves.  `Network.sort` is checked in mode S with a *symbolic reachability relation* (one sign
leaf per ordered pair of items, constrained to a strict partial order: the explorer enumerates the posets);
everything else is mode B — run-time contracts on stated, exhaustive-up-to-a-bound or seeded families.
"""
import os
import random
import warnings
import functools
import itertools

import thermosteam as tmo
from thermosteam import network as nw
from engine.api import group

SEED = int(os.environ.get('VERIF_SEED', '0') or 0)
MAXPORTS = 3

try:
    tmo.settings.set_thermo([])
except Exception:      # pragma: no cover
    pass


# =========================================================================== flowsheet specifications
# spec = {'ins': [n_ins per unit], 'outs': [n_outs per unit], 'edges': [[u, outlet index, v, inlet index], ...]}
# Every inlet that is not the head of an edge is a feed (a real stream without source), every outlet that is
# not the tail of an edge is a product (a real stream without sink).

def _weakly_connected(n, edges):
    adj = {i: set() for i in range(n)}
    for a, b in edges:
        adj[a].add(b); adj[b].add(a)
    seen = {0}; todo = [0]
    while todo:
        for j in adj[todo.pop()]:
            if j not in seen:
                seen.add(j); todo.append(j)
    return len(seen) == n


@functools.lru_cache(None)
def connected_dags(n, maxdeg=MAXPORTS):
    """All weakly connected simple DAGs on n nodes with in/out degree <= maxdeg, one per isomorphism class.
    Returned with a topological labelling (every edge i -> j has i < j)."""
    pairs = [(i, j) for i in range(n) for j in range(i + 1, n)]
    perms = list(itertools.permutations(range(n)))
    seen = set(); out = []
    for mask in range(1 << len(pairs)):
        edges = [p for k, p in enumerate(pairs) if mask >> k & 1]
        indeg = [0] * n; outdeg = [0] * n
        for a, b in edges:
            outdeg[a] += 1; indeg[b] += 1
        if max(indeg) > maxdeg or max(outdeg) > maxdeg:
            continue
        if not _weakly_connected(n, edges):
            continue
        canon = min(tuple(sorted((p[a], p[b]) for a, b in edges)) for p in perms)
        if canon in seen:
            continue
        seen.add(canon)
        out.append(tuple(edges))
    return tuple(out)


def make_spec(n, edges, variant, rng=None):
    """Assign ports. `edges` is a list of (u, v) (multi-edges allowed).
    variant: 'asc' | 'desc'  minimal ports (a feed/product only where a unit has no inlet/outlet edge), edge ports
                             in ascending / descending order of the neighbour;
             'xfirst' | 'xlast'  additionally one feed and one product port on every unit that has room for it,
                             placed before / after the connected ports (multiple feeds and products);
             'rand'          random port order and random extra feeds/products (needs rng)."""
    outs = [[] for _ in range(n)]; ins = [[] for _ in range(n)]
    for k, (a, b) in enumerate(edges):
        outs[a].append(k); ins[b].append(k)
    for side in (outs, ins):
        for u in range(n):
            slots = side[u]
            if len(slots) > MAXPORTS:
                return None
            if variant == 'desc':
                slots.reverse()
            elif variant == 'rand':
                rng.shuffle(slots)
            if not slots:
                slots.append(None)
            elif variant == 'xfirst' and len(slots) < MAXPORTS:
                slots.insert(0, None)
            elif variant == 'xlast' and len(slots) < MAXPORTS:
                slots.append(None)
            elif variant == 'rand':
                while len(slots) < MAXPORTS and rng.random() < 0.4:
                    slots.insert(rng.randrange(len(slots) + 1), None)
    es = []
    for k, (a, b) in enumerate(edges):
        es.append([a, outs[a].index(k), b, ins[b].index(k)])
    return {'ins': [len(s) for s in ins], 'outs': [len(s) for s in outs], 'edges': es}


def _succ(spec):
    n = len(spec['ins'])
    s = {u: set() for u in range(n)}
    for a, _, b, _ in spec['edges']:
        s[a].add(b)
    return s


def _reach(succ):
    """Transitive closure: reach[u] = units reachable from u by >= 1 stream."""
    reach = {}
    for u in succ:
        seen = set(); todo = list(succ[u])
        while todo:
            v = todo.pop()
            if v not in seen:
                seen.add(v); todo.extend(succ[v])
        reach[u] = seen
    return reach


def is_cyclic(spec):
    r = _reach(_succ(spec))
    return any(u in r[u] for u in r)


def all_reach_a_product(spec):
    n = len(spec['ins'])
    used = [0] * n
    for a, _, _, _ in spec['edges']:
        used[a] += 1
    has_product = {u for u in range(n) if used[u] < spec['outs'][u]}
    r = _reach(_succ(spec))
    return all(u in has_product or (r[u] & has_product) for u in range(n))


def add_edge(spec, a, b, where):
    """Return a copy of spec with one more stream a -> b, or None if there is no room (<= MAXPORTS per side).
    A new port is opened when the unit has room ('first': at index 0, 'last': at the end); otherwise a product
    outlet of `a` is used (feed inlets of `b` are never used up)."""
    spec = {'ins': list(spec['ins']), 'outs': list(spec['outs']), 'edges': [list(e) for e in spec['edges']]}
    # outlet side
    used_o = {e[1] for e in spec['edges'] if e[0] == a}
    if spec['outs'][a] < MAXPORTS:
        spec['outs'][a] += 1
        if where == 'first':
            for e in spec['edges']:
                if e[0] == a: e[1] += 1
            o = 0
        else:
            o = spec['outs'][a] - 1
    else:
        free = [k for k in range(spec['outs'][a]) if k not in used_o]
        if not free: return None
        o = free[0] if where == 'first' else free[-1]
    if spec['ins'][b] < MAXPORTS:
        spec['ins'][b] += 1
        if where == 'first':
            for e in spec['edges']:
                if e[2] == b: e[3] += 1
            i = 0
        else:
            i = spec['ins'][b] - 1
    else:
        # never turn a feed into a recycle: the family is "the acyclic flowsheet plus ADDED streams", so every unit
        # keeps the feeds it had (a flowsheet without any feed is outside the quantifier of C19)
        return None
    spec['edges'].append([a, o, b, i])
    return spec


_unit_classes = {}


def unit_class(nin, nout, variable=False):
    key = (nin, nout, variable)
    cls = _unit_classes.get(key)
    if cls is None:
        cls = type(f"U{nin}x{nout}{'v' if variable else ''}", (nw.AbstractUnit,),
                   {'_N_ins': nin, '_N_outs': nout, '_ins_size_is_fixed': not variable,
                    '_outs_size_is_fixed': not variable})
        _unit_classes[key] = cls
    return cls


def build(spec):
    """Real units and streams for a specification. IDs start with '.' so nothing is put into a registry."""
    units = [unit_class(ni, no)(f'.U{k}', ins=(), outs=()) for k, (ni, no) in enumerate(zip(spec['ins'], spec['outs']))]
    for a, o, b, i in spec['edges']:
        units[b].ins[i] = units[a].outs[o]
    # harness sanity (C18 territory): the library objects realise the specification
    for a, o, b, i in spec['edges']:
        s = units[a].outs[o]
        assert s is units[b].ins[i] and s.source is units[a] and s.sink is units[b], 'harness: edge not realised'
    for k, u in enumerate(units):
        assert len(u.ins) == spec['ins'][k] and len(u.outs) == spec['outs'][k], 'harness: port count'
        assert all(isinstance(s, nw.AbstractStream) for s in list(u.ins) + list(u.outs)), 'harness: missing stream'
    return units


def connections(units):
    """Snapshot of the flowsheet as identities (for frame clauses)."""
    snap = []
    for u in units:
        snap.append((id(u), tuple((id(s), id(s._source), id(s._sink)) for s in u._ins._streams),
                     tuple((id(s), id(s._source), id(s._sink)) for s in u._outs._streams)))
    return snap


# =========================================================================== observing a Network

def flatten(net, out=None):
    if out is None: out = []
    for i in net.path:
        if isinstance(i, nw.Network):
            flatten(i, out)
        else:
            out.append(i)
    return out


def loops(net, out=None):
    """Unit sets of every (sub)network that carries a recycle = the recycle loops that are reported."""
    if out is None: out = []
    if net.recycle:
        out.append(set(flatten(net)))
    for i in net.path:
        if isinstance(i, nw.Network):
            loops(i, out)
    return out


def any_recycle_attribute(net):
    if net.recycle: return True
    return any(any_recycle_attribute(i) for i in net.path if isinstance(i, nw.Network))


def show(net, index):
    """Compact, JSON-able picture of a network: nested lists of unit numbers, recycles as 'a.o>b.i'."""
    def st(s):
        src = s._source; snk = s._sink
        a = f'{index[src]}.{src._outs._streams.index(s)}' if src in index else '?'
        b = f'{index[snk]}.{snk._ins._streams.index(s)}' if snk in index else '?'
        return f'{a}>{b}'
    r = net.recycle
    if r is None or not r: rr = None
    elif hasattr(r, 'sink'): rr = st(r)
    else: rr = sorted(st(i) for i in r)
    items = [show(i, index) if isinstance(i, nw.Network) else index.get(i, '?') for i in net.path]
    return {'path': items, 'recycle': rr} if rr is not None else items


class Tally:
    """Aggregates a clause over many runs inside one configuration (one obligation per clause and configuration)."""

    def __init__(self):
        self.count = {}
        self.fail = {}

    def check(self, clause, ok, **info):
        self.count[clause] = self.count.get(clause, 0) + 1
        if not ok and clause not in self.fail:
            self.fail[clause] = {k: str(v)[:260] for k, v in info.items()}
        elif not ok:
            self.fail[clause]['more_failures'] = int(self.fail[clause].get('more_failures', 0)) + 1

    def emit(self, w):
        for clause in sorted(self.count):
            f = self.fail.get(clause)
            w.ensure(clause, f is None, runs=self.count[clause], **(f or {}))


def run_from_units(spec, perm, tally, canary=None):
    """One call of the real Network.from_units on a fresh flowsheet; the statement of C19 as run-time contract."""
    units = build(spec)
    index = {u: k for k, u in enumerate(units)}
    given = [units[k] for k in perm]
    given_ids = [id(u) for u in given]
    before = connections(units)
    prio_before = dict(tmo.AbstractStream.feed_priorities)
    disj_before = list(nw.disjunctions)
    cyclic = is_cyclic(spec)
    info = {'perm': list(perm)}
    try:
        with warnings.catch_warnings():
            warnings.simplefilter('ignore')
            net = nw.Network.from_units(given)
    except Exception as e:
        tally.check('no-unexpected-exception', False, exception=f'{type(e).__name__}: {e}', **info)
        return None
    tally.check('no-unexpected-exception', True)
    flat = flatten(net)
    info['network'] = show(net, index)
    recycles = net.get_all_recycles()
    # ---- completeness: "yields a path that contains exactly the given units"
    tally.check('path contains exactly the given units',
                set(map(id, flat)) == set(given_ids) and all(u in index for u in flat), **info)
    tally.check('Network.units is the set of given units', set(map(id, net.units)) == set(given_ids), **info)
    pos = {}
    for p, u in enumerate(flat):
        pos.setdefault(u, p)
    against = [e for e in spec['edges'] if units[e[0]] in pos and units[e[2]] in pos and pos[units[e[0]]] >= pos[units[e[2]]]]
    if not cyclic:
        tally.check('acyclic: every unit appears exactly once', len(flat) == len(units) and len(set(map(id, flat))) == len(flat), **info)
        tally.check('acyclic: every unit comes after all units that feed it', not against and len(pos) == len(units),
                    against=against, **info)
        tally.check('acyclic: no recycle stream is reported', not recycles and not any_recycle_attribute(net),
                    reported=len(recycles), **info)
    else:
        tally.check('cyclic: at least one recycle stream is reported', len(recycles) >= 1, **info)
        lps = loops(net)
        bad = [e for e in against if not any(units[e[0]] in L and units[e[2]] in L for L in lps)]
        tally.check('cyclic: every stream against the path order connects two units of a common recycle loop',
                    not bad and len(pos) == len(units), not_in_a_loop=bad, **info)
    # ---- frame
    tally.check('frame: flowsheet connections unchanged', connections(units) == before, **info)
    tally.check('frame: the given unit list is unchanged', [id(u) for u in given] == given_ids, **info)
    tally.check('frame: feed priorities and disjunctions unchanged',
                dict(tmo.AbstractStream.feed_priorities) == prio_before and list(nw.disjunctions) == disj_before, **info)
    if canary is not None:
        canary(units, flat, pos, net, recycles)
    return net


def some_perms(n, k, rng):
    """identity, reverse and k seeded shuffles"""
    ident = list(range(n))
    out = [ident, ident[::-1]]
    for _ in range(k):
        p = ident[:]; rng.shuffle(p)
        if p not in out: out.append(p)
    return out


def perms_of(cfg):
    n = len(cfg['spec']['ins'])
    if cfg['perms'] == 'all':
        return [list(p) for p in itertools.permutations(range(n))]
    return cfg['perms']


def check_flowsheet(w, cfg):
    """Body shared by the from_units groups."""
    spec = cfg['spec']
    tally = Tally()
    state = {'reversed_refuted': 0, 'runs': 0}

    def canary(units, flat, pos, net, recycles):
        # vacuity guard of the order clause: the reversed path must be rejected by the same test
        rpos = {}
        for p, u in enumerate(reversed(flat)):
            rpos.setdefault(u, p)
        state['runs'] += 1
        if any(rpos[units[e[0]]] >= rpos[units[e[2]]] for e in spec['edges'] if units[e[0]] in rpos and units[e[2]] in rpos):
            state['reversed_refuted'] += 1

    for perm in perms_of(cfg):
        run_from_units(spec, perm, tally, canary)
    tally.emit(w)
    w.ensure('canary refuted: the reversed path violates the order test', state['reversed_refuted'] == state['runs'] > 0)
    w.canary('canary: the reversed path is also a valid order', state['reversed_refuted'] == 0)
    w.note(spec=spec, cyclic=is_cyclic(spec), runs=state['runs'])


# =========================================================================== families

VARIANTS = ('asc', 'desc', 'xfirst', 'xlast')


def _multi(edges, n, which):
    """Duplicate edge number `which` (two parallel streams between the same two units)."""
    return list(edges) + [edges[which]]


def dag_exhaustive_configs(tier):
    nmax = 4 if tier == 'quick' else 5
    rng = random.Random(SEED * 7919 + 19)
    out = []
    for n in range(2, nmax + 1):
        for gi, edges in enumerate(connected_dags(n)):
            for var in VARIANTS:
                spec = make_spec(n, edges, var)
                if spec is None: continue
                perms = 'all' if n <= 4 else some_perms(n, 10, rng)
                out.append({'name': f'n={n};dag={gi};ports={var}', 'spec': spec, 'perms': perms})
            # parallel streams: duplicate each edge in turn where both units have room
            for k in range(len(edges)):
                spec = make_spec(n, _multi(edges, n, k), 'asc')
                if spec is None: continue
                perms = 'all' if n <= 4 else some_perms(n, 4, rng)
                out.append({'name': f'n={n};dag={gi};double-edge={k}', 'spec': spec, 'perms': perms})
    return out


def random_dag(rng, n):
    """A weakly connected DAG with <= MAXPORTS in/out edges per unit; node numbers are a random relabelling
    of a topological order."""
    p = rng.choice([0.25, 0.4, 0.6])
    order = list(range(n)); rng.shuffle(order)
    indeg = [0] * n; outdeg = [0] * n
    edges = []
    pairs = [(i, j) for i in range(n) for j in range(i + 1, n)]
    rng.shuffle(pairs)
    for i, j in pairs:
        near = (j - i) <= 3
        if rng.random() < (p if near else p / 3) and outdeg[i] < MAXPORTS and indeg[j] < MAXPORTS:
            edges.append((i, j)); outdeg[i] += 1; indeg[j] += 1
    # connect the components
    comp = list(range(n))
    def find(x):
        while comp[x] != x: x = comp[x]
        return x
    for i, j in edges: comp[find(i)] = find(j)
    for i, j in pairs:
        if find(i) != find(j) and outdeg[i] < MAXPORTS and indeg[j] < MAXPORTS:
            edges.append((i, j)); outdeg[i] += 1; indeg[j] += 1; comp[find(i)] = find(j)
    if len({find(i) for i in range(n)}) != 1:
        return None
    if rng.random() < 0.3:    # some parallel streams
        i, j = rng.choice(edges)
        if outdeg[i] < MAXPORTS and indeg[j] < MAXPORTS:
            edges.append((i, j)); outdeg[i] += 1; indeg[j] += 1
    return [(order[i], order[j]) for i, j in edges]


def dag_random_configs(tier):
    rng = random.Random(SEED * 104729 + 1)
    N = 120 if tier == 'quick' else 1500
    out = []
    k = 0
    while len(out) < N:
        k += 1
        n = 5 + (k % 6)
        edges = random_dag(rng, n)
        if edges is None: continue
        spec = make_spec(n, edges, 'rand', rng)
        if spec is None: continue
        out.append({'name': f'random#{len(out)};n={n}', 'spec': spec, 'perms': some_perms(n, 6 if tier == 'quick' else 12, rng)})
    return out


def back_edge_candidates(spec):
    """(j, i) with i -> ... -> j in the flowsheet, so that a stream j -> i closes a cycle."""
    r = _reach(_succ(spec))
    return [(j, i) for i in sorted(r) for j in sorted(r[i]) if i != j]


def add_back_edges(spec, backs, where):
    for j, i in backs:
        spec = add_edge(spec, j, i, where)
        if spec is None: return None
    if not is_cyclic(spec) or not all_reach_a_product(spec):
        return None
    return spec


def cyclic_exhaustive_configs(tier):
    """Every connected DAG (2..nmax units, up to isomorphism) with every single back-edge, every pair (quick: n <= 3,
    thorough: n <= 4) and seeded triples."""
    nmax = 4
    rng = random.Random(SEED * 15485863 + 3)
    out = []
    for n in range(2, nmax + 1):
        for gi, edges in enumerate(connected_dags(n)):
            for var in (('asc', 'xlast') if tier == 'quick' else VARIANTS):
                base = make_spec(n, edges, var)
                if base is None: continue
                cands = back_edge_candidates(base)
                sets = [(c,) for c in cands]
                pairs = list(itertools.combinations(cands, 2))
                triples = list(itertools.combinations(cands, 3))
                if n <= 3 or tier != 'quick':
                    sets += pairs
                else:
                    sets += rng.sample(pairs, min(len(pairs), 3))
                sets += rng.sample(triples, min(len(triples), 2 if tier == 'quick' else 8))
                for backs in sets:
                    for where in ('last', 'first'):
                        spec = add_back_edges(base, backs, where)
                        if spec is None: continue
                        nm = '+'.join(f'{j}>{i}' for j, i in backs)
                        out.append({'name': f'n={n};dag={gi};ports={var};back={nm};{where}', 'spec': spec, 'perms': 'all'})
    return out


def cyclic_random_configs(tier):
    rng = random.Random(SEED * 32452843 + 5)
    N = 120 if tier == 'quick' else 1500
    out = []
    k = 0
    while len(out) < N:
        k += 1
        n = 4 + (k % 7)
        edges = random_dag(rng, n)
        if edges is None: continue
        base = make_spec(n, edges, 'rand', rng)
        if base is None: continue
        cands = back_edge_candidates(base)
        nb = 1 + (k // 7) % 3
        if len(cands) < nb: continue
        spec = add_back_edges(base, rng.sample(cands, nb), rng.choice(['first', 'last']))
        if spec is None: continue
        out.append({'name': f'random#{len(out)};n={n};back-edges={nb}', 'spec': spec,
                    'perms': some_perms(n, 6 if tier == 'quick' else 12, rng)})
    return out


FROM_UNITS = ['thermosteam.network:Network.from_units', 'thermosteam.network:Network.from_feedstock',
              'thermosteam.network:find_linear_and_cyclic_paths_with_recycle', 'thermosteam.network:fill_path',
              'thermosteam.network:simplified_linear_paths', 'thermosteam.network:Network.join_linear_network',
              'thermosteam.network:Network.join_recycle_network', 'thermosteam.network:Network.join_network_at_unit',
              'thermosteam.network:Network.reduce_recycles', 'thermosteam.network:Network.sort',
              'thermosteam.network:Network.get_all_recycles', 'thermosteam.network:sort_feeds_big_to_small',
              'thermosteam.utils.stream_filters:feeds_from_units', 'thermosteam.utils.stream_filters:products_from_units']


@group('C19/from_units_dag_exhaustive', configs=dag_exhaustive_configs, functions=FROM_UNITS, mode='B',
       notes='ALL weakly connected simple DAGs with 2-4 (quick) / 2-5 (thorough) units and <= 3 edges per side, one per '
             'isomorphism class, x 4 port layouts (ascending/descending port order, with/without an extra feed and product '
             'port on every unit) + each edge doubled in turn (parallel streams); every permutation of the unit list for '
             '<= 4 units, identity/reverse/10 seeded permutations for 5 units')
def from_units_dag_exhaustive(w, cfg):
    check_flowsheet(w, cfg)


@group('C19/from_units_dag_random', configs=dag_random_configs, functions=FROM_UNITS, mode='B',
       notes='seeded (VERIF_SEED) random weakly connected DAGs with 5-10 units, 1-3 inlets/outlets per unit, random port '
             'order, random extra feeds/products, occasional parallel streams; 120 (quick) / 1500 (thorough) flowsheets x '
             'identity, reverse and 6 / 12 seeded permutations of the unit list')
def from_units_dag_random(w, cfg):
    check_flowsheet(w, cfg)


@group('C19/from_units_cyclic_exhaustive', configs=cyclic_exhaustive_configs, functions=FROM_UNITS, mode='B',
       notes='every connected DAG with 2-4 units (up to isomorphism; 2 port layouts quick / 4 thorough) + every single '
             'back-edge j->i (i upstream of j), every pair of back-edges (quick: <= 3 units + 3 seeded pairs for 4 units), '
             'seeded triples; new port first/last; only flowsheets in which every unit still reaches a product; every '
             'permutation of the unit list')
def from_units_cyclic_exhaustive(w, cfg):
    check_flowsheet(w, cfg)


@group('C19/from_units_cyclic_random', configs=cyclic_random_configs, functions=FROM_UNITS, mode='B',
       notes='seeded random DAGs with 4-10 units + 1-3 seeded back-edges closing a cycle, every unit still reaches a '
             'product; 120 (quick) / 1500 (thorough) flowsheets x identity, reverse and 6 / 12 seeded permutations')
def from_units_cyclic_random(w, cfg):
    check_flowsheet(w, cfg)
