# -*- coding: utf-8 -*-
"""
C07 — gap groups: functions, histories and observation channels of property C07 that the groups of
`C07_thermo_consistency.py` / `C07_more.py` do not look at.

Coverage matrix (claim x code path x channel) that produced the work list:

  claim                                   | code path not exercised before                                   | group
  ----------------------------------------+------------------------------------------------------------------+----------------------------
  reference state, derivatives, P term,   | data setters of a Chemical after its free energies exist:        | C07/gap_setter_history
  jumps at Tb / Tm  (pure component)      |   phase_ref / Tb / S0 setter, `copy(ID, **data)`,                | (defect: C07/gap_setter_sfus)
                                          |   reset_constant / reset_energy_constant (handle and single-     |
                                          |   functor branch), two setters in a row, setter on a copy        |
                                          | Tm / Hfus setter, `copy(ID, Hfus=...)`  (Sfus must follow)       | C07/gap_setter_sfus
                                          | phases named 'L' / 'S' (PhaseHandle.L / .S), by-attribute reads  | C07/gap_setter_history (alias=upper)
                                          | copy_models_from between locked and unlocked chemicals (the      | C07/gap_models_from
                                          |   TDependentProperty <-> PhaseHandle branches), Hvap copied      |
                                          | real chemicals: pickle round trip, `Chemical(ID, phase=p)`,      | C07/gap_real_histories (B)
                                          |   method switch + reset, setters, copy_models_from, reset()      |
  H_mix, Cn_mix = sum n_k (pure value),   | mixtures that contain phase-locked chemicals:                    | C07/gap_locked_mixture
  extensive; pure stream S = n s          |   create_mixture_model -> MockPhaseTHandle / MockPhaseTPHandle   | C07/gap_real_mixture (B)
                                          | mol handed over as list / ndarray (SparseVector(mol) conversion) | C07/gap_dense_input
                                          | Stream.H / .C / .h / .Cn, MultiStream.H / .S / .C                | C07/gap_stream_channels
                                          |   (`_get_property`, x-models, cached second read after scaling,  |
                                          |   empty stream / empty phase)                                    |
  extensive (equation-of-state mixture)   | EOSMixture.H / S / Cn with the per-class eos cache and the       | C07/gap_eos_mixture (B)
                                          |   `_free_energy_args` memo of the temperature solvers            |

Genuine defect found (unchanged tree): the Tm / Hfus setters (and `copy(ID, Hfus=...)`) leave Sfus stale, so
S_l(Tm) - S_s(Tm) != Hfus/Tm afterwards -> every configuration of C07/gap_setter_sfus (reproducer /tmp/gap/C07_defect_1.py,
proposed patch /tmp/gap/C07_defect_1.diff); all other groups are discharged on the unchanged tree.

Every top-level ensures clause is a sentence of C07 for the chemical / mixture at hand; clauses on the entropy of a
*mixed* phase are not repeated here (known finding F-C07-1 lives in C07/mixture_*), entropies are stated for pure
phases (mixing term = 0) and for the excess switch.
"""
import pickle

import numpy

import thermosteam as tmo
from thermosteam.base import PhaseTHandle, SparseVector
from thermo import TDependentProperty
from engine.api import group
from engine.sx import tmo_world as W
from contracts.C07_thermo_consistency import (_assume_integrals_additive, _ig_eos, _log, _mol, _stored, _same_dct,
                                             R_GAS, PHASES, MIX_IDS, FREE_ENERGY_FUNCTIONS)
from contracts.C07_more import CnModel, HvapModel, _b_sentences, _near, _model_of_real, B_VALUES

UP = {'s': 'S', 'l': 'L', 'g': 'g'}

SETTER_FUNCTIONS = FREE_ENERGY_FUNCTIONS + [
    'thermosteam._chemical:Chemical.phase_ref', 'thermosteam._chemical:Chemical.Tb', 'thermosteam._chemical:Chemical.Tm',
    'thermosteam._chemical:Chemical.S0', 'thermosteam._chemical:Chemical.Hfus',
    'thermosteam._chemical:reset_constant', 'thermosteam._chemical:reset_energy_constant',
    'thermosteam._chemical:Chemical.reset_free_energies', 'thermosteam._chemical:Chemical.copy',
    'thermosteam._chemical:Chemical.at_state', 'thermosteam._chemical:lock_phase',
    'thermosteam.base.phase_handle:PhaseHandle.L', 'thermosteam.base.phase_handle:PhaseHandle.S',
    'thermosteam.base.phase_handle:PhaseHandle.__iter__',
]


# --------------------------------------------------------------------------- a real Chemical with arbitrary models

class CnTD(CnModel, TDependentProperty):
    """CnModel that `isinstance(..., TDependentProperty)` recognises (copy_models_from dispatches on the class)."""
    def __init__(self, w, tag, encoding='additive'):
        CnModel.__init__(self, w, tag, encoding)

    def copy(self):
        return CnTD(self._w, self._tag, self._enc)


class HvapTD(HvapModel, TDependentProperty):
    def __init__(self, w, tag='Hvap'):
        HvapModel.__init__(self, w, tag)

    def copy(self):
        return HvapTD(self._w, self._tag)


def _chem(w, ID, phase_ref, d, suffix='', td=False):
    """Real Chemical (no database data): Tm, Tb, Hfus, S0 are the given leaves/values, Sfus = Hfus/Tm as `_init_data`
    establishes it, heat capacities and Hvap are arbitrary functions of T that are DIFFERENT for every chemical (tags)."""
    Cn_cls, Hvap_cls = (CnTD, HvapTD) if td else (CnModel, HvapModel)
    chem = tmo.Chemical.blank(ID, phase_ref=phase_ref, free_energies=False)
    chem._Tm, chem._Tb, chem._Hfus, chem._S0 = d['Tm'], d['Tb'], d['Hfus'], d['S0']
    chem._Sfus = d['Hfus'] / d['Tm']
    chem._Tc = None
    chem._MW = 10. + len(ID)
    chem._eos = _ig_eos()
    chem._Hvap = Hvap_cls(w, 'Hvap' + suffix)
    chem._Cn = PhaseTHandle('Cn', *[Cn_cls(w, p + suffix) for p in PHASES])
    return chem


def _leaves(w, names=('Tm', 'Tb', 'T1', 'T2', 'P', 'P1', 'P2'), free=('Hfus', 'S0')):
    d = {k: w.real(k, lo=0., lo_strict=True) for k in names}
    for k in free:
        d[k] = w.real(k)
    return d


def _sent(w, who, chem, d, up=False, canary=False):
    """
    Every pure-component sentence of C07 for `chem`, whose normal melting/boiling point, heat of fusion and absolute
    entropy are d['Tm'], d['Tb'], d['Hfus'], d['S0'] (what the caller of the public API specified last), against the
    chemical's own current Cn / Hvap models; phases are addressed as 's','l','g' or (up) 'S','L','g'.
    """
    T_ref, P_ref = tmo.Chemical.T_ref, tmo.Chemical.P_ref
    Tm, Tb, T1, T2, P, P1, P2 = d['Tm'], d['Tb'], d['T1'], d['T2'], d['P'], d['P1'], d['P2']
    Hfus, S0 = d['Hfus'], d['S0']
    H, S, Cn = chem.H, chem.S, chem.Cn
    R = tmo.constants.R
    locked = chem.locked_state
    ln_P2_over_P1 = _log(w, P2 / P_ref) - _log(w, P1 / P_ref)      # A-log instance (P_ref is the concrete class constant)
    w.ensure(f'{who}: Tm, Tb, Hfus, S0 read back as specified',
             w.And(w.eq(chem.Tm, Tm), w.eq(chem.Tb, Tb), w.eq(chem.Hfus, Hfus), w.eq(chem.S0, S0)))
    if locked:
        w.ensure(f'{who}: H(T_ref, P_ref) = 0', w.eq(H(T_ref, P_ref), 0.))
        w.ensure(f'{who}: S(T_ref, P_ref) = S0 (absolute entropy)', w.eq(S(T_ref, P_ref), S0))
        w.ensure(f'{who}: H(T2) - H(T1) = integral of its Cn dT from T1 to T2',
                 w.eq(H(T2, P) - H(T1, P), Cn.T_dependent_property_integral(T1, T2)))
        w.ensure(f'{who}: S(T2,P) - S(T1,P) = integral of its Cn/T dT from T1 to T2',
                 w.eq(S(T2, P) - S(T1, P), Cn.T_dependent_property_integral_over_T(T1, T2)))
        if locked == 'g':
            w.ensure(f'{who}: S_g(T,P2) - S_g(T,P1) = -R ln(P2/P1)', w.eq(S(T1, P2) - S(T1, P1), -R * ln_P2_over_P1))
        if canary:
            w.canary(f'canary: {who}: S(ref state) = S0 + 1', w.eq(S(T_ref, P_ref), S0 + 1.))
        return
    ref = chem.phase_ref
    n = UP if up else {p: p for p in PHASES}
    Hvap_Tb = chem.Hvap(Tb)
    w.ensure(f'{who}: H(phase_ref, T_ref, P_ref) = 0', w.eq(H(n[ref], T_ref, P_ref), 0.))
    w.ensure(f'{who}: S(phase_ref, T_ref, P_ref) = S0 (absolute entropy)', w.eq(S(n[ref], T_ref, P_ref), S0))
    for p in PHASES:
        m = getattr(Cn, p)
        w.ensure(f'{who}: H_{p}(T2) - H_{p}(T1) = integral of its Cn_{p} dT from T1 to T2',
                 w.eq(H(n[p], T2, P) - H(n[p], T1, P), m.T_dependent_property_integral(T1, T2)))
        w.ensure(f'{who}: S_{p}(T2,P) - S_{p}(T1,P) = integral of its Cn_{p}/T dT from T1 to T2',
                 w.eq(S(n[p], T2, P) - S(n[p], T1, P), m.T_dependent_property_integral_over_T(T1, T2)))
    w.ensure(f'{who}: S_g(T,P2) - S_g(T,P1) = -R ln(P2/P1)', w.eq(S('g', T1, P2) - S('g', T1, P1), -R * ln_P2_over_P1))
    w.ensure(f'{who}: H_g(Tb) - H_l(Tb) = its Hvap(Tb)', w.eq(H('g', Tb, P_ref) - H(n['l'], Tb, P_ref), Hvap_Tb))
    w.ensure(f'{who}: H_l(Tm) - H_s(Tm) = Hfus', w.eq(H(n['l'], Tm, P_ref) - H(n['s'], Tm, P_ref), Hfus))
    w.ensure(f'{who}: S_g(Tb) - S_l(Tb) = its Hvap(Tb)/Tb', w.eq(S('g', Tb, P_ref) - S(n['l'], Tb, P_ref), Hvap_Tb / Tb))
    w.ensure(f'{who}: S_l(Tm) - S_s(Tm) = Hfus/Tm', w.eq(S(n['l'], Tm, P_ref) - S(n['s'], Tm, P_ref), Hfus / Tm))
    # the same values read by attribute (H.l is the liquid functor of the handle) instead of by phase name
    w.ensure(f'{who}: by attribute: H.g(Tb) - H.l(Tb) = its Hvap(Tb) and S.g(Tb) - S.l(Tb) = its Hvap(Tb)/Tb',
             w.And(w.eq(H.g(Tb, P_ref) - H.l(Tb, P_ref), Hvap_Tb), w.eq(S.g(Tb, P_ref) - S.l(Tb, P_ref), Hvap_Tb / Tb)))
    w.ensure(f'{who}: by attribute: S.l(Tm) - S.s(Tm) = Hfus/Tm', w.eq(S.l(Tm, P_ref) - S.s(Tm, P_ref), Hfus / Tm))
    if canary:
        w.canary(f'canary: {who}: H_g(Tb) - H_l(Tb) = Hvap(Tb) + 1', w.eq(H('g', Tb, P_ref) - H(n['l'], Tb, P_ref), Hvap_Tb + 1.))
        w.canary(f'canary: {who}: S(ref state) = S0 + 1', w.eq(S(n[ref], T_ref, P_ref), S0 + 1.))


# --------------------------------------------------------------------------- C07/gap_setter_history, C07/gap_setter_sfus (mode S)
#
# history = list of operations on the chemicals A (created with phase_ref) and B (derived):
#   ['set', who, field]      <who>.<field> = fresh leaf (field in Tb, Tm, S0, Hfus) / the phase named after ':' for phase_ref
#   ['lock', who, phase]     <who>.at_state(phase)                       (in place)
#   ['copy']                 B = A.copy('B')
#   ['copy_data', field]     B = A.copy('B', <field>=fresh leaf)

def _h(ref, name, ops, up=False):
    return {'name': f'phase_ref={ref};{name}' + (';alias=upper' if up else ''), 'phase_ref': ref,
            'ops': [list(o) for o in ops], 'up': up}


def setter_configs(tier):
    out = []
    quick = tier == 'quick'
    for ref in PHASES:
        out.append(_h(ref, 'fresh', [], up=True))
        for r2 in PHASES:
            if r2 != ref:
                out.append(_h(ref, f'A.phase_ref={r2}', [('set', 'A', 'phase_ref:' + r2)]))
        out.append(_h(ref, 'A.Tb', [('set', 'A', 'Tb')]))
        out.append(_h(ref, 'A.S0', [('set', 'A', 'S0')]))
        out.append(_h(ref, 'A.S0;A.Tb', [('set', 'A', 'S0'), ('set', 'A', 'Tb')]))
        out.append(_h(ref, 'A.Tb;A.S0', [('set', 'A', 'Tb'), ('set', 'A', 'S0')]))
        out.append(_h(ref, 'copy_data:Tb', [('copy_data', 'Tb')]))
        out.append(_h(ref, 'copy_data:S0', [('copy_data', 'S0')]))
        if ref == 'l' or not quick:
            for who in ('A', 'B'):
                for f in ('S0', 'Tb'):
                    out.append(_h(ref, f'copy;{who}.{f}', [('copy',), ('set', who, f)]))
            out.append(_h(ref, 'A.phase_ref=g;A.S0', [('set', 'A', 'phase_ref:g'), ('set', 'A', 'S0')]))
            out.append(_h(ref, 'A.S0;A.phase_ref=s', [('set', 'A', 'S0'), ('set', 'A', 'phase_ref:s')], up=True))
    for p in PHASES:                                  # phase-locked chemical (single functor instead of a phase handle)
        for ref in (('l',) if quick else PHASES):
            out.append(_h(ref, f'lock:{p};A.S0', [('lock', 'A', p), ('set', 'A', 'S0')]))
            out.append(_h(ref, f'lock:{p};A.Tb', [('lock', 'A', p), ('set', 'A', 'Tb')]))
            out.append(_h(ref, f'A.S0;lock:{p}', [('set', 'A', 'S0'), ('lock', 'A', p)]))
    return out


def sfus_setter_configs(tier):
    out = []
    for ref in PHASES:
        out.append(_h(ref, 'A.Tm', [('set', 'A', 'Tm')]))
        out.append(_h(ref, 'A.Hfus', [('set', 'A', 'Hfus')]))
        if ref == 'l' or tier != 'quick':
            out.append(_h(ref, 'copy_data:Hfus', [('copy_data', 'Hfus')]))
            out.append(_h(ref, 'copy_data:Tm', [('copy_data', 'Tm')]))
            out.append(_h(ref, 'A.Hfus;A.Tb', [('set', 'A', 'Hfus'), ('set', 'A', 'Tb')]))
            out.append(_h(ref, 'copy;B.Tm', [('copy',), ('set', 'B', 'Tm')]))
    return out


def _run_setter_history(w, cfg):
    ref = cfg['phase_ref']
    d0 = _leaves(w)
    data = {'A': dict(d0)}
    temps = [tmo.Chemical.T_ref, d0['Tm'], d0['Tb'], d0['T1'], d0['T2']]
    fresh = {}

    def new_leaf(field, who):
        name = f'{field}*{who}'
        if name not in fresh:
            v = w.real(name, lo=0., lo_strict=True) if field in ('Tb', 'Tm') else w.real(name)
            fresh[name] = v
            if field in ('Tb', 'Tm'):
                temps.append(v)
        return fresh[name]

    # the leaves (and therefore the temperature terms of A-int) of the whole history are created first
    for op in cfg['ops']:
        if op[0] == 'set' and not op[2].startswith('phase_ref'):
            new_leaf(op[2], op[1])
        elif op[0] == 'copy_data':
            new_leaf(op[1], 'B')
    tags = [p + s for p in PHASES for s in ('.A',)]
    _assume_integrals_additive(w, tags, temps)

    chems = {'A': _chem(w, 'A', ref, d0, '.A')}
    chems['A'].reset_free_energies()
    for op in cfg['ops']:
        if op[0] == 'set':
            _, who, field = op
            if field.startswith('phase_ref:'):
                chems[who].phase_ref = field[-1]
            else:
                v = new_leaf(field, who)
                setattr(chems[who], field, v)
                data[who][field] = v
        elif op[0] == 'lock':
            chems[op[1]].at_state(op[2])
        elif op[0] == 'copy':
            chems['B'] = chems['A'].copy('B')
            data['B'] = dict(data['A'])
        elif op[0] == 'copy_data':
            v = new_leaf(op[1], 'B')
            chems['B'] = chems['A'].copy('B', **{op[1]: v})
            data['B'] = dict(data['A'], **{op[1]: v})
        else:
            raise ValueError(op)
    for who, chem in sorted(chems.items()):
        _sent(w, who, chem, data[who], up=cfg.get('up', False), canary=True)
    w.ensure('R is the gas constant', abs(tmo.constants.R - R_GAS) < 1e-5)
    w.note(ops=cfg['ops'], phase_ref={k: c.phase_ref for k, c in chems.items()})


_SETTER_ASSUMPTIONS = [
    'A-int: T_dependent_property_integral(_over_T) are additive in their limits (integrals of a function of T)',
    'A-log: log is uninterpreted with log(a/b) = log a - log b',
    'A-model-object (contract of thermo TDependentProperty): copy() returns an independent object computing the same function']


@group('C07/gap_setter_history', configs=setter_configs, functions=SETTER_FUNCTIONS, loop_free=True, assumptions=_SETTER_ASSUMPTIONS)
def gap_setter_history(w, cfg):
    _run_setter_history(w, cfg)


@group('C07/gap_setter_sfus', configs=sfus_setter_configs, functions=SETTER_FUNCTIONS, loop_free=True, assumptions=_SETTER_ASSUMPTIONS)
def gap_setter_sfus(w, cfg):
    _run_setter_history(w, cfg)


# --------------------------------------------------------------------------- C07/gap_models_from (mode S)
#
# Chemical.copy_models_from between chemicals of different kinds (the branches C07/copy_history does not enter):
#   locked<-unlocked:p   B is locked at p, the donor A has the three phases        (B.Cn := copy of A.Cn.<p>)
#   unlocked<-locked:p   B has the three phases, the donor A is locked at p        (B.Cn.<p> := copy of A.Cn)
#   locked<-locked:p     both locked at p
#   Hvap                 B.Hvap := copy of A.Hvap
# afterwards every sentence of C07 must hold for B against B's own current models (and still for A).

def models_from_configs(tier):
    out = []
    for ref in (('l',) if tier == 'quick' else PHASES):
        for p in PHASES:
            out.append({'name': f'phase_ref={ref};locked<-unlocked:{p}', 'phase_ref': ref, 'route': 'locked<-unlocked', 'p': p, 'names': ['Cn']})
            out.append({'name': f'phase_ref={ref};unlocked<-locked:{p}', 'phase_ref': ref, 'route': 'unlocked<-locked', 'p': p, 'names': ['Cn']})
        out.append({'name': f'phase_ref={ref};locked<-locked:g', 'phase_ref': ref, 'route': 'locked<-locked', 'p': 'g', 'names': ['Cn']})
        out.append({'name': f'phase_ref={ref};unlocked<-unlocked;Hvap', 'phase_ref': ref, 'route': 'unlocked<-unlocked', 'p': None, 'names': ['Hvap']})
        out.append({'name': f'phase_ref={ref};unlocked<-unlocked;Cn+Hvap', 'phase_ref': ref, 'route': 'unlocked<-unlocked', 'p': None,
                    'names': ['Cn', 'Hvap']})
    return out


@group('C07/gap_models_from', configs=models_from_configs, loop_free=True,
       functions=FREE_ENERGY_FUNCTIONS + ['thermosteam._chemical:Chemical.copy_models_from', 'thermosteam._chemical:Chemical.reset_free_energies',
                                          'thermosteam._chemical:Chemical.at_state', 'thermosteam._chemical:lock_phase'],
       assumptions=_SETTER_ASSUMPTIONS)
def gap_models_from(w, cfg):
    ref, route, p = cfg['phase_ref'], cfg['route'], cfg['p']
    d = _leaves(w)
    dB = dict(d, S0=w.real('S0*B'), Hfus=w.real('Hfus*B'))
    temps = [tmo.Chemical.T_ref, d['Tm'], d['Tb'], d['T1'], d['T2']]
    _assume_integrals_additive(w, [q + s for q in PHASES for s in ('.A', '.B')], temps)
    A = _chem(w, 'A', ref, d, '.A', td=True)
    B = _chem(w, 'B', ref, dB, '.B', td=True)
    to, frm = route.split('<-')
    if frm == 'locked': A.at_state(p)
    else: A.reset_free_energies()
    if to == 'locked': B.at_state(p)
    else: B.reset_free_energies()
    B.copy_models_from(A, cfg['names'])
    _sent(w, 'B', B, dB, canary=True)
    _sent(w, 'A', A, d)
    w.note(B_Cn=str(getattr(B.Cn, '_tag', None) or [m._tag for _, m in B.Cn]), B_Hvap=B.Hvap._tag)


# --------------------------------------------------------------------------- C07/gap_locked_mixture (mode S)

def _lm(name, chems, phases, present=None, maybe=()):
    n = len(chems)
    return {'name': name, 'chems': [list(c) for c in chems], 'phases': list(phases), 'N': n,
            'present': list(range(n)) if present is None else list(present), 'maybe': list(maybe)}


def locked_mixture_configs(tier):
    out = [
        _lm('l+lock:s', [('l', None), ('l', 's')], 'lg'),
        _lm('lock:g+l', [('l', 'g'), ('l', None)], 'lg'),
        _lm('g+lock:s+lock:g', [('g', None), ('s', 's'), ('g', 'g')], 'lgs'),
        _lm('lock:l+s+lock:g;present=02', [('l', 'l'), ('s', None), ('g', 'g')], 'lL', present=[0, 2]),
        _lm('lock:s+lock:l;maybe=1', [('s', 's'), ('l', 'l')], 'gS', present=[0], maybe=[1]),
    ]
    if tier == 'thorough':
        out += [
            _lm('l+g+lock:s+lock:g', [('l', None), ('g', None), ('l', 's'), ('l', 'g')], 'slgLS'),
            _lm('lock:s+lock:l+lock:g;maybe=012', [('s', 's'), ('l', 'l'), ('g', 'g')], 'lg', present=[], maybe=[0, 1, 2]),
        ]
    return out


@group('C07/gap_locked_mixture', configs=locked_mixture_configs, loop_free=True,
       functions=['thermosteam.mixture.mixture:create_mixture_model', 'thermosteam.mixture.mixture:IdealMixture.from_chemicals',
                  'thermosteam.base.phase_handle:MockPhaseTHandle.__call__', 'thermosteam.base.phase_handle:MockPhaseTPHandle.__call__',
                  'thermosteam.base.phase_handle:PhaseTHandle.__call__', 'thermosteam.base.phase_handle:PhaseTPHandle.__call__',
                  'thermosteam.base.phase_handle:PhaseHandle.L', 'thermosteam.base.phase_handle:PhaseHandle.S',
                  'thermosteam.mixture.mixture:Mixture.H', 'thermosteam.mixture.mixture:Mixture.S',
                  'thermosteam.mixture.ideal_mixture_model:IdealTPMixtureModel.__call__',
                  'thermosteam.mixture.ideal_mixture_model:IdealTMixtureModel.__call__',
                  'thermosteam.mixture.ideal_mixture_model:IdealEntropyModel.__call__',
                  'thermosteam._chemical:Chemical.at_state', 'thermosteam._chemical:lock_phase',
                  'thermosteam._chemical:Chemical._init_energies'],
       assumptions=['A-int / A-models: heat capacities and Hvap of every chemical are arbitrary functions of T (one per chemical and phase)',
                    'A-log: log is uninterpreted with log(a/b) = log a - log b'])
def gap_locked_mixture(w, cfg):
    n = cfg['N']
    T = w.real('T', lo=0., lo_strict=True)
    P = w.real('P', lo=0., lo_strict=True)
    lam = w.real('lambda', lo=0., lo_strict=True)
    chems = []
    for k, (ref, locked) in enumerate(cfg['chems']):
        d = {'Tm': w.real(f'Tm{k}', lo=0., lo_strict=True), 'Tb': w.real(f'Tb{k}', lo=0., lo_strict=True),
             'Hfus': w.real(f'Hfus{k}'), 'S0': w.real(f'S0{k}')}
        c = _chem(w, f'Chem{k}', ref, d, f'.{k}')
        if locked:
            c.at_state(locked)                    # resets the free energies
        else:
            c.reset_free_energies()
        chems.append(c)
    mix = tmo.IdealMixture.from_chemicals(chems)
    mol, vals = _mol(w, cfg)
    stored = _stored(mol)
    scaled = SparseVector.from_dict({k: lam * v for k, v in stored.items()}, n)

    def pure(var, k, phase):
        """The pure value of chemical k in `phase` through the chemical's own public handle."""
        c = chems[k]
        f = getattr(c, var)
        if c.locked_state:                        # a phase-locked chemical has one phase, whatever the mixture's phase
            return f(T) if var == 'Cn' else f(T, P)
        return f(phase.lower(), T) if var == 'Cn' else f(phase.lower(), T, P)

    for phase in cfg['phases']:
        H = mix.H(phase, mol, T, P)
        C = mix.Cn(phase, mol, T)
        w.ensure(f'{phase}: H_mix = sum n_k h_k (pure values; a phase-locked chemical contributes its own single phase)',
                 w.eq(H, w.total([vals[k] * pure('H', k, phase) for k in range(n)])))
        w.ensure(f'{phase}: Cn_mix = sum n_k cn_k', w.And(w.eq(C, w.total([vals[k] * pure('Cn', k, phase) for k in range(n)])),
                                                          w.eq(mix.Cn(phase, mol, T, P), C)))
        w.ensure(f'{phase}: H extensive: H(lambda n) = lambda H(n)', w.eq(mix.H(phase, scaled, T, P), lam * H))
        w.ensure(f'{phase}: Cn extensive: Cn(lambda n) = lambda Cn(n)', w.eq(mix.Cn(phase, scaled, T), lam * C))
        w.ensure(f'{phase}: pure stream: S = n s (no mixing term)',
                 w.And(*[w.eq(mix.S(phase, SparseVector.from_dict({k: vals[k]}, n), T, P), vals[k] * pure('S', k, phase))
                         for k in sorted(stored)]))
        w.ensure(f'{phase}: xH, xCn over one phase = H, Cn', w.And(w.eq(mix.xH([(phase, mol)], T, P), H),
                                                                  w.eq(mix.xCn([(phase, mol)], T), C)))
    ph0 = cfg['phases'][0]
    w.ensure('frame: mol unchanged', w.And(_same_dct(w, stored, mol.dct), mol.size == n))
    w.ensure('frame: chemicals keep their state', all(c.locked_state == l for c, (_, l) in zip(chems, cfg['chems'])))
    w.canary('canary: H_mix = sum n_k h_k + 1',
             w.eq(mix.H(ph0, mol, T, P), w.total([vals[k] * pure('H', k, ph0) for k in range(n)]) + 1.))
    w.canary('canary: Cn_mix = 0', w.eq(mix.Cn(ph0, mol, T), 0.))


# --------------------------------------------------------------------------- C07/gap_dense_input (mode S)

def dense_configs(tier):
    out = [{'name': 'N=2;kind=list', 'N': 2, 'kind': 'list', 'zero': []},
           {'name': 'N=3;kind=ndarray;zero=1', 'N': 3, 'kind': 'ndarray', 'zero': [1]},
           {'name': 'N=3;kind=list;zero=0', 'N': 3, 'kind': 'list', 'zero': [0]},
           {'name': 'N=2;kind=ndarray;excess', 'N': 2, 'kind': 'ndarray', 'zero': [], 'excess': True}]
    if tier == 'thorough':
        out += [{'name': 'N=4;kind=ndarray;zero=03', 'N': 4, 'kind': 'ndarray', 'zero': [0, 3]},
                {'name': 'N=3;kind=tuple;zero=2;excess', 'N': 3, 'kind': 'tuple', 'zero': [2], 'excess': True}]
    return out


@group('C07/gap_dense_input', configs=dense_configs, loop_free=True,
       functions=['thermosteam.mixture.mixture:Mixture.H', 'thermosteam.mixture.mixture:Mixture.S',
                  'thermosteam.mixture.mixture:Mixture.xH', 'thermosteam.mixture.mixture:Mixture.xCn',
                  'thermosteam.mixture.ideal_mixture_model:IdealTPMixtureModel.__call__',
                  'thermosteam.mixture.ideal_mixture_model:IdealTMixtureModel.__call__',
                  'thermosteam.mixture.ideal_mixture_model:IdealEntropyModel.__call__',
                  'thermosteam.base.sparse:SparseVector.__init__'],
       assumptions=['A-models: pure-component H, S, Cn, H_excess, S_excess are arbitrary (uninterpreted) functions of (phase, T, P)',
                    'A-log: log is uninterpreted with log(a/b) = log a - log b'])
def gap_dense_input(w, cfg):
    n = cfg['N']
    IDs = MIX_IDS[:n]
    excess = bool(cfg.get('excess'))
    th = W.stub_thermo(w, IDs, include_excess_energies=excess)
    mix = th.mixture
    T = w.real('T', lo=0., lo_strict=True)
    P = w.real('P', lo=0., lo_strict=True)
    vals = [0. if k in cfg['zero'] else w.real(f'n{k}', lo=0., lo_strict=True) for k in range(n)]

    def dense(xs):
        if cfg['kind'] == 'list': return list(xs)
        if cfg['kind'] == 'tuple': return tuple(xs)
        a = numpy.empty(len(xs), dtype=object if w.symbolic else float)
        for i, x in enumerate(xs): a[i] = x
        return a

    ex = 1. if excess else 0.

    def wsum(var, phase, with_P=True, xs=vals):
        return w.total([xs[k] * (w.fn(f'{var}.{IDs[k]}.{phase}')(T, P) if with_P else w.fn(f'{var}.{IDs[k]}.{phase}')(T))
                        for k in range(n)])

    mol = dense(vals)
    H = mix.H('l', mol, T, P)
    C = mix.Cn('g', mol, T)
    w.ensure('H = sum n_k h_k by position (+ sum n_k hE_k iff include_excess_energies)',
             w.eq(H, wsum('H', 'l') + ex * wsum('H_excess', 'l')))
    w.ensure('Cn = sum n_k cn_k by position', w.eq(C, wsum('Cn', 'g', with_P=False)))
    w.ensure('xH, xCn = sum over phases', w.And(w.eq(mix.xH([('l', mol), ('g', dense(vals))], T, P), H + mix.H('g', mol, T, P)),
                                                 w.eq(mix.xCn((('g', mol),), T), C)))
    for k in range(n):
        if k in cfg['zero']: continue
        one = [vals[j] if j == k else 0. for j in range(n)]
        w.ensure(f'pure stream of chemical {k}: S = n s (no mixing term) (+ n sE iff include_excess_energies)',
                 w.eq(mix.S('l', dense(one), T, P), wsum('S', 'l', xs=one) + ex * wsum('S_excess', 'l', xs=one)))
    w.ensure('S of an all-zero composition = 0', w.eq(mix.S('g', dense([0.] * n), T, P), 0.))
    w.ensure('frame: the caller\'s sequence is unchanged', len(mol) == n and w.And(*[w.eq(a, b) for a, b in zip(mol, vals)]))
    w.canary('canary: H = sum n_k h_k + 1', w.eq(H, wsum('H', 'l') + ex * wsum('H_excess', 'l') + 1.))


# --------------------------------------------------------------------------- C07/gap_stream_channels (mode S)

def stream_channel_configs(tier):
    out = []

    def add(name, phases, pattern, excess=False, N=2):
        out.append({'name': name, 'phases': phases, 'pattern': pattern, 'excess': excess, 'N': N})

    add('stream:l;both', 'l', {'l': [0, 1]})
    add('stream:g;both;excess', 'g', {'g': [0, 1]}, excess=True)
    add('stream:l;empty', 'l', {'l': []})
    add('stream:g;pure', 'g', {'g': [1]})
    add('multi:gl;one-each', ['g', 'l'], {'g': [0], 'l': [1]})
    add('multi:gl;liquid-mixed', ['g', 'l'], {'g': [1], 'l': [0, 1]})
    add('multi:gl;gas-empty', ['g', 'l'], {'g': [], 'l': [0]})
    add('multi:gl;empty', ['g', 'l'], {'g': [], 'l': []})
    add('multi:gl;gas-empty;excess', ['g', 'l'], {'g': [], 'l': [1]}, excess=True)
    add('multi:Ll;one-each;excess', ['L', 'l'], {'L': [0], 'l': [1]}, excess=True)
    if tier == 'thorough':
        add('multi:gls', ['g', 'l', 's'], {'g': [0], 'l': [1], 's': [1]})
        add('multi:gls;N=3;excess', ['g', 'l', 's'], {'g': [0], 'l': [1, 2], 's': [2]}, N=3, excess=True)
        add('multi:gl;both-mixed', ['g', 'l'], {'g': [0, 1], 'l': [0, 1]})
        add('multi:gl;both-mixed;excess', ['g', 'l'], {'g': [0, 1], 'l': [0, 1]}, excess=True)
    return out


@group('C07/gap_stream_channels', configs=stream_channel_configs, loop_free=True,
       functions=['thermosteam._stream:Stream.H', 'thermosteam._stream:Stream.C', 'thermosteam._stream:Stream.S',
                  'thermosteam._stream:Stream.h', 'thermosteam._stream:Stream.Cn', 'thermosteam._stream:Stream._get_property',
                  'thermosteam._multi_stream:MultiStream.H', 'thermosteam._multi_stream:MultiStream.S',
                  'thermosteam._multi_stream:MultiStream.C', 'thermosteam._multi_stream:MultiStream._get_property',
                  'thermosteam.mixture.mixture:Mixture.xH', 'thermosteam.mixture.mixture:Mixture.xS',
                  'thermosteam.mixture.mixture:Mixture.xCn', 'thermosteam.mixture.mixture:Mixture.H',
                  'thermosteam.mixture.mixture:Mixture.S'],
       assumptions=['A-models: pure-component H, S, Cn, H_excess, S_excess are arbitrary (uninterpreted) functions of (phase, T, P)',
                    'A-log: log is uninterpreted with log(a/b) = log a - log b'])
def gap_stream_channels(w, cfg):
    # Non-linear arithmetic: the getters compute N * sum_k (n_k / N) * h_k with N = sum n_k.  With free n_k the solving time of
    # these VCs varied between 1 s and 12 min with the order of clauses and configurations.  The flows are therefore planted as
    # x_k with sum x_k = 1 (last entry = 1 - the others, > 0) for the FIRST read, and every flow vector n = lambda x, lambda > 0
    # arbitrary, is covered by the reads after the flows were multiplied by lambda (remembered molar value: second read;
    # recomputed at another temperature: third read).  Every equation is discharged where the value is read (w.lemma).
    W.reset_caches()
    n = cfg['N']
    IDs = MIX_IDS[:n]
    excess = bool(cfg['excess'])
    th = W.stub_thermo(w, IDs, include_excess_energies=excess)
    T = w.real('T', lo=0., lo_strict=True)
    P = w.real('P', lo=0., lo_strict=True)
    lam = w.real('lambda', lo=0., lo_strict=True)
    T2 = w.real('T2', lo=0., lo_strict=True)
    phases = cfg['phases']
    single = isinstance(phases, str)
    rows = [phases] if single else list(phases)
    s, _ = W.stream_on(w, 's', th, phases if single else tuple(phases), T=T, P=P, present={'default': 'zero'})
    entries = [(ph, IDs[k]) for ph in rows for k in cfg['pattern'][ph]]
    lv = {(ph, ID): 0. for ph in rows for ID in IDs}
    if len(entries) == 1:
        lv[entries[0]] = w.real('n', lo=0., lo_strict=True)
    else:
        for e in entries[:-1]:
            lv[e] = w.real(f'x.{e[0]}.{e[1]}', lo=0., lo_strict=True, hi=1., hi_strict=True)
        if entries:
            lv[entries[-1]] = 1. - w.total([lv[e] for e in entries[:-1]])
            w.assume(w.gt(lv[entries[-1]], 0.))
    for ph, sv in W.rows_of(s):
        for k, ID in enumerate(IDs):
            if (ph, ID) in entries: sv.dct[k] = lv[ph, ID]
    ex = 1. if excess else 0.
    empty = not entries
    pure_phases = all(len(cfg['pattern'][ph]) <= 1 for ph in rows)

    def pure(var, ph, ID, with_P=True, Tx=T):
        return w.fn(f'{var}.{ID}.{ph}')(Tx, P) if with_P else w.fn(f'{var}.{ID}.{ph}')(Tx)

    def wsum(var, with_P=True, Tx=T):
        return w.total([lv[e] * pure(var, e[0], e[1], with_P, Tx) for e in entries])

    H_expected = wsum('H') + ex * wsum('H_excess')
    C_expected = wsum('Cn', with_P=False)
    S_expected = wsum('S') + ex * wsum('S_excess')
    N_total = w.total([lv[e] for e in entries])
    pre = W.snapshot(s)
    H, C = s.H, s.C
    w.lemma('stream: H = sum over phases and chemicals of n h (+ n hE iff include_excess_energies)', w.eq(H, H_expected))
    w.lemma('stream: C = sum over phases and chemicals of n cn', w.eq(C, C_expected))
    if not empty and single:
        w.lemma('stream: molar values h = H/N, Cn = C/N', w.And(w.eq(s.h * N_total, H_expected), w.eq(s.Cn * N_total, C_expected)))
    if pure_phases:
        w.lemma('stream: every phase is pure: S = sum over phases of n s (no mixing term) (+ n sE iff include_excess_energies)',
                w.eq(s.S, S_expected))
    w.ensure('frame: reading H, C, S leaves the stream unchanged', W.same_snapshot(w, pre, W.snapshot(s)))
    # extensive: the same stream with lambda times the flows (second read; composition, T, P as before)
    for ph, ID in entries:
        if single: s.imol[ID] = lam * lv[ph, ID]
        else: s.imol[ph, ID] = lam * lv[ph, ID]
    w.lemma('stream: H extensive: H(lambda n) = lambda H(n)', w.eq(s.H, lam * H_expected))
    w.lemma('stream: C extensive: C(lambda n) = lambda C(n)', w.eq(s.C, lam * C_expected))
    if pure_phases:
        w.lemma('stream: every phase is pure: S extensive: S(lambda n) = lambda S(n)', w.eq(s.S, lam * S_expected))
    # another temperature afterwards (third read): the values are those of the new state
    s.T = T2
    w.lemma('stream: H, C at another temperature afterwards = sum n h(T2), sum n cn(T2)',
            w.And(w.eq(s.H, lam * (wsum('H', Tx=T2) + ex * wsum('H_excess', Tx=T2))), w.eq(s.C, lam * wsum('Cn', with_P=False, Tx=T2))))
    w.canary('canary: H = sum n h + 1', w.eq(H, H_expected + 1.))


# --------------------------------------------------------------------------- C07/gap_real_histories (mode B)

RB_QUICK = ('Ethanol', 'Water')
RB_THOROUGH = RB_QUICK + ('Methanol', 'Octane', 'Propane', 'AceticAcid')


def _rb_histories():
    """(name, ops): op = ('pickle',) | ('set', field, factor or value) | ('lock', p) | ('new_locked', p) | ('method', model)
    | ('copy_data', field, factor) | ('edit', model, value)."""
    hs = [('pickle', [('pickle',)]),
          ('Tb*1.02', [('set', 'Tb', 1.02)]),
          ('S0=100', [('set', 'S0', 100.)]),
          ('S0=100;Tb*0.98', [('set', 'S0', 100.), ('set', 'Tb', 0.98)]),
          ('Tb*1.02;pickle', [('set', 'Tb', 1.02), ('pickle',)]),
          ('edit:Cn.l;pickle', [('edit', 'Cn.l', 150.), ('pickle',)]),
          ('copy_data:Tb*1.02', [('copy_data', 'Tb', 1.02)]),
          ('method:Cn.g', [('method', 'Cn.g')]),
          ('method:Cn.l', [('method', 'Cn.l')]),
          ('method:Hvap', [('method', 'Hvap')])]
    for p in PHASES:
        hs.append((f'new_locked:{p}', [('new_locked', p)]))
        hs.append((f'lock:{p};S0=100', [('lock', p), ('set', 'S0', 100.)]))
        hs.append((f'lock:{p};pickle', [('lock', p), ('pickle',)]))
        hs.append((f'lock:{p};models_from_unlocked', [('lock', p), ('models_from', None, f'Cn.{p}')]))
        hs.append((f'models_from_locked:{p}', [('models_from', p, f'Cn.{p}')]))
    hs.append(('models_from_unlocked:Hvap', [('models_from', None, 'Hvap')]))
    hs.append(('reset', [('reset',)]))
    return hs


def real_histories_configs(tier):
    out = []
    for ID in (RB_QUICK if tier == 'quick' else RB_THOROUGH):
        for ref in PHASES:
            for hname, ops in _rb_histories():
                if tier == 'quick' and ID != RB_QUICK[0] and ref != 'l':
                    continue
                out.append({'name': f'{ID};phase_ref={ref};history={hname}', 'ID': ID, 'phase_ref': ref, 'ops': [list(o) for o in ops]})
            for r2 in PHASES:
                if r2 != ref and (tier != 'quick' or ID == RB_QUICK[0]):
                    out.append({'name': f'{ID};phase_ref={ref};history=phase_ref={r2}', 'ID': ID, 'phase_ref': ref,
                                'ops': [['phase_ref', r2]]})
    return out


def _other_method(model):
    """Another available method of a real thermo model (deterministic choice), or None."""
    cur = model.method
    for m in sorted(model.all_methods):
        if m != cur and m not in ('POLY_FIT', 'COOLPROP', 'HEOS_FIT'):
            return m
    return None


REAL_HISTORY_FUNCTIONS = SETTER_FUNCTIONS + [
    'thermosteam._chemical:Chemical.__reduce__', 'thermosteam._chemical:unpickle_chemical', 'thermosteam._chemical:get_chemical_data',
    'thermosteam._chemical:Chemical.__new__', 'thermosteam._chemical:Chemical.reset',
    'thermosteam._chemical:Chemical.copy_models_from',
    'thermosteam.thermo.t_dependent_property:_set_method', 'thermosteam.thermo.t_dependent_property:copy']


@group('C07/gap_real_histories', configs=real_histories_configs, functions=REAL_HISTORY_FUNCTIONS, mode='B',
       notes='database chemicals Ethanol, Water (quick) + Methanol, Octane, Propane, AceticAcid (thorough), three reference phases; '
             'histories: pickle round trip / Tb, S0, phase_ref setters / setter then pickle / constant Cn_l model then pickle / '
             'copy(ID, Tb=...) / another available method of Cn.g, Cn.l, Hvap + reset_free_energies / Chemical(ID, phase=p) / '
             'at_state(p) then S0 setter or pickle / copy_models_from a donor (same chemical, constant model added) between locked and '
             'unlocked chemicals / Chemical.reset; sentences as in C07/real_copy_history (P = 1 atm, two temperatures inside each phase '
             'range, rtol 1e-6; derivative sentences additionally by Simpson rule on Cn(T), 0.5 %)')
def gap_real_histories(w, cfg):
    ID, ref = cfg['ID'], cfg['phase_ref']
    w.canary('canary (not evaluated in mode B)', False)
    if cfg['ops'] and cfg['ops'][0][0] == 'new_locked':
        A = tmo.Chemical(ID, cache=False, phase_ref=ref, phase=cfg['ops'][0][1])
        ops = cfg['ops'][1:]
        w.ensure('Chemical(ID, phase=p) is locked at p', A.locked_state == cfg['ops'][0][1])
    else:
        A = tmo.Chemical(ID, cache=False, phase_ref=ref)
        ops = cfg['ops']
    if not A.locked_state:
        complete = all(bool(getattr(A.Cn, p)) for p in PHASES) and A.Tm and A.Tb and bool(A.Hvap) and A.Hfus is not None
        w.ensure('database chemical with complete Cn/Tm/Tb/Hvap data (precondition of the family)', bool(complete))
        if not complete:
            return
    chems = {'A': A}
    expect = {}
    for op in ops:
        kind = op[0]
        if kind == 'pickle':
            chems['A'] = A = pickle.loads(pickle.dumps(A))
        elif kind == 'set':
            _, field, x = op
            v = getattr(A, field) * x if field == 'Tb' else x
            setattr(A, field, v)
            expect[field] = v
        elif kind == 'phase_ref':
            A.phase_ref = op[1]
            expect['phase_ref'] = op[1]
        elif kind == 'lock':
            A.at_state(op[1])
        elif kind == 'copy_data':
            _, field, x = op
            v = getattr(A, field) * x
            chems['B'] = A.copy(ID + 'Variant', **{field: v})
            w.ensure(f'B: {field} as given to copy', _near(getattr(chems['B'], field), v))
        elif kind == 'edit':
            _model_of_real(A, op[1]).add_method(op[2])
            A.reset_free_energies()
        elif kind == 'models_from':
            # donor: the same database chemical (all phases, or locked at op[1]) whose model op[2] was replaced by a constant one
            donor = tmo.Chemical(ID, cache=False, phase_ref=ref, phase=op[1]) if op[1] else tmo.Chemical(ID, cache=False, phase_ref=ref)
            _model_of_real(donor, op[2]).add_method(B_VALUES[op[2]])
            donor.reset_free_energies()
            A.copy_models_from(donor, [op[2].split('.')[0]])
            chems['donor'] = donor
        elif kind == 'reset':
            A.reset(A.CAS, phase_ref=ref)
        elif kind == 'method':
            model = _model_of_real(A, op[1])
            other = _other_method(model)
            if other is None:
                return                                   # the family needs a second method; nothing to check for this chemical
            model.method = other
            A.reset_free_energies()
            w.note(method=other)
        else:
            raise ValueError(op)
    for field, v in expect.items():
        w.ensure(f'A: {field} reads back as set', getattr(A, field) == v if isinstance(v, str) else _near(getattr(A, field), v))
    for who, chem in sorted(chems.items()):
        _b_sentences(w, who, chem)
    w.note(chemicals={k: (c.ID, c.phase_ref, c.locked_state) for k, c in chems.items()})


# --------------------------------------------------------------------------- C07/gap_real_mixture (mode B)

def real_mixture_configs(tier):
    out = []
    packs = [('Water+Ethanol+N2:g', [('Water', None), ('Ethanol', None), ('N2', 'g')]),
             ('Glucose:s+Water', [('Glucose', 's'), ('Water', None)]),
             ('CO2:g+Octane:l+Water', [('CO2', 'g'), ('Octane', 'l'), ('Water', None)])]
    if tier == 'thorough':
        packs += [('Water:l+Ethanol:g', [('Water', 'l'), ('Ethanol', 'g')]),
                  ('Methanol+O2:g+Glucose:s+Water', [('Methanol', None), ('O2', 'g'), ('Glucose', 's'), ('Water', None)])]
    for name, chems in packs:
        for excess in (False, True):
            out.append({'name': f'{name};excess={excess}', 'chems': [list(c) for c in chems], 'excess': excess})
    return out


@group('C07/gap_real_mixture', configs=real_mixture_configs, mode='B',
       functions=['thermosteam.mixture.mixture:create_mixture_model', 'thermosteam.mixture.mixture:IdealMixture.from_chemicals',
                  'thermosteam.base.phase_handle:MockPhaseTHandle.__call__', 'thermosteam.base.phase_handle:MockPhaseTPHandle.__call__',
                  'thermosteam.mixture.mixture:Mixture.H', 'thermosteam.mixture.mixture:Mixture.S',
                  'thermosteam._stream:Stream.H', 'thermosteam._stream:Stream.C', 'thermosteam._stream:Stream.S'],
       notes='property packages of database chemicals some of which are phase-locked (N2/CO2/O2 gas, Glucose solid, Octane liquid), '
             'include_excess_energies False/True; phases l, g; T = 330 K, P = 1 and 3 atm; three compositions (all present, first '
             'absent, only one present); H_mix, Cn_mix against the mole-weighted sum of the chemicals\' own handles, extensive '
             '(factor 2.5), S of a pure stream = n s, Stream.H / .C / .S of a real stream; rtol 1e-9')
def gap_real_mixture(w, cfg):
    w.canary('canary (not evaluated in mode B)', False)
    chems = [tmo.Chemical(ID, cache=False, phase=ph) if ph else tmo.Chemical(ID, cache=False) for ID, ph in cfg['chems']]
    cs = tmo.Chemicals(chems)
    cs.compile()
    excess = cfg['excess']
    mix = tmo.IdealMixture.from_chemicals(cs, include_excess_energies=excess)
    th = tmo.Thermo(cs, mixture=mix)
    n = len(chems)
    T = 330.
    comps = [[1. + 0.5 * k for k in range(n)], [0.] + [2. + k for k in range(n - 1)], [0.] * (n - 1) + [3.]]

    def pure(var, k, phase, P):
        c = cs.tuple[k]
        f = getattr(c, var)
        if c.locked_state:
            return f(T) if var == 'Cn' else f(T, P)
        return f(phase, T) if var == 'Cn' else f(phase, T, P)

    def near(a, b): return _near(a, b, rtol=1e-9, atol=1e-9)

    for phase in ('l', 'g'):
        for P in (101325., 303975.):
            for ci, comp in enumerate(comps):
                tag = f'{phase};P={P:.0f};comp{ci}'
                mol = SparseVector(numpy.array(comp))
                H_exp = sum(comp[k] * (pure('H', k, phase, P) + (pure('H_excess', k, phase, P) if excess else 0.)) for k in range(n) if comp[k])
                C_exp = sum(comp[k] * pure('Cn', k, phase, P) for k in range(n) if comp[k])
                H = mix.H(phase, mol, T, P)
                C = mix.Cn(phase, mol, T)
                w.ensure(f'{tag}: H_mix = sum n_k h_k (+ excess iff include_excess_energies)', near(H, H_exp), got=H, expected=H_exp)
                w.ensure(f'{tag}: Cn_mix = sum n_k cn_k', near(C, C_exp), got=C, expected=C_exp)
                w.ensure(f'{tag}: H, Cn extensive', near(mix.H(phase, mol * 2.5, T, P), 2.5 * H) and near(mix.Cn(phase, mol * 2.5, T), 2.5 * C))
                st = tmo.Stream(None, thermo=th, phase=phase, T=T, P=P)
                for k in range(n):
                    if comp[k]: st.imol[cs.IDs[k]] = comp[k]
                w.ensure(f'{tag}: Stream.H, Stream.C = sum n h, sum n cn', near(st.H, H_exp) and near(st.C, C_exp), got=(st.H, st.C))
                if ci == 2:
                    k = n - 1
                    S_exp = comp[k] * (pure('S', k, phase, P) + (pure('S_excess', k, phase, P) if excess else 0.))
                    w.ensure(f'{tag}: pure stream: S = n s (no mixing term)', near(mix.S(phase, mol, T, P), S_exp) and near(st.S, S_exp),
                             got=(mix.S(phase, mol, T, P), st.S), expected=S_exp)


# --------------------------------------------------------------------------- C07/gap_eos_mixture (mode B)

def eos_mixture_configs(tier):
    out = []
    for cls in (('PRMixture',) if tier == 'quick' else ('PRMixture', 'SRKMixture', 'IGMixture')):
        for IDs in ((('Water', 'Ethanol'), ('Propane', 'Octane', 'Water')) if tier == 'quick' else
                    (('Water', 'Ethanol'), ('Propane', 'Octane', 'Water'), ('Methanol', 'Water', 'Ethanol', 'Octane'))):
            for hist in ('fresh', 'solve_T_at_HP', 'other-composition-first', 'xsolve_T_at_HP'):
                out.append({'name': f'{cls};{"+".join(IDs)};history={hist}', 'cls': cls, 'IDs': list(IDs), 'history': hist})
    return out


@group('C07/gap_eos_mixture', configs=eos_mixture_configs, mode='B',
       functions=['thermosteam.mixture.mixture:EOSMixture.H', 'thermosteam.mixture.mixture:EOSMixture.Cn', 'thermosteam.mixture.mixture:EOSMixture.eos_args',
                  'thermosteam.mixture.mixture:EOSMixture.from_chemicals', 'thermosteam.mixture.mixture:EOSMixture._load_free_energy_args',
                  'thermosteam.mixture.mixture:EOSMixture._load_xfree_energy_args', 'thermosteam.mixture.mixture:Mixture.solve_T_at_HP',
                  'thermosteam.mixture.mixture:Mixture.xsolve_T_at_HP', 'thermosteam.mixture.mixture:Mixture.xH',
                  'thermosteam.mixture.mixture:Mixture.xCn'],
       notes='equation-of-state mixtures (PRMixture; SRKMixture, IGMixture thorough) of 2-4 database chemicals; phases l, g, s; T = 340 K, '
             'P = 2 atm; two compositions; histories on the same mixture object before the reads: none / solve_T_at_HP with the other '
             'composition / H, S, Cn of the other composition / xsolve_T_at_HP over two phases; clauses (entropy is not claimed here): '
             'H and Cn extensive with factor 2 (exact in binary), xH/xCn = sum over phases, solid phase H, Cn = mole-weighted sum '
             'of the pure values; rtol 1e-9')
def gap_eos_mixture(w, cfg):
    w.canary('canary (not evaluated in mode B)', False)
    cs = tmo.Chemicals([tmo.Chemical(i, cache=False) for i in cfg['IDs']])
    cs.compile()
    mix = getattr(tmo.mixture, cfg['cls']).from_chemicals(cs)
    n = len(cfg['IDs'])
    T, P = 340., 202650.
    comp_a = SparseVector(numpy.array([1. + k for k in range(n)]))
    comp_b = SparseVector(numpy.array([3.] + [0.5] * (n - 1)))
    hist = cfg['history']
    if hist == 'solve_T_at_HP':
        for ph in ('l', 'g'):
            try: mix.solve_T_at_HP(ph, comp_b, mix.H(ph, comp_b, 330., P), 320., P)
            except Exception as e: w.note(solver_error=repr(e)[:100])
    elif hist == 'other-composition-first':
        for ph in ('l', 'g', 's'):
            mix.H(ph, comp_b, 300., 101325.); mix.S(ph, comp_b, 300., 101325.); mix.Cn(ph, comp_b, 300., 101325.)
    elif hist == 'xsolve_T_at_HP':
        pm = (('g', comp_b), ('l', comp_b * 2.))
        try: mix.xsolve_T_at_HP(pm, mix.xH(pm, 330., P), 320., P)
        except Exception as e: w.note(solver_error=repr(e)[:100])

    def near(a, b): return _near(a, b, rtol=1e-9, atol=1e-9)

    for ph in ('l', 'g', 's'):
        H, C = mix.H(ph, comp_a, T, P), mix.Cn(ph, comp_a, T, P)
        w.ensure(f'{ph}: H extensive: H(2 n) = 2 H(n)', near(mix.H(ph, comp_a * 2., T, P), 2. * H), got=mix.H(ph, comp_a * 2., T, P), expected=2. * H)
        w.ensure(f'{ph}: Cn extensive: Cn(2 n) = 2 Cn(n)', near(mix.Cn(ph, comp_a * 2., T, P), 2. * C), got=mix.Cn(ph, comp_a * 2., T, P), expected=2. * C)
    Hs = sum(j * cs.tuple[i].H('s', T, P) for i, j in comp_a.dct.items())
    Cs = sum(j * cs.tuple[i].Cn('s', T) for i, j in comp_a.dct.items())
    w.ensure('s: H, Cn = mole-weighted sum of the pure values', near(mix.H('s', comp_a, T, P), Hs) and near(mix.Cn('s', comp_a, T, P), Cs))
    pm = (('g', comp_a), ('l', comp_b))
    w.ensure('xH, xCn = sum over phases', near(mix.xH(pm, T, P), mix.H('g', comp_a, T, P) + mix.H('l', comp_b, T, P))
             and near(mix.xCn(pm, T, P), mix.Cn('g', comp_a, T, P) + mix.Cn('l', comp_b, T, P)))
